------------------------------ MODULE ScanGeom ------------------------------
(***************************************************************************)
(* Scanning-3DXRD geometry of ImageD11 (property C19).                     *)
(*                                                                         *)
(* CODE MODELLED                                                           *)
(*   ImageD11/sinograms/geometry.py                                        *)
(*     85-236  sample_to_lab(_sincos) lab_to_sample(_sincos)               *)
(*             sample_to_step step_to_sample step_to_recon recon_to_step   *)
(*             sample_to_recon recon_to_sample lab_to_step step_to_lab     *)
(*             lab_to_recon recon_to_lab                                   *)
(*     239-275 dty_values_grain_in_beam(_sincos), x_y_y0_omega_to_dty      *)
(*     312-376 dty_to_dtyi (np.round = round half to even), dtyi_to_dty,   *)
(*             step_omega_to_dty(i), recon_omega_to_dty(i)                 *)
(*     379-438 dtyimask_from_{sample,step,recon}(_sincos): the mask is     *)
(*             dtyi_calc == dtyi; the model carries dtyi_calc              *)
(*     465-514 sino_shift_and_pad, step_grid_from_ybincens                 *)
(*   ImageD11/sinograms/roi_iradon.py                                      *)
(*     50-60   _sinogram_pad    118-169 row / pixel coordinates of iradon  *)
(*     196-200 jobs = [todo[j::workers] for j in range(workers)]           *)
(*     552     outsize = sino.shape[0] + pad (run_iradon)                  *)
(*   ImageD11/sinograms/point_by_point.py                                  *)
(*     358-368 get_voxel_idx   902-906 PBPRefine.setmask: pad = grid - ny  *)
(*                                                                         *)
(* All numbers are exact rationals <<num, den>> (den > 0, reduced); omega  *)
(* is an angle <<c, s, n>> of ExactLA.Ang (cos = c/n, sin = s/n).          *)
(*                                                                         *)
(* The module contains three machines that share the function library.     *)
(* A .cfg selects one with INIT / NEXT.                                    *)
(*                                                                         *)
(* 1. WALK  (InitWalk / NextWalk)            binding mode B                *)
(*    variables  cfg    parameters om, y0, ystep, ymin, shape, P0, f0      *)
(*               frame  "lab" | "sample" | "step" | "recon"                *)
(*               pos    exact position of the physical point in `frame`    *)
(*               dty    current stage translation (a parameter that the    *)
(*                      in-beam / dtyi actions change)                     *)
(*               phase  0 free dty, 1 dty = value bringing the point into  *)
(*                      the beam, 2 also discretised (dtyi valid),         *)
(*                      3 dty = dtyi_to_dty(dtyi)                          *)
(*               dtyi   discretised dty (valid when phase >= 2)            *)
(*               seen   frame -> position at the first visit under the     *)
(*                      current parameters (Null = not visited)            *)
(*               op     history: one record per executed function          *)
(*    actions    one per conversion function, named after it; with WRepeat  *)
(*               also  set_omega  the caller changes the angle IN PLACE     *)
(*                                (omega += ..., omega[:] = ...: the array  *)
(*                                OBJECT handed to the next function is the *)
(*                                one handed to the previous ones, only its *)
(*                                contents differ); the angle moves to the  *)
(*                                next one of WAng, a stage position that   *)
(*                                was derived from the old angle is a free  *)
(*                                value again (phase 0)                     *)
(*                     repeat     the caller puts the contents the argument *)
(*                                objects had at the last call back (in     *)
(*                                place) and calls the same function again: *)
(*                                the result is that call's result          *)
(*    invariants CycleIdentity  returning to a visited frame gives the     *)
(*                              same position                              *)
(*               RefAgree       every position is the image of the one     *)
(*                              physical point P0 under the documented     *)
(*                              frame definitions (rotation through        *)
(*                              ExactLA.Rz, independent of the code forms) *)
(*               CompositesEqualCompositions  closed forms = compositions  *)
(*               InBeamZero     ly(dty_values_grain_in_beam) = 0 exactly   *)
(*               SnapResidual   after dtyi_to_dty(dty_to_dtyi) the point   *)
(*                              is within ystep/2 of the beam              *)
(*               MaskAgree      dtyi_calc of the sample / step / recon     *)
(*                              mask variants is the same number (cfg.dc,  *)
(*                              fixed by the physical point), and it is    *)
(*                              the dtyi the *_to_dtyi functions return    *)
(*               RoundTripI     dty_to_dtyi(dtyi_to_dty(i)) = i            *)
(*               VoxelHasRow    the discretised row lies in the            *)
(*                              get_voxel_idx window                       *)
(*               FunctionOfCurrentValues  THE REPEAT LAW: every operation  *)
(*                              is a function of the current VALUES of its  *)
(*                              arguments - two executions of one function  *)
(*                              on equal values give equal results whatever *)
(*                              was executed in between (no memory of an    *)
(*                              earlier call, of the identity of an array   *)
(*                              or of an earlier angle); with RefAgree,     *)
(*                              which is stated for the CURRENT angle after *)
(*                              every set_omega, a result never belongs to  *)
(*                              an angle the argument held before           *)
(*    emission   EmitWalk prints every behaviour of length Depth           *)
(*    cfgs       ScanGeom_walk_q / _t (WRepeat = FALSE), ScanGeom_walk_rep  *)
(*               / _rep_t and _sim (WRepeat = TRUE)                         *)
(*    bounds     walks of Depth conversions; constant sets W*; lengths in  *)
(*               half steps of 1/2, 1, 3 and of 1/10, 3/7 (not binary      *)
(*               fractions: no float of the implementation is exact, the   *)
(*               harness then accepts either neighbour at an exact tie)    *)
(*    covariant  (harness side, the model is unchanged): omega handed over *)
(*               as the angle -1 / 0 / +1 whole turns (Ang is a class mod  *)
(*               360); scalar or array arguments, the elements of an array *)
(*               being the walks of a group that differ in the angle; the  *)
(*               array arguments of ALL groups of one size are the same    *)
(*               objects, rewritten in place from call to call             *)
(*                                                                         *)
(* 2. RECON (InitRecon / NextRecon)          binding mode A                *)
(*    variables  cfg (sx, sy, y0, ystep, ymin, ny, scan, padmode), stage,  *)
(*               rec (outputs computed so far)                             *)
(*    actions    ShiftAndPad, StepGrid, ChoosePad, Predict                 *)
(*    invariants PadNonNegative, GridCoversScan, PredictedInFrame,         *)
(*               IradonAgreesWithGeometry (pixel -> t of iradon equals     *)
(*               (dty_in_beam - y0)/ystep of geometry.py at every Ang),    *)
(*               RowWithinOne (sinogram row of the point is within one     *)
(*               pixel of t: 1/2 rounding + 1/2 for odd ny),               *)
(*               RowCoordIndependentOfDiagonal, WholeScanInFrame,          *)
(*               XiZeroCharacterised (the interpolation grid xi of iradon  *)
(*               with zero-padded shifts is increasing iff |shift| < 1;    *)
(*               rec.ximono is emitted: where it is FALSE np.interp is     *)
(*               outside its contract and ROI independence is not implied),*)
(*               XiEdgeIncreasing (edge-padded shifts: always increasing), *)
(*               FitInverts (fit_sine_wave / sx_sy_y0_from_dty_omega: the  *)
(*               in-beam dty at three distinct angles determines sx, sy,   *)
(*               y0 exactly; rec.fit is what a fit has to return)          *)
(*    emission   EmitRecon prints one record per finished case             *)
(*    repeat     (harness side, the law above for the FBP: a function of   *)
(*               sinogram, angles and options, not of the calls before it):*)
(*               every FBP of a case and every option combination is run   *)
(*               again later in the same process at the same size and must *)
(*               be bit-identical to its first run; the in-beam dty of the *)
(*               other scan description is asked with the SAME omega array *)
(*               rewritten in place                                        *)
(*    covariant  (harness side): the scan written with omega + 360 k, in   *)
(*               decreasing 2 degree steps, with an offset start; the      *)
(*               sinogram dtype (float64 / float32); interpolant and       *)
(*               filter of iradon (the frame laws and PART do not mention  *)
(*               them).  With ystep 1/10 ceil / floor of an exact integer  *)
(*               may fall on the far side in the implementation's floats   *)
(*               (pad + 1, grid one wider each side): the prediction       *)
(*               step + shape // 2 is then taken for the actual shape      *)
(*                                                                         *)
(* 3. PART  (InitPart / NextPart)            bound by recorded jobs        *)
(*    roi_iradon.iradon 190-201: the request `workers` (None / < 1 stand   *)
(*    for cores_available()) becomes a thread pool of POOL workers and the *)
(*    jobs [todo[j::STRIDE] for j in range(POOL)]; the code has            *)
(*    STRIDE = POOL = workers (EffWorkers / PoolOf / StrideOf).            *)
(*    variables  cfg (n angles, w stride, p pool size = number of jobs),   *)
(*               jobs                                                      *)
(*    action     TakeJob: jobs[j] = todo[j::w] while j < p                 *)
(*    invariants JobsDisjointSoFar, JobsWellFormed,                        *)
(*               PartitionCharacterised  for EVERY pair (w, p): the jobs   *)
(*                 are a partition iff min(w, n) <= p and (p <= w or       *)
(*                 n <= w) - a pool capped below the stride is not one,    *)
(*               DroppedCharacterised (which projections such a pool       *)
(*                 loses), CodeLawIsPartition (the pair the code derives   *)
(*                 from any request 0..PMaxW on any number 1..PMaxP of     *)
(*                 usable cpus is a partition), PartitionOK (p = w)        *)
(*    emission   EmitPart: one record per (n, w, p) with jobs, ok, ndrop,  *)
(*               ndup, law (= the code's law can produce the pair)         *)
(*    bounds     n <= PMaxN, w <= PMaxW, p <= PMaxP                        *)
(*    binding    the pool size and the jobs the real iradon hands to its   *)
(*               pool are recorded (a) in this process for every (n, w)    *)
(*               and (b) in child processes whose cpu affinity mask is     *)
(*               restricted to 1, 2, 3 cpus (with and without the          *)
(*               OMP_NUM_THREADS / SLURM_* / NUMBER_OF_PROCESSORS          *)
(*               variables of a batch allocation) for requests 1..16,      *)
(*               None, -1; the recorded pair must be the law's record and  *)
(*               the reconstruction must equal the one-worker one          *)
(***************************************************************************)
EXTENDS ExactLA, Json

CONSTANTS
  Depth,                                    \* length of the emitted walks
  WAng, WCombo, WStart,                    \* walk scope: angles, <<pos/2, y0/2, ystep, shape, dty0/2, ymin/2>>, start frames
  WRepeat,                                 \* TRUE: the walk machine also has set_omega and repeat
  RNy, ROffH, RPosQ, RYstep, RScan, RPadMode, RYminMode,        \* recon scope
  PMaxN, PMaxW, PMaxP                                           \* partition scope: angles, stride (workers), pool size

VARIABLES cfg, frame, pos, dty, phase, dtyi, seen, op, stage, rec, jobs
vars == <<cfg, frame, pos, dty, phase, dtyi, seen, op, stage, rec, jobs>>

Null == <<>>
NoI  == -99999
Frames == {"lab", "sample", "step", "recon"}

\* ---- scopes (selected in the .cfg files with  X <- Name) ----------------------
AngQuick   == { <<0,1,1>>, <<-1,0,1>>, <<3,-4,5>>, <<-7,24,25>> }
\* a walk combo is << P0 in half steps, y0 in half steps, ystep, recon_shape, dty0 in half steps, ymin in half steps >>
ComboQuick == { << <<7,4>>,   -7,  <<1,2>>, <<9,12>>,  5, -13 >>,
                << <<-5,8>>,  20,  <<1,10>>, <<10,7>>, 5, -13 >>,      \* steps that are not binary fractions:
                << <<-6,-3>>,  3,  <<3,1>>, <<9,12>>, -9,   6 >>,      \* no float of the implementation is exact
                << <<9,-2>>, -20,  <<1,1>>, <<10,7>>,  0, -40 >>,
                << <<7,-4>>,  11,  <<3,7>>, <<9,12>>, -9,   6 >> }
ComboRep   == { << <<7,4>>,   -7,  <<1,2>>, <<9,12>>,  5, -13 >>,
                << <<-5,8>>,  20,  <<1,10>>, <<10,7>>, 5, -13 >> }
StartRep   == { "sample", "recon" }         \* start frames of the set_omega / repeat runs (every frame is passed through)
PosFour    == { <<7,4>>, <<-5,8>>, <<-6,-3>>, <<9,-2>> }            \* half steps, one per quadrant
YstepAll   == { <<1,2>>, <<1,1>>, <<3,1>>, <<1,10>> }              \* 1/10: not a binary fraction
YstepQuick == { <<1,2>>, <<3,1>>, <<1,10>> }
ShapeTwo   == { <<9,12>>, <<10,7>> }
ComboThor  == ComboQuick \cup
              { << P, y, s, IF (P[1] + y + s[1]) % 2 = 0 THEN <<9,12>> ELSE <<10,7>>, 5, -13 >> :
                   P \in { <<7,4>>, <<-6,-3>> }, y \in { -7, 20 }, s \in YstepAll }
              \cup { << <<0,5>>, 0, <<1,2>>, <<8,8>>, 0, 6 >>, << <<-4,0>>, -1, <<3,1>>, <<11,11>>, -9, -40 >>,
                     << <<0,0>>, 13, <<1,1>>, <<1,2>>, 5, -13 >> }
\* a spread-out 1/13 sample of the product (simulation enumerates all initial states first)
ComboSim   == { K \in { << P, y, s, sh, d, m >> : P \in PosFour \cup { <<0,5>>, <<-13,14>> },
                                                  y \in { -20, -11, 0, 1, 9 }, s \in YstepAll,
                                                  sh \in ShapeTwo \cup { <<8,8>>, <<11,11>> }, d \in { -9, 5 }, m \in { -13, 6 } } :
                  (7 * K[1][1] + 3 * K[1][2] + 5 * K[2] + K[3][1] + 2 * K[4][1] + K[5] + K[6]) % 13 = 0 }
RPosSet    == { <<0,0>>, <<13,-7>>, <<-22,9>>, <<-10,-31>>, <<5,38>>, <<30,21>>,
                <<60,-35>>, <<-47,50>>, <<-2,-70>>, <<74,1>>, <<-41,-12>>, <<18,18>> }
RNyAll     == { 12, 13, 40, 41 }        \* 12, 13: iradon pads the projections to its floor of 64; disc radius <= 5 steps
RScanAll   == { 180, 360 }
ROffAll    == -20..20
ROffQuick  == { -20, -13, -6, 0, 1, 7, 20 }
RPadModes  == { "own", "pbp", "own3" }
RYminModes == { "sym", "off" }

AngSeq == << <<1,0,1>>, <<0,1,1>>, <<-1,0,1>>, <<0,-1,1>>, <<4,3,5>>, <<3,-4,5>>,
             <<12,5,13>>, <<5,-12,13>>, <<24,7,25>>, <<-7,24,25>> >>
ASSUME { AngSeq[k] : k \in 1..Len(AngSeq) } = Ang
\* the angle an in-place change of omega leads to: the next one of WAng in the order of AngSeq (cyclic)
AngIdx(a)  == CHOOSE k \in 1..Len(AngSeq) : AngSeq[k] = a
AngAt(a, d) == AngSeq[((AngIdx(a) - 1 + d) % Len(AngSeq)) + 1]
NextAng(a) == LET ds == { d \in 1..Len(AngSeq) : AngAt(a, d) \in WAng }
              IN  IF ds = {} THEN a ELSE AngAt(a, CHOOSE d \in ds : \A e \in ds : d <= e)

\* ---- exact rationals ------------------------------------------------------------
QN2(n, d, g) == IF d < 0 THEN << (-n) \div g, (-d) \div g >> ELSE << n \div g, d \div g >>
QN(n, d) == IF d = 1 THEN << n, 1 >> ELSE QN2(n, d, GCD(Abs(n), Abs(d)))
Q(k)       == << k, 1 >>
QAdd(a, b) == QN(a[1]*b[2] + b[1]*a[2], a[2]*b[2])
QSub(a, b) == QN(a[1]*b[2] - b[1]*a[2], a[2]*b[2])
QMul(a, b) == QN(a[1]*b[1], a[2]*b[2])
QDiv(a, b) == QN(a[1]*b[2], a[2]*b[1])
QNeg(a)    == << -a[1], a[2] >>
QAbs(a)    == << Abs(a[1]), a[2] >>
QLe(a, b)  == a[1]*b[2] <= b[1]*a[2]
QLt(a, b)  == a[1]*b[2] <  b[1]*a[2]
QMax(a, b) == IF QLe(a, b) THEN b ELSE a
QMin(a, b) == IF QLe(a, b) THEN a ELSE b
QFloor(a)  == a[1] \div a[2]
QCeil(a)   == -((-a[1]) \div a[2])
QIsInt(a)  == a[2] = 1
QIsHalf(a) == a[2] = 2
\* numpy.round: round half to even
QRoundHalfEven(a) ==
  LET f  == QFloor(a)
      r2 == 2 * (a[1] - f * a[2])
  IN  IF r2 < a[2] THEN f
      ELSE IF r2 > a[2] THEN f + 1
      ELSE IF f % 2 = 0 THEN f ELSE f + 1
QCos(a) == QN(a[1], a[3])
QSin(a) == QN(a[2], a[3])

ASSUME QRoundHalfEven(<<1,2>>) = 0 /\ QRoundHalfEven(<<3,2>>) = 2 /\ QRoundHalfEven(<<-1,2>>) = 0
ASSUME QRoundHalfEven(<<-3,2>>) = -2 /\ QRoundHalfEven(<<5,2>>) = 2 /\ QRoundHalfEven(<<-7,3>>) = -2
ASSUME QFloor(<<-7,2>>) = -4 /\ QCeil(<<-7,2>>) = -3 /\ QCeil(<<7,2>>) = 4 /\ QN(6,-4) = <<-3,2>>

\* ---- geometry.py, transcribed ----------------------------------------------------
\* 85-113
SampleToLabSC(P, y0, dt, sn, cs) ==
  LET sxr == QSub(QMul(P[1], cs), QMul(P[2], sn))
      syr == QAdd(QMul(P[1], sn), QMul(P[2], cs))
  IN  << sxr, QSub(QAdd(syr, dt), y0) >>
\* 116-124 (np.radians, np.sin, np.cos)
SampleToLab(P, y0, dt, a) == SampleToLabSC(P, y0, dt, QSin(a), QCos(a))
\* 127-155
LabToSampleSC(L, y0, dt, sn, cs) ==
  LET sxr == L[1]
      syr == QAdd(QSub(L[2], dt), y0)
  IN  << QAdd(QMul(sxr, cs), QMul(syr, sn)), QAdd(QMul(QNeg(sxr), sn), QMul(syr, cs)) >>
\* 158-166
LabToSample(L, y0, dt, a) == LabToSampleSC(L, y0, dt, QSin(a), QCos(a))
\* 169-180
SampleToStep(P, ys) == << QDiv(P[1], ys), QDiv(QNeg(P[2]), ys) >>
StepToSample(S, ys) == << QMul(S[1], ys), QMul(QNeg(S[2]), ys) >>
\* 183-194
StepToRecon(S, sh)  == << QAdd(S[1], Q(sh[1] \div 2)), QAdd(S[2], Q(sh[2] \div 2)) >>
ReconToStep(R, sh)  == << QSub(R[1], Q(sh[1] \div 2)), QSub(R[2], Q(sh[2] \div 2)) >>
\* 197-236 composites, written as the code writes them
SampleToRecon(P, sh, ys)         == StepToRecon(SampleToStep(P, ys), sh)
ReconToSample(R, sh, ys)         == StepToSample(ReconToStep(R, sh), ys)
LabToStep(L, y0, dt, a, ys)      == SampleToStep(LabToSample(L, y0, dt, a), ys)
StepToLab(S, y0, dt, a, ys)      == SampleToLab(StepToSample(S, ys), y0, dt, a)
LabToRecon(L, y0, dt, a, sh, ys) == StepToRecon(LabToStep(L, y0, dt, a, ys), sh)
ReconToLab(R, y0, dt, a, sh, ys) == StepToLab(ReconToStep(R, sh), y0, dt, a, ys)
\* 239-268
DtyInBeamSC(P, y0, sn, cs) == QSub(QSub(y0, QMul(P[1], sn)), QMul(P[2], cs))
DtyInBeam(P, y0, a)        == DtyInBeamSC(P, y0, QSin(a), QCos(a))
\* 312-332
DtyiArg(dt, ys, ym)  == QDiv(QSub(dt, ym), ys)
DtyToDtyi(dt, ys, ym) == QRoundHalfEven(DtyiArg(dt, ys, ym))
DtyiToDty(i, ys, ym)  == QAdd(QMul(Q(i), ys), ym)
\* 335-376
StepOmegaToDty(S, a, y0, ys)            == DtyInBeam(StepToSample(S, ys), y0, a)
StepOmegaToDtyi(S, a, y0, ys, ym)       == DtyToDtyi(StepOmegaToDty(S, a, y0, ys), ys, ym)
ReconOmegaToDty(R, a, y0, sh, ys)       == DtyInBeam(ReconToSample(R, sh, ys), y0, a)
ReconOmegaToDtyi(R, a, y0, sh, ys, ym)  == DtyToDtyi(ReconOmegaToDty(R, a, y0, sh, ys), ys, ym)
\* 379-438: mask = (dtyi_calc == dtyi); the three variants of dtyi_calc
DCalcSample(P, a, y0, ys, ym)     == DtyToDtyi(DtyInBeam(P, y0, a), ys, ym)
DCalcStep(S, a, y0, ys, ym)       == DCalcSample(StepToSample(S, ys), a, y0, ys, ym)
DCalcRecon(R, a, y0, ys, ym, sh)  == DCalcSample(ReconToSample(R, sh, ys), a, y0, ys, ym)
\* 465-480
Shift(y0, ny, ym, ys)  == QSub(QN(ny, 2), QDiv(QSub(y0, ym), ys))
PadOf(shift)           == QCeil(QMul(QAbs(shift), Q(2))) + 1
\* 483-514  (ints = range(lo, hi + 1, gridstep))
GridLo(ymn, ymx, step, y0) == QFloor(QDiv(QNeg(QMax(QAbs(QSub(ymn, y0)), QAbs(QSub(ymx, y0)))), step))
GridHi(ymn, ymx, step, y0) == QCeil(QDiv(QMax(QAbs(QSub(ymn, y0)), QAbs(QSub(ymx, y0))), step))
GridCount(lo, hi, g) == IF hi < lo THEN 0 ELSE (hi - lo) \div g + 1
GridLast(lo, hi, g)  == lo + (GridCount(lo, hi, g) - 1) * g
\* point_by_point.py 358-368: idx = where(|y0 - x sin - y cos - dty| <= ystep)
\*   in rows of the dty grid: u - 1 <= i <= u + 1 with u = (dty_in_beam - ymin)/ystep
VoxLo(u) == QCeil(QSub(u, Q(1)))
VoxHi(u) == QFloor(QAdd(u, Q(1)))

\* ---- roi_iradon.py, transcribed ---------------------------------------------------
\* 50-60  diagonal = int(ceil(sqrt(2) * o))  (sqrt(2) o is never an integer for o > 0)
Diagonal(o) == CHOOSE d \in o..(2*o) : d*d >= 2*o*o /\ (d-1)*(d-1) < 2*o*o
PadBefore(n, diag) == diag \div 2 - n \div 2
\* 123-125, 154, 166: row r of the sinogram sits at x[r + pad_before] + shift,  x = arange(diag) - diag // 2
RowCoord(r, n, diag, shift) == QAdd(Q(r + PadBefore(n, diag) - diag \div 2), shift)
\* 119-122, 166: xi = x + projection_shifts.T[i]; the shifts of the padding rows are np.pad(..., 'constant', 0),
\* the sinogram rows keep the caller's shift.  np.interp(t, xi, ...) is only defined for increasing xi
\* (otherwise its result depends on the order in which the points t are presented, i.e. on the ROI mask).
XiZero(r, n, diag, shift) ==
  QAdd(Q(r - diag \div 2), IF PadBefore(n, diag) <= r /\ r < PadBefore(n, diag) + n THEN shift ELSE Q(0))
XiZeroIncreasing(n, diag, shift) == \A r \in 0..(diag - 2) : QLt(XiZero(r, n, diag, shift), XiZero(r + 1, n, diag, shift))
\* the repaired padding (np.pad(..., 'edge')) of a constant shift
XiEdge(r, diag, shift) == QAdd(Q(r - diag \div 2), shift)
\* 144-145, 164: pixel (a, b) of the output looks up t = ypr cos - xpr sin
PixelT(R, o, a) == QSub(QMul(QSub(R[2], Q(o \div 2)), QCos(a)), QMul(QSub(R[1], Q(o \div 2)), QSin(a)))
\* 196-198
JobCount(n, j, w) == IF j >= n THEN 0 ELSE (n - 1 - j) \div w + 1
Slice(n, j, w)    == [k \in 1..JobCount(n, j, w) |-> j + (k - 1) * w]

\* ---- independent definitions used by the invariants ---------------------------------
\* the documented frames: lab = Rz(omega) sample + (0, dty - y0); step = (sx, -sy)/ystep;
\* recon = step + shape // 2
RefLab(P, y0, dt, a) ==
  LET v == << P[1][1] * P[2][2], P[2][1] * P[1][2], 0 >>
      w == MV(Rz(a), v)
      d == P[1][2] * P[2][2] * a[3]
  IN  << QN(w[1], d), QAdd(QN(w[2], d), QSub(dt, y0)) >>
RefStep(P, ys)      == << QDiv(P[1], ys), QDiv(QNeg(P[2]), ys) >>
RefRecon(P, ys, sh) == << QAdd(QDiv(P[1], ys), Q(sh[1] \div 2)), QAdd(QDiv(QNeg(P[2]), ys), Q(sh[2] \div 2)) >>
RefPos(f, P, c, dt) == CASE f = "sample" -> P
                         [] f = "lab"    -> RefLab(P, c.y0, dt, c.om)
                         [] f = "step"   -> RefStep(P, c.ystep)
                         [] f = "recon"  -> RefRecon(P, c.ystep, c.shape)

\* =====================================================================================
\* 1. WALK
\* =====================================================================================
ToSample(f, p, dt) ==
  CASE f = "sample" -> p
    [] f = "step"   -> StepToSample(p, cfg.ystep)
    [] f = "recon"  -> ReconToSample(p, cfg.shape, cfg.ystep)
    [] f = "lab"    -> LabToSample(p, cfg.y0, dt, cfg.om)

DCalc(f, p) ==
  CASE f = "sample" -> DCalcSample(p, cfg.om, cfg.y0, cfg.ystep, cfg.ymin)
    [] f = "step"   -> DCalcStep(p, cfg.om, cfg.y0, cfg.ystep, cfg.ymin)
    [] f = "recon"  -> DCalcRecon(p, cfg.om, cfg.y0, cfg.ystep, cfg.ymin, cfg.shape)
    [] f = "lab"    -> NoI
\* u = (dty_in_beam - ymin)/ystep of the current point (code route)
UArg(f, p, dt) == DtyiArg(DtyInBeam(ToSample(f, p, dt), cfg.y0, cfg.om), cfg.ystep, cfg.ymin)
Tie(f, p, dt)  == IF f = "lab" THEN FALSE ELSE QIsHalf(UArg(f, p, dt))

InitWalk ==
  /\ \E a \in WAng, K \in WCombo, f0 \in WStart :
       LET Ph  == K[1]   y0h == K[2]   ys == K[3]   sh == K[4]   dh == K[5]   ymh == K[6]
           hs  == QMul(ys, <<1, 2>>)
           c   == [ om |-> a, y0 |-> QMul(Q(y0h), hs), ystep |-> ys, ymin |-> QMul(Q(ymh), hs),
                    shape |-> sh, P0 |-> << QMul(Q(Ph[1]), hs), QMul(Q(Ph[2]), hs) >>, f0 |-> f0,
                    dty0 |-> QMul(Q(dh), hs) ]
           p0  == RefPos(f0, c.P0, c, c.dty0)
           u0  == DtyiArg(DtyInBeam(c.P0, c.y0, a), c.ystep, c.ymin)
       IN  /\ cfg = c @@ [ start |-> p0, dc |-> QRoundHalfEven(u0), tie |-> QIsHalf(u0),
                              om0 |-> a, dc0 |-> QRoundHalfEven(u0), tie0 |-> QIsHalf(u0) ]   \* om / dc / tie move with set_omega
           /\ frame = f0
           /\ pos = p0
           /\ dty = c.dty0
           /\ seen = [ f \in Frames |-> IF f = f0 THEN p0 ELSE Null ]
  /\ phase = 0 /\ dtyi = NoI /\ op = << >>
  /\ stage = 0 /\ rec = Null /\ jobs = Null

\* c2 = the parameters after the step (cfg, or cfg with another angle); every record of the history carries the
\* angle, dtyi_calc and the tie flag that hold after it
DoC(name, c2, f2, p2, d2, ph2, i2) ==
  /\ Len(op) < Depth
  /\ cfg' = c2
  /\ frame' = f2 /\ pos' = p2 /\ dty' = d2 /\ phase' = ph2 /\ dtyi' = i2
  /\ seen' = LET s1 == IF d2 # dty \/ c2.om # cfg.om THEN [seen EXCEPT !["lab"] = Null] ELSE seen
             IN  [s1 EXCEPT ![f2] = IF s1[f2] = Null THEN p2 ELSE s1[f2]]
  /\ op' = Append(op, [ a |-> name, f |-> f2, p |-> p2, d |-> d2, ph |-> ph2, i |-> i2,
                        om |-> c2.om, dc |-> c2.dc, tie |-> c2.tie ])
  /\ UNCHANGED << stage, rec, jobs >>
Do(name, f2, p2, d2, ph2, i2) == DoC(name, cfg, f2, p2, d2, ph2, i2)

Conv(name, f2, p2) == Do(name, f2, p2, dty, phase, dtyi)

\* -- frame conversions, one action per function
sample_to_lab_sincos == frame = "sample" /\ Conv("sample_to_lab_sincos", "lab",
                           SampleToLabSC(pos, cfg.y0, dty, QSin(cfg.om), QCos(cfg.om)))
sample_to_lab        == frame = "sample" /\ Conv("sample_to_lab", "lab", SampleToLab(pos, cfg.y0, dty, cfg.om))
lab_to_sample_sincos == frame = "lab" /\ Conv("lab_to_sample_sincos", "sample",
                           LabToSampleSC(pos, cfg.y0, dty, QSin(cfg.om), QCos(cfg.om)))
lab_to_sample        == frame = "lab" /\ Conv("lab_to_sample", "sample", LabToSample(pos, cfg.y0, dty, cfg.om))
sample_to_step       == frame = "sample" /\ Conv("sample_to_step", "step", SampleToStep(pos, cfg.ystep))
step_to_sample       == frame = "step" /\ Conv("step_to_sample", "sample", StepToSample(pos, cfg.ystep))
step_to_recon        == frame = "step" /\ Conv("step_to_recon", "recon", StepToRecon(pos, cfg.shape))
recon_to_step        == frame = "recon" /\ Conv("recon_to_step", "step", ReconToStep(pos, cfg.shape))
sample_to_recon      == frame = "sample" /\ Conv("sample_to_recon", "recon", SampleToRecon(pos, cfg.shape, cfg.ystep))
recon_to_sample      == frame = "recon" /\ Conv("recon_to_sample", "sample", ReconToSample(pos, cfg.shape, cfg.ystep))
lab_to_step          == frame = "lab" /\ Conv("lab_to_step", "step", LabToStep(pos, cfg.y0, dty, cfg.om, cfg.ystep))
step_to_lab          == frame = "step" /\ Conv("step_to_lab", "lab", StepToLab(pos, cfg.y0, dty, cfg.om, cfg.ystep))
lab_to_recon         == frame = "lab" /\ Conv("lab_to_recon", "recon",
                           LabToRecon(pos, cfg.y0, dty, cfg.om, cfg.shape, cfg.ystep))
recon_to_lab         == frame = "recon" /\ Conv("recon_to_lab", "lab",
                           ReconToLab(pos, cfg.y0, dty, cfg.om, cfg.shape, cfg.ystep))

\* -- the stage is moved so that the point is in the beam (dty becomes a function of the point)
dty_values_grain_in_beam_sincos ==
  frame = "sample" /\ phase = 0 /\
  Do("dty_values_grain_in_beam_sincos", frame, pos, DtyInBeamSC(pos, cfg.y0, QSin(cfg.om), QCos(cfg.om)), 1, dtyi)
dty_values_grain_in_beam ==
  frame = "sample" /\ phase = 0 /\
  Do("dty_values_grain_in_beam", frame, pos, DtyInBeam(pos, cfg.y0, cfg.om), 1, dtyi)
step_omega_to_dty ==
  frame = "step" /\ phase = 0 /\
  Do("step_omega_to_dty", frame, pos, StepOmegaToDty(pos, cfg.om, cfg.y0, cfg.ystep), 1, dtyi)
recon_omega_to_dty ==
  frame = "recon" /\ phase = 0 /\
  Do("recon_omega_to_dty", frame, pos, ReconOmegaToDty(pos, cfg.om, cfg.y0, cfg.shape, cfg.ystep), 1, dtyi)
\* -- ... and discretised in one call (the functions return only dtyi)
step_omega_to_dtyi ==
  frame = "step" /\ phase = 0 /\
  Do("step_omega_to_dtyi", frame, pos, StepOmegaToDty(pos, cfg.om, cfg.y0, cfg.ystep), 2,
     StepOmegaToDtyi(pos, cfg.om, cfg.y0, cfg.ystep, cfg.ymin))
recon_omega_to_dtyi ==
  frame = "recon" /\ phase = 0 /\
  Do("recon_omega_to_dtyi", frame, pos, ReconOmegaToDty(pos, cfg.om, cfg.y0, cfg.shape, cfg.ystep), 2,
     ReconOmegaToDtyi(pos, cfg.om, cfg.y0, cfg.shape, cfg.ystep, cfg.ymin))
\* -- discretise / undiscretise the stage position
dty_to_dtyi == phase = 1 /\ Do("dty_to_dtyi", frame, pos, dty, 2, DtyToDtyi(dty, cfg.ystep, cfg.ymin))
dtyi_to_dty == phase = 2 /\ frame # "lab" /\
               Do("dtyi_to_dty", frame, pos, DtyiToDty(dtyi, cfg.ystep, cfg.ymin), 3, dtyi)

\* -- the caller changes omega in place (same array object, other contents).  Not in the lab frame (a lab position
\*    belongs to one angle).  The position in the sample / step / recon frame does not depend on the angle; the stage
\*    position keeps its value but is no longer the in-beam one: phase 0.  dtyi_calc is that of the new angle.
LastName == IF Len(op) = 0 THEN "" ELSE op[Len(op)].a
set_omega ==
  /\ WRepeat /\ frame # "lab" /\ LastName # "set_omega"
  /\ LET a2 == NextAng(cfg.om)
         u2 == DtyiArg(DtyInBeam(cfg.P0, cfg.y0, a2), cfg.ystep, cfg.ymin)
     IN  /\ a2 # cfg.om
         /\ DoC("set_omega", [ cfg EXCEPT !.om = a2, !.dc = QRoundHalfEven(u2), !.tie = QIsHalf(u2) ],
                frame, pos, dty, 0, NoI)
\* -- the last function is called again with the argument objects holding the values they held at that call
\*    (restored in place): the result is the same result; the state does not move
repeat ==
  /\ WRepeat /\ Len(op) >= 1 /\ Len(op) < Depth /\ LastName \notin { "set_omega", "repeat" }
  /\ op' = Append(op, [ op[Len(op)] EXCEPT !.a = "repeat" ])
  /\ UNCHANGED << cfg, frame, pos, dty, phase, dtyi, seen, stage, rec, jobs >>

NextWalk ==
  \/ set_omega \/ repeat
  \/ sample_to_lab_sincos \/ sample_to_lab \/ lab_to_sample_sincos \/ lab_to_sample
  \/ sample_to_step \/ step_to_sample \/ step_to_recon \/ recon_to_step
  \/ sample_to_recon \/ recon_to_sample \/ lab_to_step \/ step_to_lab \/ lab_to_recon \/ recon_to_lab
  \/ dty_values_grain_in_beam_sincos \/ dty_values_grain_in_beam \/ step_omega_to_dty \/ recon_omega_to_dty
  \/ step_omega_to_dtyi \/ recon_omega_to_dtyi \/ dty_to_dtyi \/ dtyi_to_dty

SpecWalk == InitWalk /\ [][NextWalk]_vars

\* -- invariants of the walk machine
CycleIdentity == seen[frame] = pos

RefAgree == pos = RefPos(frame, cfg.P0, cfg, dty)

\* closed forms, written without reference to the partial conversions
DirectSampleToRecon(P) == << QAdd(QDiv(P[1], cfg.ystep), Q(cfg.shape[1] \div 2)),
                             QSub(Q(cfg.shape[2] \div 2), QDiv(P[2], cfg.ystep)) >>
DirectReconToSample(R) == << QMul(QSub(R[1], Q(cfg.shape[1] \div 2)), cfg.ystep),
                             QMul(QSub(Q(cfg.shape[2] \div 2), R[2]), cfg.ystep) >>
DirectLabToStep(L) ==
  LET cs == QCos(cfg.om)  sn == QSin(cfg.om)
      yy == QAdd(QSub(L[2], dty), cfg.y0)
  IN  << QDiv(QAdd(QMul(L[1], cs), QMul(yy, sn)), cfg.ystep),
         QDiv(QSub(QMul(L[1], sn), QMul(yy, cs)), cfg.ystep) >>
DirectStepToLab(S) ==
  LET cs == QCos(cfg.om)  sn == QSin(cfg.om)
      x  == QMul(S[1], cfg.ystep)
      y  == QNeg(QMul(S[2], cfg.ystep))
  IN  << QSub(QMul(x, cs), QMul(y, sn)), QSub(QAdd(QAdd(QMul(x, sn), QMul(y, cs)), dty), cfg.y0) >>
Half(k) == Q(cfg.shape[k] \div 2)
CompositesEqualCompositions ==
  /\ frame = "sample" => SampleToRecon(pos, cfg.shape, cfg.ystep) = DirectSampleToRecon(pos)
  /\ frame = "recon"  => /\ ReconToSample(pos, cfg.shape, cfg.ystep) = DirectReconToSample(pos)
                         /\ ReconToLab(pos, cfg.y0, dty, cfg.om, cfg.shape, cfg.ystep)
                              = DirectStepToLab(<< QSub(pos[1], Half(1)), QSub(pos[2], Half(2)) >>)
  /\ frame = "lab"    => /\ LabToStep(pos, cfg.y0, dty, cfg.om, cfg.ystep) = DirectLabToStep(pos)
                         /\ LabToRecon(pos, cfg.y0, dty, cfg.om, cfg.shape, cfg.ystep)
                              = << QAdd(DirectLabToStep(pos)[1], Half(1)), QAdd(DirectLabToStep(pos)[2], Half(2)) >>
  /\ frame = "step"   => StepToLab(pos, cfg.y0, dty, cfg.om, cfg.ystep) = DirectStepToLab(pos)

\* lab y of the point under the current stage position, through the code's own conversions
LabY == SampleToLabSC(ToSample(frame, pos, dty), cfg.y0, dty, QSin(cfg.om), QCos(cfg.om))[2]
InBeamZero   == phase \in {1, 2} => LabY = Q(0)
SnapResidual == phase = 3 => QLe(QAbs(LabY), QMul(cfg.ystep, <<1, 2>>))
MaskAgree    == /\ frame # "lab" => (DCalc(frame, pos) = cfg.dc /\ Tie(frame, pos, dty) = cfg.tie)
                /\ phase >= 2 => dtyi = cfg.dc
RoundTripI   == phase = 3 => DtyToDtyi(dty, cfg.ystep, cfg.ymin) = dtyi
VoxelHasRow  == frame # "lab" =>
                  LET u == UArg(frame, pos, dty)
                      r == QRoundHalfEven(u)
                  IN  VoxLo(u) <= r /\ r <= VoxHi(u) /\ VoxHi(u) - VoxLo(u) \in {1, 2}
\* THE REPEAT LAW.  Execution k of the history: its function (a repeat stands for the function before it), the
\* values its arguments held (the state before it; for a repeat the state before the repeated call) and its result.
OpName(k)   == IF op[k].a = "repeat" THEN op[k-1].a ELSE op[k].a
OpBeforeK(k) == IF k = 1 THEN [ f |-> cfg.f0, p |-> cfg.start, d |-> cfg.dty0, i |-> NoI, om |-> cfg.om0 ]
                ELSE [ f |-> op[k-1].f, p |-> op[k-1].p, d |-> op[k-1].d, i |-> op[k-1].i, om |-> op[k-1].om ]
OpArgs(k)   == IF op[k].a = "repeat" THEN OpBeforeK(k-1) ELSE OpBeforeK(k)
OpResult(k) == << op[k].f, op[k].p, op[k].d, op[k].i, op[k].om >>
FunctionOfCurrentValues ==
  \A j, k \in 1..Len(op) : (j < k /\ OpName(j) = OpName(k) /\ OpArgs(j) = OpArgs(k)) => OpResult(k) = OpResult(j)
\* a repeat is never the first record and never follows a set_omega / repeat; the angle of the history changes
\* only at a set_omega
RepeatWellFormed ==
  \A k \in 1..Len(op) :
     /\ (op[k].a = "repeat") => (k > 1 /\ op[k-1].a \notin { "repeat", "set_omega" })
     /\ (op[k].a # "set_omega") => (op[k].om = OpBeforeK(k).om)
     /\ (op[k].a = "set_omega") => (op[k].om # OpBeforeK(k).om /\ op[k].p = OpBeforeK(k).p /\ op[k].ph = 0)
TypeWalk == frame \in Frames /\ phase \in 0..3 /\ Len(op) <= Depth /\ pos[1][2] > 0 /\ pos[2][2] > 0

EmitWalk ==
  Len(op) = Depth => PrintT("@@" \o ToJson([ cfg |-> cfg, op  |-> op ]))

\* =====================================================================================
\* 2. RECON  (case oracle for the filtered back-projection)
\* =====================================================================================

\* geometry.py 278-309  fit_sine_wave / sx_sy_y0_from_dty_omega: the inverse of dty_values_grain_in_beam.
\* dty = y0 - sx sin(om) - sy cos(om) is linear in (sx, sy, y0): three projections at distinct angles
\* determine the point and the axis exactly (Cramer's rule on n dty = -s sx - c sy + n y0).
FitRow(a)  == << -a[2], -a[1], a[3] >>
FitMat(t)  == << FitRow(AngSeq[t[1]]), FitRow(AngSeq[t[2]]), FitRow(AngSeq[t[3]]) >>
FitSolve(t, d) ==
  LET m == FitMat(t)
      A == Adj(m)
      b == [ k \in 1..3 |-> QMul(Q(AngSeq[t[k]][3]), d[k]) ]
  IN  [ i \in 1..3 |-> QDiv(QAdd(QAdd(QMul(Q(A[i][1]), b[1]), QMul(Q(A[i][2]), b[2])), QMul(Q(A[i][3]), b[3])), Q(Det(m))) ]
FitTriples == { <<1,2,5>>, <<3,6,9>>, <<4,7,10>>, <<5,7,9>> }        \* the last one: three angles within 21 degrees
ASSUME \A i, j, k \in 1..Len(AngSeq) : (i < j /\ j < k) => Det(FitMat(<<i, j, k>>)) # 0

InitRecon ==
  /\ \E ny \in RNy, oh \in ROffH, Pq \in RPosQ, ys \in RYstep, sc \in RScan, pm \in RPadMode, ym \in RYminMode :
       LET qs   == QMul(ys, <<1, 4>>)                     \* quarter step
           ymn  == QAdd(QMul(Q(-2 * (ny - 1)), qs), IF ym = "off" THEN QMul(Q(1337), qs) ELSE Q(0))
           ymx  == QAdd(ymn, QMul(Q(ny - 1), ys))
           y0   == QAdd(QAdd(ymn, QMul(Q(2 * (ny - 1)), qs)), QMul(Q(2 * oh), qs))
           Rq   == 2 * (ny - 1) - 2 * Abs(oh) - 2         \* disc radius in quarter steps, ystep/2 margin
       IN  /\ Rq >= 0
           /\ Pq[1]*Pq[1] + Pq[2]*Pq[2] <= Rq * Rq
           /\ cfg = [ sx |-> QMul(Q(Pq[1]), qs), sy |-> QMul(Q(Pq[2]), qs), y0 |-> y0, ystep |-> ys,
                      ymin |-> ymn, ymax |-> ymx, ny |-> ny, scan |-> sc, padmode |-> pm,
                      offh |-> oh, pq |-> Pq, yminmode |-> ym ]
  /\ stage = 0
  /\ rec = [ shift |-> Q(0), ownpad |-> 0, glo |-> 0, ghi |-> 0, gridn |-> 0, pbppad |-> 0,
             pad |-> 0, outsize |-> 0, diag |-> 0, ximono |-> TRUE, pred |-> << Q(0), Q(0) >>, ang |-> << >>, grids |-> << >>,
             fit |-> << >> ]
  /\ frame = "sample" /\ pos = Null /\ dty = Q(0) /\ phase = 0 /\ dtyi = NoI /\ seen = Null /\ op = << >>
  /\ jobs = Null

RUnch == UNCHANGED << cfg, frame, pos, dty, phase, dtyi, seen, op, jobs >>

\* geometry.sino_shift_and_pad(y0, ny, ymin, ystep)
ShiftAndPad ==
  /\ stage = 0 /\ stage' = 1
  /\ LET sh == Shift(cfg.y0, cfg.ny, cfg.ymin, cfg.ystep)
     IN  rec' = [ rec EXCEPT !.shift = sh, !.ownpad = PadOf(sh) ]
  /\ RUnch
\* geometry.step_grid_from_ybincens(ybincens, ystep, gridstep, y0); PBPRefine.setmap / setmask
StepGrid ==
  /\ stage = 1 /\ stage' = 2
  /\ LET lo == GridLo(cfg.ymin, cfg.ymax, cfg.ystep, cfg.y0)
         hi == GridHi(cfg.ymin, cfg.ymax, cfg.ystep, cfg.y0)
     IN  rec' = [ rec EXCEPT !.glo = lo, !.ghi = hi, !.gridn = GridCount(lo, hi, 1),
                             !.pbppad = GridCount(lo, hi, 1) - cfg.ny,
                             !.grids = [ g \in 1..3 |-> << g, lo, GridLast(lo, hi, g), GridCount(lo, hi, g) >> ] ]
  /\ RUnch
\* the pad handed to run_iradon by the consumer
ChoosePad ==
  /\ stage = 2 /\ stage' = 3
  /\ LET p == CASE cfg.padmode = "own"  -> rec.ownpad
                [] cfg.padmode = "own3" -> rec.ownpad + 3
                [] cfg.padmode = "pbp"  -> rec.pbppad
         d == Diagonal(cfg.ny + p)
     IN  rec' = [ rec EXCEPT !.pad = p, !.outsize = cfg.ny + p, !.diag = d,
                             !.ximono = XiZeroIncreasing(cfg.ny, d, rec.shift) ]
  /\ RUnch
\* geometry.sample_to_recon on the shape of the reconstruction; per-angle sinogram rows
Predict ==
  /\ stage = 3 /\ stage' = 4
  /\ LET o == rec.outsize
         P == << cfg.sx, cfg.sy >>
     IN  rec' = [ rec EXCEPT
                  !.pred = SampleToRecon(P, << o, o >>, cfg.ystep),
                  !.ang  = [ k \in 1..Len(AngSeq) |->
                               LET a   == AngSeq[k]
                                   dib == DtyInBeam(P, cfg.y0, a)
                                   u   == DtyiArg(dib, cfg.ystep, cfg.ymin)
                               IN  [ a |-> a, dib |-> dib, row |-> QRoundHalfEven(u), tie |-> QIsHalf(u),
                                     vlo |-> VoxLo(u), vhi |-> VoxHi(u), vtie |-> QIsInt(u) ] ],
                  \* what a fit of (sx, sy, y0) to the in-beam dty of the point has to return
                  !.fit  = FitSolve(<<5,7,9>>, [ k \in 1..3 |-> DtyInBeam(P, cfg.y0, AngSeq[<<5,7,9>>[k]]) ]) ]
  /\ RUnch

NextRecon == ShiftAndPad \/ StepGrid \/ ChoosePad \/ Predict
SpecRecon == InitRecon /\ [][NextRecon]_vars

PadNonNegative == stage >= 2 => (rec.ownpad >= 1 /\ rec.pbppad >= 0 /\ rec.gridn % 2 = 1 /\ rec.glo = -rec.ghi)
\* the gridstep = 1 grid reaches every scanned dty (relative to y0, in steps)
GridCoversScan ==
  stage >= 2 => /\ QLe(Q(rec.glo), QDiv(QSub(cfg.ymin, cfg.y0), cfg.ystep))
                /\ QLe(QDiv(QSub(cfg.ymax, cfg.y0), cfg.ystep), Q(rec.ghi))
PredictedInFrame ==
  stage = 4 => /\ QLe(Q(0), rec.pred[1]) /\ QLe(rec.pred[1], Q(rec.outsize - 1))
               /\ QLe(Q(0), rec.pred[2]) /\ QLe(rec.pred[2], Q(rec.outsize - 1))
\* the pixel the geometry predicts is looked up by iradon at t = (dty_in_beam - y0)/ystep, every angle
IradonAgreesWithGeometry ==
  stage = 4 => \A k \in 1..Len(AngSeq) :
                 PixelT(rec.pred, rec.outsize, AngSeq[k]) = QDiv(QSub(rec.ang[k].dib, cfg.y0), cfg.ystep)
\* the sinogram row the point is put in is in range and at most one pixel from that t
RowWithinOne ==
  stage = 4 => \A k \in 1..Len(AngSeq) :
                 LET r == rec.ang[k].row
                     t == QDiv(QSub(rec.ang[k].dib, cfg.y0), cfg.ystep)
                     e == QAbs(QSub(RowCoord(r, cfg.ny, rec.diag, rec.shift), t))
                 IN  /\ 0 <= r /\ r <= cfg.ny - 1
                     /\ QLe(e, IF cfg.ny % 2 = 0 THEN <<1, 2>> ELSE Q(1))
                     /\ rec.ang[k].vlo <= r /\ r <= rec.ang[k].vhi
RowCoordIndependentOfDiagonal ==
  stage >= 3 => /\ rec.diag >= cfg.ny
                /\ \A r \in {0, cfg.ny - 1} :
                  RowCoord(r, cfg.ny, rec.diag, rec.shift) = QAdd(Q(r - cfg.ny \div 2), rec.shift)
\* "the minimum pad to get the whole sample in the frame": both ends of the scan back-project inside
WholeScanInFrame ==
  (stage >= 3 /\ cfg.padmode # "pbp") =>
     \A r \in {0, cfg.ny - 1} : QLe(QAbs(RowCoord(r, cfg.ny, rec.diag, rec.shift)), Q(rec.outsize \div 2))
\* zero-padded shifts keep the interpolation grid increasing exactly when |shift| < 1 ...
XiZeroCharacterised == stage >= 3 => (rec.ximono <=> QLt(QAbs(rec.shift), Q(1)))
\* ... edge-padded shifts always do
XiEdgeIncreasing ==
  stage >= 3 => \A r \in 0..(rec.diag - 2) : QLt(XiEdge(r, rec.diag, rec.shift), XiEdge(r + 1, rec.diag, rec.shift))
\* the in-beam dty at any three distinct angles gives back the point and the rotation axis
FitInverts ==
  stage = 4 => /\ rec.fit = << cfg.sx, cfg.sy, cfg.y0 >>
               /\ \A t \in FitTriples :
                    FitSolve(t, [ k \in 1..3 |-> rec.ang[t[k]].dib ]) = << cfg.sx, cfg.sy, cfg.y0 >>
TypeRecon == stage \in 0..4

EmitRecon == stage = 4 => PrintT("@@" \o ToJson([ cfg |-> cfg, rec |-> rec ]))

\* =====================================================================================
\* 3. PART  (roi_iradon.iradon 190-201)
\*      if workers is None or workers < 1: workers = cores_available()
\*      ThreadPoolExecutor(max_workers = POOL) ; jobs = [ todo[j::STRIDE] for j in range(POOL) ]
\*    The code has STRIDE = POOL = workers.  The machine keeps the two apart (cfg.w = stride,
\*    cfg.p = pool size = number of jobs) and explores every pair, because the pool size is what a
\*    resource cap (cpu affinity, OMP_NUM_THREADS, a batch allocation) would change: the partition
\*    law is stated for every pair, the code's law is one line through the table.
\* =====================================================================================
\* the worker count the code works with for a request (0 stands for None / < 1) on `cores` usable cpus
EffWorkers(req, cores) == IF req < 1 THEN cores ELSE req
\* pool size and stride the code derives from it (roi_iradon.py 197-199)
PoolOf(req, cores)   == EffWorkers(req, cores)
StrideOf(req, cores) == EffWorkers(req, cores)

InitPart ==
  /\ \E n \in 1..PMaxN, w \in 1..PMaxW, p \in 1..PMaxP : cfg = [ n |-> n, w |-> w, p |-> p ]
  /\ jobs = << >>
  /\ stage = 0 /\ rec = Null
  /\ frame = "sample" /\ pos = Null /\ dty = Q(0) /\ phase = 0 /\ dtyi = NoI /\ seen = Null /\ op = << >>

TakeJob ==
  /\ Len(jobs) < cfg.p
  /\ jobs' = Append(jobs, Slice(cfg.n, Len(jobs), cfg.w))
  /\ UNCHANGED << cfg, frame, pos, dty, phase, dtyi, seen, op, stage, rec >>

NextPart == TakeJob
SpecPart == InitPart /\ [][NextPart]_vars

PMin(a, b) == IF a <= b THEN a ELSE b
\* the jobs that contain projection i (a job is increasing - JobsWellFormed - so it holds i at most once)
Owners(i) == { j \in 1..Len(jobs) : \E k \in 1..Len(jobs[j]) : jobs[j][k] = i }
Dropped    == { i \in 0..(cfg.n - 1) : Owners(i) = {} }
Duplicated == { i \in 0..(cfg.n - 1) : Cardinality(Owners(i)) > 1 }
IsPartition == Dropped = {} /\ Duplicated = {}
PartDone == Len(jobs) = cfg.p
\* jobs taken from distinct residues never overlap; a pool larger than the stride takes a residue twice
JobsDisjointSoFar == (Len(jobs) <= cfg.w \/ cfg.n <= cfg.w) => Duplicated = {}
JobsWellFormed ==
  \A j \in 1..Len(jobs) : \A k \in 1..Len(jobs[j]) :
     /\ jobs[j][k] \in 0..(cfg.n - 1)
     /\ jobs[j][k] % cfg.w = (j - 1) % cfg.w
     /\ k > 1 => jobs[j][k-1] < jobs[j][k]
\* THE PARTITION LAW, every (stride, pool) pair: todo[j::w], j < p, is a partition of the n projections
\* exactly when every non-empty residue class is taken (p >= min(w, n)) and none is taken twice
PartitionCharacterised ==
  PartDone => ( IsPartition <=> ( PMin(cfg.w, cfg.n) <= cfg.p /\ (cfg.p <= cfg.w \/ cfg.n <= cfg.w) ) )
\* what a pool smaller than the stride loses: exactly the projections in the residue classes >= p
DroppedCharacterised ==
  PartDone => Dropped = { i \in 0..(cfg.n - 1) : i % cfg.w >= cfg.p }
\* the pair the code produces for a request, on any number of usable cpus, is a partition
CodeLawIsPartition ==
  PartDone => \A req \in 0..PMaxW, cores \in 1..PMaxP :
                (StrideOf(req, cores) = cfg.w /\ PoolOf(req, cores) = cfg.p) => IsPartition
PartitionOK == (PartDone /\ cfg.p = cfg.w) => IsPartition
TypePart == cfg.n \in 1..PMaxN /\ cfg.w \in 1..PMaxW /\ cfg.p \in 1..PMaxP /\ Len(jobs) <= cfg.p
EmitPart ==
  PartDone => PrintT("@@" \o ToJson([ n |-> cfg.n, w |-> cfg.w, p |-> cfg.p, jobs |-> jobs, ok |-> IsPartition,
                                      ndrop |-> Cardinality(Dropped), ndup |-> Cardinality(Duplicated),
                                      law |-> (\E req \in 0..PMaxW, cores \in 1..PMaxP :
                                                  StrideOf(req, cores) = cfg.w /\ PoolOf(req, cores) = cfg.p) ]))
=============================================================================
InitPart ==
  /\ \E n \in 1..PMaxN, w \in 1..PMaxW : cfg = [ n |-> n, w |-> w ]
  /\ jobs = << >>
  /\ stage = 0 /\ rec = Null
  /\ frame = "sample" /\ pos = Null /\ dty = Q(0) /\ phase = 0 /\ dtyi = NoI /\ seen = Null /\ op = << >>

TakeJob ==
  /\ Len(jobs) < cfg.w
  /\ jobs' = Append(jobs, Slice(cfg.n, Len(jobs), cfg.w))
  /\ UNCHANGED << cfg, frame, pos, dty, phase, dtyi, seen, op, stage, rec >>

NextPart == TakeJob
SpecPart == InitPart /\ [][NextPart]_vars

Owners(i) == { << j, k >> \in { << j, k >> \in (1..Len(jobs)) \X (1..cfg.n) : k <= Len(jobs[j]) } : jobs[j][k] = i }
JobsDisjointSoFar == \A i \in 0..(cfg.n - 1) : Cardinality(Owners(i)) <= 1
PartitionOK ==
  Len(jobs) = cfg.w =>
    /\ \A i \in 0..(cfg.n - 1) : Cardinality(Owners(i)) = 1
    /\ \A j \in 1..Len(jobs) : \A k \in 1..Len(jobs[j]) :
          /\ jobs[j][k] \in 0..(cfg.n - 1)
          /\ k > 1 => jobs[j][k-1] < jobs[j][k]
EmitPart == Len(jobs) = cfg.w => PrintT("@@" \o ToJson([ n |-> cfg.n, w |-> cfg.w, jobs |-> jobs ]))
=============================================================================

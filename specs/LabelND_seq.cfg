\* one thread, program order (Static): every edge list over <= 4 nodes with <= 3 positions;
\* SeqExact ties the operator SeqSweep to the stepwise model; emits one record per instance (5278)
SPECIFICATION Spec
CONSTANTS
  NSet = {1,2,3,4}
  ESet = {0,1,2,3}
  Threads = {t1}
  Static = TRUE
  OrdSet = {0}
  History = TRUE
  DoEmit = TRUE
  Bug = "none"
  Hist = 0
  DsHist = 0
  DsOps = {}
  NMon = 0
  Neg = TRUE
  Shape = "any"
INVARIANT TypeOK
INVARIANT InComp
INVARIANT MinFixed
INVARIANT LocalsOK
INVARIANT ZeroAgree
INVARIANT Fixpoint
INVARIANT FixReadsRoot
INVARIANT CleanOK
INVARIANT MergeOK
INVARIANT SweepLegal
INVARIANT SeqExact
INVARIANT EmitInv
CHECK_DEADLOCK FALSE

\* thorough: table family, all operations, one group, depth 4, every state emitted and replayed
SPECIFICATION Spec
CONSTANTS
  Family = "table"
  Paths = {"p1", "p2"}
  Groups = {"peaks"}
  SeedTuples <- SeedsTabQ
  OpNames = {"WriteText", "ReadText", "WriteHdf", "WriteHdfObj", "ReadHdf", "ReadAuto", "ReadMmap", "DropRow", "ConvHdf"}
  MaxDepth = 4
  EmitOn = TRUE
INVARIANT TypeOK
INVARIANT InvFixed
INVARIANT InvAsIs
INVARIANT Emit
VIEW View
CHECK_DEADLOCK FALSE

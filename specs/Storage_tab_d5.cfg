\* thorough: table family, core operations, one group, depth 5, invariants only
SPECIFICATION Spec
CONSTANTS
  Family = "table"
  Paths = {"p1", "p2"}
  Groups = {"peaks"}
  SeedTuples <- SeedsTabQ
  OpNames = {"WriteText", "ReadText", "WriteHdf", "ReadHdf", "DropRow"}
  MaxDepth = 5
  EmitOn = FALSE
INVARIANT TypeOK
INVARIANT InvFixed
INVARIANT InvAsIs
VIEW View
CHECK_DEADLOCK FALSE

\* pinned tree: every transition to depth 2 is emitted and replayed; laws not tied to a BUG_ flag are invariants
SPECIFICATION Spec
CONSTANTS
  MaxDepth = 2
  DsNames = {"R180", "M360", "M72", "E360", "ZIG", "IRR", "RPT", "F2D", "BADS"}
  StartForms = {"fresh", "imported", "saved", "cached", "sparse"}
  EmitMode = 1
  BUG_SINOHIST = TRUE
  BUG_LOAD360 = TRUE
  BUG_YSTEP = TRUE
  BUG_BADSCAN = TRUE
  BUG_SAVEDEF = TRUE
  BUG_SAVESHAPE = TRUE
  BUG_STALEBINS = TRUE
  BUG_COMPARE = TRUE
INVARIANT TypeOK
INVARIANT RoundTripPinned
INVARIANT CacheNoMix
PROPERTY PathsKept
PROPERTY MonitorResets
PROPERTY DiskFrame
PROPERTY WellFormedAfter
ACTION_CONSTRAINT EmitTransition
VIEW View
CHECK_DEADLOCK FALSE

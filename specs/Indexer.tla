------------------------------- MODULE Indexer -------------------------------
(***************************************************************************)
(* Control state of ImageD11.indexing.indexer: find / scorethem /           *)
(* score_all_pairs, the pass loop of indexing.index / do_index              *)
(* (indexing.py:575-872, 1265-1431) and fight_over_peaks (874-903, what     *)
(* saveindexing runs before it writes; saveubis changes nothing) between    *)
(* pair loops on the same indexer.  The numeric sub-steps                   *)
(* (unitcell.orient, cImageD11.score, score_and_refine, getind) are         *)
(* abstract: a hit <<i,j>> proposes a candidate orientation Cand[i][j]      *)
(* (0 = the pair gives nothing useful), a candidate c has a score           *)
(* (peaks it indexes at the tolerance of the pass) and indexes the peak set *)
(* Idx[c] with fit error Err[c][p] (EMAX = not within the tolerance).  The   *)
(* trace specification binds these to the values logged from real runs      *)
(* (and the harness recomputes those values with its own arithmetic).       *)
(*                                                                         *)
(* variables  ga[p]  grain of each peak (-1 none; scorethem numbers the      *)
(*                   grain it accepts len(scores) + 1, fight_over_peaks     *)
(*                   relabels every peak with the 0-based position of its   *)
(*                   owner: only `> -1` / `= -1` is ever tested),           *)
(*            ubis (accepted <<candidate, pass>>, in order),                *)
(*            drl[p] (indexer.drlv2: the best fit error fight_over_peaks    *)
(*            stored for peak p; it is allocated afresh by every call when  *)
(*            FRESH), saved (fight_over_peaks calls made so far),           *)
(*            hits (the hit list of the current pair, as a set: the order   *)
(*            in which find() produced it is any order, so any element may  *)
(*            be popped next; `top` is the hit being examined),             *)
(*            pairs (ring pairs still to try in this pass),                 *)
(*            cur (ring pair being scored or <<>>), ng (grains accepted in  *)
(*            the current scorethem call), pass (index() / do_index() run   *)
(*            the pair loop once per (minpks, hkl_tol) setting, strict      *)
(*            first; ga / ubis persist), ntried (pairs tried in this pass)  *)
(* actions    Find (hit list from unassigned peaks of the two rings:        *)
(*            ALLHITS = every pair, the cosine_tol < 0 branch; otherwise    *)
(*            ONE partner per ring-1 peak, the closest-angle branch),       *)
(*            PopHit,                                                       *)
(*            PopSkip (a peak already assigned, or i = j), PopLow (score    *)
(*            <= minpks), PopReject (not unique enough), PopAccept,         *)
(*            EndScore (hits exhausted or ng = max_grains), NextPass,       *)
(*            Save (fight_over_peaks / saveindexing between two pair loops, *)
(*            at most NSAVE times: the competing-owner rule of              *)
(*            ScoreAssign.tla - grains presented in order, a peak goes to   *)
(*            the grain whose error is below EMAX and strictly below what   *)
(*            is stored for the peak - folded over the accepted list)       *)
(*            Reset (indexer.reset(), at most NRESET times, between pair    *)
(*            loops: ga, ubis, hits, drl back to what the constructor left, *)
(*            the pair loops start again from the first setting; resets     *)
(*            counts them, snap / alias model the snapshot's ga array and   *)
(*            whether the object's ga IS that array - only the SHARE        *)
(*            variant ever makes it so)                                     *)
(* checked    GaRange, AcceptedScore (score > the minimum in force at       *)
(*            acceptance), GrainCap (ng <= max_grains in one scorethem      *)
(*            call), NoRepeat (a lattice is never accepted twice, also not  *)
(*            in a later pass), OwnPeaksKept (peaks of an accepted grain    *)
(*            keep a grain, also across Save), SaveOK (action property:     *)
(*            after a Save every peak belongs to the accepted grain that    *)
(*            fits it best, the earlier one on ties, or to none when no     *)
(*            accepted grain indexes it - stated by brute force, not by     *)
(*            the fold), ResetOK (action property: after a Reset no peak    *)
(*            has a grain and no orientation is held), Settles (liveness:   *)
(*            after the last reset the search runs to its end and stays     *)
(*            there; Completeness then says every grain is found AGAIN),    *)
(*            PairCap (n = NCAP stops the pair loop after                   *)
(*            NCAP + 1 pairs), Termination (liveness, under WF: every ring  *)
(*            pair of every pass is tried and the run ends), Completeness   *)
(*            (at the end every TRUE candidate that scores above the        *)
(*            minimum of some pass and has a hit on a permitted ring pair   *)
(*            that only it explains is accepted) on the ideal instance when *)
(*            the pair loop is not cut short                                *)
(* bounds     8 peaks, 2 rings, 5 candidates, <= 2 passes; cfgs: _q / _t    *)
(*            (closest, one pass), _2p (strict then loose), _all (ALLHITS), *)
(*            _r1 (rings_to_use = {1}), _cap (n = 1), _noisy / _noisy_t,    *)
(*            _save (two passes with the minima 0 and 1 so that the         *)
(*            spurious candidate is accepted and competes for peaks,        *)
(*            NSAVE = 2: every placement of two saves between the ring      *)
(*            pairs of the history; gas, the peaks per grain, is a          *)
(*            function of ga and is checked on the real runs by             *)
(*            TraceIndexer), _save_stale (FRESH = FALSE: the stored         *)
(*            errors survive a call; EXPECTED to violate NoRepeat: the      *)
(*            second Save strips the old grains of their peaks and the      *)
(*            next pair loop accepts them again)                            *)
(*            _reset (NRESET = 2, one save: reset() anywhere between ring   *)
(*            pairs, twice; ResetOK, Settles, and Completeness / NoRepeat   *)
(*            on what the last search holds), _reset_shared (SHARE = TRUE:  *)
(*            reset() hands out the snapshot's own ga array, which          *)
(*            PopAccept then writes; EXPECTED to violate Completeness:      *)
(*            after the second reset every peak still has a grain and the   *)
(*            search finds nothing)                                         *)
(***************************************************************************)
EXTENDS Integers, Sequences, FiniteSets, TLC

CONSTANTS NOISY,       \* FALSE: ideal instance (Completeness asserted); TRUE: adds a spurious high-score candidate
          PAIRS,       \* the ring pairs score_all_pairs will try (cfg: PAIRS <- PAIRS_all / PAIRS_cross / PAIRS_r1)
          NP,          \* peaks 1..NP
          NR,          \* rings 1..NR
          NC,          \* candidates 1..NC
          MINPKS, MAXGRAINS,
          UNIQ_NUM, UNIQ_DEN,    \* uniqueness threshold as a fraction
          NPASS,       \* 1, or 2: a strict pass (scores ScoreStrict, minimum MINPKS) then a loose one (Score, MINPKS2)
          MINPKS2,
          NCAP,        \* 0: all pairs; n > 0: score_all_pairs(n = NCAP) (the loop breaks once k > n)
          ALLHITS,     \* TRUE: find offers every pair (cosine_tol < 0); FALSE: one partner per first peak
          NSAVE,       \* fight_over_peaks / saveindexing calls the user may make between pair loops
          FRESH,       \* TRUE: fight_over_peaks allocates drlv2 on every call (indexing.py:879); FALSE: it is kept
          NRESET,      \* reset() calls the user may make between pair loops (indexing.py:400-409)
          SHARE        \* FALSE: reset() hands out a deep copy of the constructor's snapshot; TRUE: the snapshot's own ga array

Peaks == 1..NP
\* ---- the abstract instance (defined here because cfg files cannot hold functions) --------------
\* ring of each peak, candidate proposed by a pair, score and indexed set of each candidate, truth
Ring == <<1, 2, 1, 2, 1, 2, 1, 2>>
\* two true grains: A indexes {1,2,5}, B indexes {3,4,6}.  Candidate 3 is A again, reached from another
\* peak pair (a symmetry-equivalent orientation: same lattice, Class 1); candidate 4 is spurious: {1,4}, low score;
\* candidate 5 (NOISY only) comes from the stray peaks 7,8 and also indexes A's peaks: accepted if tried first,
\* rejected as not unique enough once A holds its peaks
Idx == << {1, 2, 5}, {3, 4, 6}, {1, 2, 5}, {1, 4}, {7, 8, 1, 2, 5} >>
Score == << 3, 3, 3, 2, 5 >>
\* at the strict tolerance of a first pass grain B loses a peak: found only in the loose pass
ScoreStrict == << 3, 2, 3, 1, 5 >>
\* fit error of candidate c on peak p (EMAX: p is not within the tolerance of c): the spurious candidate fits peak 1 better
\* than A does and peak 4 worse than B does
EMAX == 9
Err == << <<1, 1, 9, 9, 2, 9, 9, 9>>, <<9, 9, 1, 2, 9, 1, 9, 9>>, <<1, 1, 9, 9, 2, 9, 9, 9>>,
          <<0, 9, 9, 3, 9, 9, 9, 9>>, <<2, 2, 9, 9, 3, 9, 1, 1>> >>
True_ == << TRUE, TRUE, TRUE, FALSE, FALSE >>
Class == << 1, 2, 1, 3, 4 >>
Cand(i, j) == IF {i, j} = {7, 8} THEN (IF NOISY THEN 5 ELSE 0)
              ELSE IF {i, j} \subseteq Idx[1] THEN (IF 5 \in {i, j} THEN 3 ELSE 1)
              ELSE IF {i, j} \subseteq Idx[2] THEN 2
              ELSE IF {i, j} \subseteq Idx[4] THEN 4 ELSE 0
ASSUME NP = 8 /\ NR = 2 /\ NC = 5 /\ NPASS \in 1..2 /\ NCAP \in Nat /\ NSAVE \in Nat /\ FRESH \in BOOLEAN
ASSUME NRESET \in Nat /\ SHARE \in BOOLEAN
ASSUME \A c \in 1..NC : \A p \in 1..NP : (Err[c][p] < EMAX) <=> (p \in Idx[c])

VARIABLES ga, ubis, hits, top, pairs, cur, ng, pass, ntried, drl, saved, resets, snap, alias
rs == <<resets, snap, alias>>
vars == <<ga, ubis, hits, top, pairs, cur, ng, pass, ntried, drl, saved, resets, snap, alias>>

PAIRS_all == {<<r1, r2>> : r1 \in 1..NR, r2 \in 1..NR}
PAIRS_cross == {<<1, 2>>, <<2, 1>>}
PAIRS_r1 == {<<1, 1>>}
AllPairs == PAIRS
MinP(p) == IF p = 1 THEN MINPKS ELSE MINPKS2
ScoreAt(c, p) == IF NPASS = 2 /\ p = 1 THEN ScoreStrict[c] ELSE Score[c]
Init == /\ ga = [p \in Peaks |-> -1]
        /\ ubis = <<>> /\ hits = {} /\ top = <<>>
        /\ pairs = AllPairs /\ cur = <<>> /\ ng = 0 /\ pass = 1 /\ ntried = 0
        /\ drl = [p \in Peaks |-> EMAX] /\ saved = 0
        /\ resets = 0 /\ snap = [p \in Peaks |-> -1] /\ alias = FALSE

\* find(): any order of the hits between unassigned peaks of the two rings
\* the ideal instance uses peaks 1..6 (grains A, B); the noisy one peaks {1,2,5,7,8} (grain A + two strays)
Active == IF NOISY THEN {1, 2, 5, 7, 8} ELSE 1..6
Free(r) == {i \in Active : Ring[i] = r /\ ga[i] = -1}
\* cosine_tol < 0: every pair of unassigned peaks of the two rings may come out (a superset of the matching ones)
HitSetAll(r1, r2) == {Free(r1) \X Free(r2)}
\* cosine_tol > 0: each ring-1 peak gets the ONE ring-2 peak whose angle matches an allowed angle best (any of those
\* that match when several do); a peak without a matching partner gives no hit
Partners(i, r2) == {j \in Free(r2) : j # i /\ Cand(i, j) # 0}
HitSetClosest(r1, r2) ==
   LET I == {i \in Free(r1) : Partners(i, r2) # {}}
   IN {{<<i, f[i]>> : i \in I} : f \in {g \in [I -> Active] : \A i \in I : g[i] \in Partners(i, r2)}}
HitSets(r1, r2) == IF ALLHITS THEN HitSetAll(r1, r2) ELSE HitSetClosest(r1, r2)
Capped == NCAP > 0 /\ ntried > NCAP
Find == /\ cur = <<>> /\ pairs # {} /\ ~Capped
        /\ \E pr \in pairs :
             /\ cur' = pr /\ pairs' = pairs \ {pr}
             /\ \E hs \in HitSets(pr[1], pr[2]) : hits' = hs
        /\ ng' = 0 /\ ntried' = ntried + 1 /\ UNCHANGED <<ga, ubis, top, pass, drl, saved, rs>>

\* diff, i, j = self.hits.pop()
PopHit == /\ cur # <<>> /\ top = <<>> /\ hits # {} /\ ng < MAXGRAINS
          /\ \E h \in hits : top' = h /\ hits' = hits \ {h}
          /\ UNCHANGED <<ga, ubis, pairs, cur, ng, pass, ntried, drl, saved, rs>>
Scoring == cur # <<>> /\ top # <<>>
Top == top
Pop == top' = <<>> /\ UNCHANGED hits
Unassigned(c) == Cardinality({p \in Idx[c] : ga[p] = -1})
UniqueEnough(c) == Unassigned(c) * UNIQ_DEN > UNIQ_NUM * Cardinality(Idx[c])

PopSkip == /\ Scoring /\ (ga[Top[1]] > -1 \/ ga[Top[2]] > -1 \/ Top[1] = Top[2])
           /\ Pop /\ UNCHANGED <<ga, ubis, pairs, cur, ng, pass, ntried, drl, saved, rs>>
Live == Scoring /\ ga[Top[1]] = -1 /\ ga[Top[2]] = -1 /\ Top[1] # Top[2]
PopLow == /\ Live /\ (IF Cand(Top[1], Top[2]) = 0 THEN TRUE ELSE ScoreAt(Cand(Top[1], Top[2]), pass) <= MinP(pass))
          /\ Pop /\ UNCHANGED <<ga, ubis, pairs, cur, ng, pass, ntried, drl, saved, rs>>
PopReject == /\ Live /\ Cand(Top[1], Top[2]) # 0
             /\ LET c == Cand(Top[1], Top[2]) IN ScoreAt(c, pass) > MinP(pass) /\ ~UniqueEnough(c)
             /\ Pop /\ UNCHANGED <<ga, ubis, pairs, cur, ng, pass, ntried, drl, saved, rs>>
PopAccept == /\ Live /\ Cand(Top[1], Top[2]) # 0
             /\ LET c == Cand(Top[1], Top[2])
                IN /\ ScoreAt(c, pass) > MinP(pass) /\ UniqueEnough(c)
                   /\ ga' = [p \in Peaks |-> IF p \in Idx[c] THEN Len(ubis) + 1 ELSE ga[p]]
                   /\ ubis' = Append(ubis, <<c, pass>>)
             /\ snap' = (IF alias THEN ga' ELSE snap)        \* self.ga[ind] = ... writes the array in place
             /\ ng' = ng + 1 /\ Pop /\ UNCHANGED <<pairs, cur, pass, ntried, drl, saved, resets, alias>>
EndScore == /\ cur # <<>> /\ top = <<>> /\ (hits = {} \/ ng >= MAXGRAINS)
            /\ cur' = <<>> /\ hits' = {} /\ UNCHANGED <<ga, ubis, top, pairs, ng, pass, ntried, drl, saved, rs>>
\* index() / do_index(): the next (minpks, hkl_tol) setting on the SAME indexer: ga and ubis are kept
PassDone == cur = <<>> /\ (pairs = {} \/ Capped)
NextPass == /\ PassDone /\ pass < NPASS
            /\ pass' = pass + 1 /\ pairs' = AllPairs /\ ntried' = 0
            /\ UNCHANGED <<ga, ubis, hits, top, cur, ng, drl, saved, rs>>

\* fight_over_peaks (what saveindexing runs first): labels start at -1; the accepted grains are presented in order with the
\* labels 0, 1, ...; score_and_assign hands a peak to the presented grain when its error is within the tolerance AND
\* strictly below the error stored for the peak (ScoreAssign.tla, TakeP); the stored errors start at "none" when the
\* buffer is allocated by the call (FRESH)
RECURSIVE Fight(_, _, _)
Fight(k, lab, d) ==
   IF k > Len(ubis) THEN <<lab, d>>
   ELSE LET c == ubis[k][1]
            take == {p \in Peaks : Err[c][p] < EMAX /\ Err[c][p] < d[p]}
        IN Fight(k + 1, [p \in Peaks |-> IF p \in take THEN k - 1 ELSE lab[p]],
                 [p \in Peaks |-> IF p \in take THEN Err[c][p] ELSE d[p]])
Save == /\ cur = <<>> /\ saved < NSAVE
        /\ LET r == Fight(1, [p \in Peaks |-> -1], IF FRESH THEN [p \in Peaks |-> EMAX] ELSE drl)
           IN ga' = r[1] /\ drl' = r[2]
        /\ saved' = saved + 1
        /\ alias' = FALSE                                    \* self.ga = labels: a new array is bound
        /\ UNCHANGED <<ubis, hits, top, pairs, cur, ng, pass, ntried, resets, snap>>

\* reset(): the object goes back to the state the constructor left (a deep copy of the snapshot taken there): no peak
\* has a grain, no orientation is held, no hit list, no stored errors; the pair loops start again from the first setting.
\* SHARE: the variant that hands the snapshot's own ga array to the object instead of a copy
Reset == /\ cur = <<>> /\ resets < NRESET
         /\ ga' = (IF SHARE THEN snap ELSE [p \in Peaks |-> -1])
         /\ alias' = SHARE
         /\ ubis' = <<>> /\ hits' = {} /\ top' = <<>> /\ ng' = 0
         /\ pass' = 1 /\ pairs' = AllPairs /\ ntried' = 0
         /\ drl' = [p \in Peaks |-> EMAX]
         /\ resets' = resets + 1
         /\ UNCHANGED <<cur, saved, snap>>

Next == Find \/ PopHit \/ PopSkip \/ PopLow \/ PopReject \/ PopAccept \/ EndScore \/ NextPass \/ Save \/ Reset
Spec == Init /\ [][Next]_vars /\ WF_vars(Next)

\* ---- properties --------------------------------------------------------------------------------
\* 1..Len(ubis) from scorethem, 0..Len(ubis)-1 from fight_over_peaks
GaRange == \A p \in Peaks : ga[p] \in -1..Len(ubis)
AcceptedScore == \A k \in 1..Len(ubis) : ScoreAt(ubis[k][1], ubis[k][2]) > MinP(ubis[k][2])
GrainCap == ng <= MAXGRAINS
PairCap == NCAP > 0 => ntried <= NCAP + 1
\* no two accepted orientations describe the same lattice
NoRepeat == \A a, b \in 1..Len(ubis) : a # b => Class[ubis[a][1]] # Class[ubis[b][1]]
\* a later grain may take over peaks, but every peak of an accepted grain stays with some grain
OwnPeaksKept == \A k \in 1..Len(ubis) : \A p \in Idx[ubis[k][1]] : ga[p] > -1
\* the competing-owner rule, by brute force: after fight_over_peaks a peak belongs to the accepted grain that fits it best
\* (the earlier one on a tie), to none iff no accepted grain indexes it
Owners(p) == {k \in 1..Len(ubis) : p \in Idx[ubis[k][1]]}
Best(p) == IF Owners(p) = {} THEN -1
           ELSE (CHOOSE k \in Owners(p) : \A m \in Owners(p) :
                    \/ Err[ubis[k][1]][p] < Err[ubis[m][1]][p]
                    \/ (Err[ubis[k][1]][p] = Err[ubis[m][1]][p] /\ k <= m)) - 1
SaveOK == [][(saved' = saved + 1) => (\A p \in Peaks : ga'[p] = Best(p))]_vars
\* reset(): whatever happened before, afterwards no peak has a grain and no orientation is held (stated on the
\* outcome, not on how the copy is made)
ResetOK == [][(resets' = resets + 1) => (ga' = [p \in Peaks |-> -1] /\ ubis' = <<>> /\ hits' = {})]_vars
Finished == PassDone /\ pass = NPASS
Termination == <>Finished
\* every history settles: once the user's resets are used up the last search runs to its end (and Completeness / NoRepeat
\* are asserted on what it holds then: every grain found again, exactly once)
Settles == <>[]Finished
\* ideal data: a true grain that scores above the minimum of some pass and owns a hit nothing else explains, on a
\* permitted ring pair, is found.  closest mode: some peak of its own has only partners that propose this lattice
Exclusive(c) == {p \in Idx[c] : \A d \in 1..NC : (Class[d] # Class[c] /\ True_[d]) => p \notin Idx[d]}
Findable(c) ==
   IF ALLHITS
   THEN \E i, j \in Exclusive(c) : i # j /\ <<Ring[i], Ring[j]>> \in PAIRS
   ELSE \E i \in Exclusive(c) : \E r2 \in 1..NR :
          /\ <<Ring[i], r2>> \in PAIRS
          /\ {j \in Active : Ring[j] = r2 /\ j # i /\ Cand(i, j) # 0} # {}
          /\ \A j \in Active : (Ring[j] = r2 /\ j # i /\ Cand(i, j) # 0) => Class[Cand(i, j)] = Class[c]
Completeness == (Finished /\ ~NOISY /\ NCAP = 0) =>
   \A c \in 1..NC : (True_[c] /\ (\E p \in 1..NPASS : ScoreAt(c, p) > MinP(p)) /\ Findable(c))
                     => \E k \in 1..Len(ubis) : Class[ubis[k][1]] = Class[c]
=============================================================================

------------------------------- MODULE Indexer -------------------------------
(***************************************************************************)
(* Control state of ImageD11.indexing.indexer: find / scorethem /           *)
(* score_all_pairs (indexing.py:600-872).  The numeric sub-steps            *)
(* (unitcell.orient, cImageD11.score, score_and_refine, getind) are         *)
(* abstract: a hit <<i,j>> proposes a candidate orientation Cand[i][j]      *)
(* (0 = the pair gives nothing useful), a candidate c has a score           *)
(* Score[c] (peaks on rings it indexes) and indexes the peak set Idx[c].    *)
(* The trace specification binds these to the values logged from real runs. *)
(*                                                                         *)
(* variables  ga[p]  grain of each peak (-1 none; accepted grains are       *)
(*                   numbered from 1), ubis (accepted candidates, in order),*)
(*            hits (the hit list of the current pair, as a set: the order   *)
(*            in which find() produced it is any order, so any element may  *)
(*            be popped next; `top` is the hit being examined),             *)
(*            pairs (ring pairs still to try),                              *)
(*            cur (ring pair being scored or <<>>), ng (grains accepted in  *)
(*            the current scorethem call)                                   *)
(* actions    Find (hit list from unassigned peaks of the two rings), PopHit,*)
(*            PopSkip (a peak already assigned, or i = j), PopLow (score    *)
(*            <= minpks), PopReject (not unique enough), PopAccept,         *)
(*            EndScore (hits exhausted or ng = max_grains), NextPair        *)
(* checked    GaRange, AcceptedScore (score > minpks at acceptance),        *)
(*            GrainCap (ng <= max_grains in one scorethem call), NoRepeat   *)
(*            (a candidate is never accepted twice when UNIQ >= 0),         *)
(*            OwnPeaksKept (peaks of an accepted grain keep a grain),       *)
(*            Termination (liveness, under WF: every ring pair is tried     *)
(*            and the run ends), Completeness (at the end every TRUE        *)
(*            candidate that has a hit between two peaks only it indexes    *)
(*            is accepted) on the ideal instance                            *)
(***************************************************************************)
EXTENDS Integers, Sequences, FiniteSets, TLC

CONSTANTS NOISY,       \* FALSE: ideal instance (Completeness asserted); TRUE: adds a spurious high-score candidate
          PAIRS,       \* the ring pairs score_all_pairs will try (cfg: PAIRS <- PAIRS_all / PAIRS_cross)
          NP,          \* peaks 1..NP
          NR,          \* rings 1..NR
          NC,          \* candidates 1..NC
          MINPKS, MAXGRAINS,
          UNIQ_NUM, UNIQ_DEN     \* uniqueness threshold as a fraction

Peaks == 1..NP
\* ---- the abstract instance (defined here because cfg files cannot hold functions) --------------
\* ring of each peak, candidate proposed by a pair, score and indexed set of each candidate, truth
Ring == <<1, 2, 1, 2, 1, 2, 1, 2>>
\* two true grains: A indexes {1,2,5}, B indexes {3,4,6}.  Candidate 3 is A again, reached from another
\* peak pair (a symmetry-equivalent orientation: same lattice, Class 1); candidate 4 is spurious: {1,4}, low score;
\* candidate 5 (NOISY only) comes from the stray peaks 7,8 and also indexes A's peaks: accepted if tried first,
\* rejected as not unique enough once A holds its peaks
Idx == << {1, 2, 5}, {3, 4, 6}, {1, 2, 5}, {1, 4}, {7, 8, 1, 2, 5} >>
Score == << 3, 3, 3, 2, 5 >>
True_ == << TRUE, TRUE, TRUE, FALSE, FALSE >>
Class == << 1, 2, 1, 3, 4 >>
Cand(i, j) == IF {i, j} = {7, 8} THEN (IF NOISY THEN 5 ELSE 0)
              ELSE IF {i, j} \subseteq Idx[1] THEN (IF 5 \in {i, j} THEN 3 ELSE 1)
              ELSE IF {i, j} \subseteq Idx[2] THEN 2
              ELSE IF {i, j} \subseteq Idx[4] THEN 4 ELSE 0
ASSUME NP = 8 /\ NR = 2 /\ NC = 5

VARIABLES ga, ubis, hits, top, pairs, cur, ng
vars == <<ga, ubis, hits, top, pairs, cur, ng>>

PAIRS_all == {<<r1, r2>> : r1 \in 1..NR, r2 \in 1..NR}
PAIRS_cross == {<<1, 2>>, <<2, 1>>}
AllPairs == PAIRS
Init == /\ ga = [p \in Peaks |-> -1]
        /\ ubis = <<>> /\ hits = {} /\ top = <<>>
        /\ pairs = AllPairs /\ cur = <<>> /\ ng = 0

\* find(): any order of the hits between unassigned peaks of the two rings
\* the ideal instance uses peaks 1..6 (grains A, B); the noisy one peaks {1,2,5,7,8} (grain A + two strays)
Active == IF NOISY THEN {1, 2, 5, 7, 8} ELSE 1..6
HitSet(r1, r2) == {<<i, j>> \in Active \X Active : Ring[i] = r1 /\ Ring[j] = r2 /\ ga[i] = -1 /\ ga[j] = -1}
Find == /\ cur = <<>> /\ pairs # {}
        /\ \E pr \in pairs :
             /\ cur' = pr /\ pairs' = pairs \ {pr}
             /\ hits' = HitSet(pr[1], pr[2])
        /\ ng' = 0 /\ UNCHANGED <<ga, ubis, top>>

\* diff, i, j = self.hits.pop()
PopHit == /\ cur # <<>> /\ top = <<>> /\ hits # {} /\ ng < MAXGRAINS
          /\ \E h \in hits : top' = h /\ hits' = hits \ {h}
          /\ UNCHANGED <<ga, ubis, pairs, cur, ng>>
Scoring == cur # <<>> /\ top # <<>>
Top == top
Pop == top' = <<>> /\ UNCHANGED hits
Unassigned(c) == Cardinality({p \in Idx[c] : ga[p] = -1})
UniqueEnough(c) == Unassigned(c) * UNIQ_DEN > UNIQ_NUM * Cardinality(Idx[c])

PopSkip == /\ Scoring /\ (ga[Top[1]] > -1 \/ ga[Top[2]] > -1 \/ Top[1] = Top[2])
           /\ Pop /\ UNCHANGED <<ga, ubis, pairs, cur, ng>>
Live == Scoring /\ ga[Top[1]] = -1 /\ ga[Top[2]] = -1 /\ Top[1] # Top[2]
PopLow == /\ Live /\ (IF Cand(Top[1], Top[2]) = 0 THEN TRUE ELSE Score[Cand(Top[1], Top[2])] <= MINPKS)
          /\ Pop /\ UNCHANGED <<ga, ubis, pairs, cur, ng>>
PopReject == /\ Live /\ Cand(Top[1], Top[2]) # 0
             /\ LET c == Cand(Top[1], Top[2]) IN Score[c] > MINPKS /\ ~UniqueEnough(c)
             /\ Pop /\ UNCHANGED <<ga, ubis, pairs, cur, ng>>
PopAccept == /\ Live /\ Cand(Top[1], Top[2]) # 0
             /\ LET c == Cand(Top[1], Top[2])
                IN /\ Score[c] > MINPKS /\ UniqueEnough(c)
                   /\ ga' = [p \in Peaks |-> IF p \in Idx[c] THEN Len(ubis) + 1 ELSE ga[p]]
                   /\ ubis' = Append(ubis, c)
             /\ ng' = ng + 1 /\ Pop /\ UNCHANGED <<pairs, cur>>
EndScore == /\ cur # <<>> /\ top = <<>> /\ (hits = {} \/ ng >= MAXGRAINS)
            /\ cur' = <<>> /\ hits' = {} /\ UNCHANGED <<ga, ubis, top, pairs, ng>>

Next == Find \/ PopHit \/ PopSkip \/ PopLow \/ PopReject \/ PopAccept \/ EndScore
Spec == Init /\ [][Next]_vars /\ WF_vars(Next)

\* ---- properties --------------------------------------------------------------------------------
GaRange == \A p \in Peaks : ga[p] = -1 \/ ga[p] \in 1..Len(ubis)
AcceptedScore == \A k \in 1..Len(ubis) : Score[ubis[k]] > MINPKS
GrainCap == ng <= MAXGRAINS
\* no two accepted orientations describe the same lattice
NoRepeat == \A a, b \in 1..Len(ubis) : a # b => Class[ubis[a]] # Class[ubis[b]]
\* a later grain may take over peaks, but every peak of an accepted grain stays with some grain
OwnPeaksKept == \A k \in 1..Len(ubis) : \A p \in Idx[ubis[k]] : ga[p] > -1
Finished == pairs = {} /\ cur = <<>>
Termination == <>Finished
\* ideal data: a true grain with a hit made of two peaks that only it indexes is found
Exclusive(c) == {p \in Idx[c] : \A d \in 1..NC : (Class[d] # Class[c] /\ True_[d]) => p \notin Idx[d]}
Completeness == (Finished /\ ~NOISY) =>
   \A c \in 1..NC : (True_[c] /\ Score[c] > MINPKS /\ \E i, j \in Exclusive(c) : i # j /\ Ring[i] # Ring[j])
                     => \E k \in 1..Len(ubis) : Class[ubis[k]] = Class[c]
=============================================================================

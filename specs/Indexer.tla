------------------------------- MODULE Indexer -------------------------------
(***************************************************************************)
(* Control state of ImageD11.indexing.indexer: find / scorethem /           *)
(* score_all_pairs (indexing.py:600-872).  The numeric sub-steps            *)
(* (unitcell.orient, cImageD11.score, score_and_refine, getind) are         *)
(* abstract: a hit <<i,j>> proposes a candidate orientation Cand[i][j]      *)
(* (0 = the pair gives nothing useful), a candidate c has a score           *)
(* Score[c] (peaks on rings it indexes) and indexes the peak set Idx[c].    *)
(* The trace specification binds these to the values logged from real runs. *)
(*                                                                         *)
(* variables  ga[p]  grain of each peak (-1 none; accepted grains are       *)
(*                   numbered from 1), ubis (accepted candidates, in order),*)
(*            hits (stack of <<i,j>>), pairs (ring pairs still to try),     *)
(*            cur (ring pair being scored or <<>>), ng (grains accepted in  *)
(*            the current scorethem call)                                   *)
(* actions    Find (hit list from unassigned peaks of the two rings),       *)
(*            PopSkip (a peak already assigned, or i = j), PopLow (score    *)
(*            <= minpks), PopReject (not unique enough), PopAccept,         *)
(*            EndScore (hits exhausted or ng = max_grains), NextPair        *)
(* checked    GaRange, AcceptedScore (score > minpks at acceptance),        *)
(*            GrainCap (ng <= max_grains in one scorethem call), NoRepeat   *)
(*            (a candidate is never accepted twice when UNIQ >= 0),         *)
(*            OwnPeaksKept (peaks of an accepted grain keep a grain),       *)
(*            Termination (liveness, under WF: every ring pair is tried     *)
(*            and the run ends), Completeness (at the end every TRUE        *)
(*            candidate that has a hit between two peaks only it indexes    *)
(*            is accepted) on the ideal instance                            *)
(***************************************************************************)
EXTENDS Integers, Sequences, FiniteSets, TLC

CONSTANTS NP,          \* peaks 1..NP
          NR,          \* rings 1..NR
          NC,          \* candidates 1..NC
          MINPKS, MAXGRAINS,
          UNIQ_NUM, UNIQ_DEN     \* uniqueness threshold as a fraction

Peaks == 1..NP
\* ---- the abstract instance (defined here because cfg files cannot hold functions) --------------
\* ring of each peak, candidate proposed by a pair, score and indexed set of each candidate, truth
Ring == <<1, 2, 1, 2, 1, 2>>
\* two true grains: A indexes {1,2,5}, B indexes {3,4,6}; a spurious candidate C indexes {1,4}
Idx == << {1, 2, 5}, {3, 4, 6}, {1, 4} >>
Score == << 3, 3, 2 >>
True_ == << TRUE, TRUE, FALSE >>
Cand(i, j) == IF {i, j} \subseteq Idx[1] THEN 1 ELSE IF {i, j} \subseteq Idx[2] THEN 2
              ELSE IF {i, j} \subseteq Idx[3] THEN 3 ELSE 0
ASSUME NP = 6 /\ NR = 2 /\ NC = 3

VARIABLES ga, ubis, hits, pairs, cur, ng
vars == <<ga, ubis, hits, pairs, cur, ng>>

AllPairs == {<<r1, r2>> : r1 \in 1..NR, r2 \in 1..NR}
Init == /\ ga = [p \in Peaks |-> -1]
        /\ ubis = <<>> /\ hits = <<>>
        /\ pairs = AllPairs /\ cur = <<>> /\ ng = 0

\* find(): any order of the hits between unassigned peaks of the two rings
HitSet(r1, r2) == {<<i, j>> \in Peaks \X Peaks : Ring[i] = r1 /\ Ring[j] = r2 /\ ga[i] = -1 /\ ga[j] = -1}
Orderings(S) == {q \in [1..Cardinality(S) -> S] : \A a, b \in 1..Cardinality(S) : a # b => q[a] # q[b]}
Find == /\ cur = <<>> /\ pairs # {}
        /\ \E pr \in pairs :
             /\ cur' = pr /\ pairs' = pairs \ {pr}
             /\ \E q \in Orderings(HitSet(pr[1], pr[2])) : hits' = q
        /\ ng' = 0 /\ UNCHANGED <<ga, ubis>>

Scoring == cur # <<>> /\ Len(hits) > 0 /\ ng < MAXGRAINS
Top == hits[Len(hits)]
Pop == hits' = SubSeq(hits, 1, Len(hits) - 1)
Unassigned(c) == Cardinality({p \in Idx[c] : ga[p] = -1})
UniqueEnough(c) == Unassigned(c) * UNIQ_DEN > UNIQ_NUM * Cardinality(Idx[c])

PopSkip == /\ Scoring /\ (ga[Top[1]] > -1 \/ ga[Top[2]] > -1 \/ Top[1] = Top[2])
           /\ Pop /\ UNCHANGED <<ga, ubis, pairs, cur, ng>>
Live == Scoring /\ ga[Top[1]] = -1 /\ ga[Top[2]] = -1 /\ Top[1] # Top[2]
PopLow == /\ Live /\ (Cand(Top[1], Top[2]) = 0 \/ Score[Cand(Top[1], Top[2])] <= MINPKS)
          /\ Pop /\ UNCHANGED <<ga, ubis, pairs, cur, ng>>
PopReject == /\ Live /\ Cand(Top[1], Top[2]) # 0
             /\ LET c == Cand(Top[1], Top[2]) IN Score[c] > MINPKS /\ ~UniqueEnough(c)
             /\ Pop /\ UNCHANGED <<ga, ubis, pairs, cur, ng>>
PopAccept == /\ Live /\ Cand(Top[1], Top[2]) # 0
             /\ LET c == Cand(Top[1], Top[2])
                IN /\ Score[c] > MINPKS /\ UniqueEnough(c)
                   /\ ga' = [p \in Peaks |-> IF p \in Idx[c] THEN Len(ubis) + 1 ELSE ga[p]]
                   /\ ubis' = Append(ubis, c)
             /\ ng' = ng + 1 /\ Pop /\ UNCHANGED <<pairs, cur>>
EndScore == /\ cur # <<>> /\ (Len(hits) = 0 \/ ng >= MAXGRAINS)
            /\ cur' = <<>> /\ hits' = <<>> /\ UNCHANGED <<ga, ubis, pairs, ng>>

Next == Find \/ PopSkip \/ PopLow \/ PopReject \/ PopAccept \/ EndScore
Spec == Init /\ [][Next]_vars /\ WF_vars(Next)

\* ---- properties --------------------------------------------------------------------------------
GaRange == \A p \in Peaks : ga[p] = -1 \/ ga[p] \in 1..Len(ubis)
AcceptedScore == \A k \in 1..Len(ubis) : Score[ubis[k]] > MINPKS
GrainCap == ng <= MAXGRAINS
NoRepeat == \A a, b \in 1..Len(ubis) : a # b => ubis[a] # ubis[b]
\* a later grain may take over peaks, but every peak of an accepted grain stays with some grain
OwnPeaksKept == \A k \in 1..Len(ubis) : \A p \in Idx[ubis[k]] : ga[p] > -1
Finished == pairs = {} /\ cur = <<>>
Termination == <>Finished
\* ideal data: a true grain with a hit made of two peaks that only it indexes is found
Exclusive(c) == {p \in Idx[c] : \A d \in 1..NC : (d # c /\ True_[d]) => p \notin Idx[d]}
Completeness == Finished =>
   \A c \in 1..NC : (True_[c] /\ Score[c] > MINPKS /\ \E i, j \in Exclusive(c) : i # j /\ Ring[i] # Ring[j])
                     => \E k \in 1..Len(ubis) : ubis[k] = c
=============================================================================

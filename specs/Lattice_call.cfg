SPECIFICATION Spec
CONSTANTS
  PART = "call"
  CELLS <- CELLS_q
  GENS <- GENS_q
  ROTS <- ROTS_id
  MaxDepth = 0
  FORGET = {}
  NOCOPY = {}
  OBJ = "grain"
  ALIASARG = FALSE
  SAMEKEEP = FALSE
  UNWRITTEN = {}
  EmitMode = 0
INVARIANT CallDefined
INVARIANT EmitCall
CHECK_DEADLOCK FALSE

SPECIFICATION Spec
CONSTANTS
  NNZ <- NNZ_223
  SCANS = {11, 12}
  MAXCALLS = 3
  WORKSPACE = "class"
  EmitOn = FALSE
INVARIANT Stand
CHECK_DEADLOCK FALSE

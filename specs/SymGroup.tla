------------------------------- MODULE SymGroup -------------------------------
(***************************************************************************)
(* Lattice symmetry groups of ImageD11 and the orbit reductions built on   *)
(* them (property C16).                                                    *)
(*                                                                         *)
(* Code modelled (ImageD11/sym_u.py of the pinned tree):                   *)
(*   m_from_string      14-23   string -> operator matrix (row i = image   *)
(*                              of basis vector i, i.e. the TRANSPOSE of   *)
(*                              the coefficient table one reads off the    *)
(*                              string)                                    *)
(*   group.__init__     56-62   group = [identity]                         *)
(*   group.op           63-73   op(x, y) = x . y                           *)
(*   group.isMember     79-86                                              *)
(*   group.additem      87-96   append if absent, then makegroup()         *)
(*   group.makegroup    97-114  double loop over the *growing* list; the   *)
(*                              flag `new` holds the status of the LAST    *)
(*                              product only, `while new` repeats the pass *)
(*   symcache / generate_group 116-126   cache keyed by the string tuple   *)
(*   cubic .. triclinic 188-226, getgroup 364-375                          *)
(*   find_uniq_u        229-239 scan over the group list, cand = o . u,    *)
(*                              keep the first STRICT maximum of the trace *)
(*   hklmax/find_uniq_hkls 242-257 same scan per column with the packed    *)
(*                              key (h*1000 + k)*1000 + l, cand = o . hkl  *)
(*                              (mode "h": one column; mode "l": the 3 x n *)
(*                              ARRAY as the code handles it - one pass of *)
(*                              `for o in grp.group` per operator over all *)
(*                              columns at once, msk = t > tmax per column,*)
(*                              np.where keeps / replaces column by column)*)
(*                                                                         *)
(* How the operators act (decides the transposition in the metric law):    *)
(*   find_uniq_u forms op(o, ubi) = o . ubi : the rows of a UBI are the    *)
(*   real-space cell vectors, so o recombines cell vectors, the real-space *)
(*   metric G = ubi . ubi^T becomes o G o^T and hkl = ubi . g becomes      *)
(*   o . hkl  (which is what find_uniq_hkls forms).  "Preserves the metric *)
(*   of a conforming cell" is therefore  o G o^T = G  with G the REAL-space *)
(*   metric; for hexagonal axes this holds for gamma = 120 and fails for   *)
(*   the transposed operators (invariant TransposeMatters).                *)
(*                                                                         *)
(* Variables                                                               *)
(*   calls   history of named-group calls (sequence of names)              *)
(*   cache   symcache: generator-string tuple -> group list                *)
(*   name    group being built / used ; "" when idle                       *)
(*   pc      "idle" "additem" "mult" "closed" "scan" "done"                *)
(*   hit     the current call was answered from the cache                  *)
(*   gi      index of the generator additem is about to receive            *)
(*   grp     the list group.group (sequence of integer matrices)           *)
(*   a, b    cursors of the two for-loops of makegroup                     *)
(*   new     makegroup's flag                                              *)
(*   mode    "-" | "u" (find_uniq_u) | "h" (find_uniq_hkls, one column)    *)
(*           | "l" (find_uniq_hkls, a list of columns)                      *)
(*   x0      the base object: an integer UBI (mode u) / an hkl (mode h) /  *)
(*           a sequence of hkl (mode l)                                    *)
(*   tag     how x0 was made: <<cell index, quaternion>> / <<0, hkl>> /    *)
(*           <<0, length>>                                                 *)
(*   s       which group element was applied beforehand (start = grp[s].x0;*)
(*           mode l: column j is turned by grp[Rot(s, j)], another element *)
(*           for every column, every element for every column over the s)  *)
(*   i       cursor of the scan `for o in grp.group`                       *)
(*   cur     the argument of the current call: Start(s) = grp[s] . x0      *)
(*   uniq, tmax   the scan's running best and its score.  Data refinement: *)
(*           the matrix `uniq` of the code is grp[uniq] . start, the model *)
(*           keeps the index (1 = identity = "still the input"); mode l:   *)
(*           one index / one score PER COLUMN (sequences)                  *)
(*   res     results of the finished calls: res[s] = index of the winning  *)
(*           group element for start s, the returned object is Result(s)   *)
(*           (mode l: res[s][j] per column, the returned array ResultL(s)) *)
(*   two-thread model (SpecC; constant in Spec):                           *)
(*   th      frames of the two threads inside generate_group: pc, name,    *)
(*           obj (local g, an object id), gi, a, b, new, hit, held         *)
(*   heap    object id -> the list group.group of that object              *)
(*   ccache  symcache as shared state: insertion ordered <<key, object id>>*)
(*   ev      history of the dictionary accesses that hand out / store an   *)
(*           object: <<thread, "get" | "pub", length of its list then>>    *)
(*   last    thread inside a section the configuration does not preempt    *)
(*                                                                         *)
(* Actions                                                                 *)
(*   CallMiss / CallHit      a named group function is called              *)
(*   AddGen                  additem(m_from_string(gens[gi]))              *)
(*   MultiplyNew (= Append)  product not a member: appended, new = TRUE    *)
(*   MultiplyOld             product is a member: new = FALSE              *)
(*   ChooseUbi / ChooseHkl   choose the object whose orbit is reduced      *)
(*   ScanKeep / ScanSkip     loop body of find_uniq_*: t > tmax or not     *)
(*   ChooseList              choose a LIST of hkl (1..ListMax columns drawn *)
(*                           from ListPool, repetitions and members of one *)
(*                           orbit included)                               *)
(*   ScanListSome / ScanListNone   loop body of find_uniq_hkls on the array:*)
(*                           the mask is true for some column / for none   *)
(*   Return                  back to idle (cache configuration only)       *)
(*   SpecC, per thread t: Contains (args in symcache), Get (symcache[args]),*)
(*   New (g = group()), AddItemC, MultC (the additem / makegroup steps on   *)
(*   the thread's own object), Publish (symcache[args] = g), Ret; Finished  *)
(*   (both returned).  TLC explores every interleaving of these steps for   *)
(*   the pairs of first calls in ConcPairs.                                 *)
(*                                                                         *)
(* Invariants (all stated independently of the generation procedure)       *)
(*   TypeOK, GenOK (no duplicates, det 1, entries in -1..1 while growing), *)
(*   CurOK (the refinement variable cur is Start(s))                       *)
(*   at "closed": Closed, HasIdentity, HasInverses, DetOne, IntegerEntries,*)
(*     OrderOK (24,12,6,6,8,4,2,2,2,1), SpectrumOK (element-order          *)
(*     histogram of 432, 622, 32, 32, 422, 222, 2, 2, 2, 1),               *)
(*     MetricPreserved (o G o^T = G for every conforming cell of the       *)
(*     family), Holohedry (the list is exactly / a subgroup of the set of  *)
(*     all det +1 matrices over {-1,0,1} preserving the metric),           *)
(*     TransposeMatters, CacheOK                                           *)
(*   at "done": InOrbit, AttainsMax, Idempotent, CanonicalIfUnique,        *)
(*     MetricKept, SameLattice (res . x0^-1 integer unimodular: the set of *)
(*     g-vectors indexed with integer hkl is unchanged), HklCanonical,     *)
(*     HklNormKept.   CanonicalAlways is FALSE on trace ties: it is the    *)
(*     invariant of configuration SymGroup_ties.cfg, whose counterexample  *)
(*     is finding C16-find-uniq-u-trace-tie.                               *)
(*     HklLexMax: where the whole orbit stays within 499 the result is the *)
(*     lexicographic maximum (independent of the packing base 1000);       *)
(*     beyond 499 the key is not injective: SymGroup_hkl500.cfg.           *)
(*     HklKeyMax (the documented range |h| < 1000 of the key, wider than   *)
(*     the lexicographic domain; SymGroup_wide.cfg): for every hkl with    *)
(*     entries up to 999 whose orbit members all have DIFFERENT packed     *)
(*     keys (KeyInjectiveOn, decided orbit by orbit) every start returns    *)
(*     the one member with the largest key - canonical WITHIN the orbit;   *)
(*     InOrbit and Idempotent hold for every hkl of that range, tie or not.*)
(*     KeyFits32 (magnitude x integer width): over that range the key of   *)
(*     every orbit member and its intermediate h*1000 + k stay inside a    *)
(*     signed 32 bit integer, so the width of the caller's array (int32 /  *)
(*     int64 / float64: the starting key is computed in the CALLER's type) *)
(*     cannot matter - the harness hands every start over in each of them. *)
(*   at "done", mode l: ListColumnwise (THE list law: the array that comes  *)
(*     back is, column by column, the lexicographic maximum of that        *)
(*     column's orbit - whatever the other columns are, wherever the column *)
(*     sits, however long the list is), ListPositionFree (two columns of    *)
(*     one orbit - in one list or in two starts - come back equal),         *)
(*     ListIsMap (the array result is the map of the one-column scan of     *)
(*     mode h over the columns: nothing in the reduction couples columns).  *)
(*     The law does not mention the length: the harness scales every list   *)
(*     TLC emits to the lengths ListSizes (1 .. 3e5 columns, the powers of  *)
(*     two around which a block-wise implementation would change its code   *)
(*     path): N columns drawn from the hkl TLC reduced (modes h and l) and  *)
(*     from seeded triples, one real call, the result judged column by      *)
(*     column against the emitted per-column result / the lexicographic     *)
(*     maximum of the column's orbit.                                       *)
(*     SymGroup_blocks.cfg (BlockSize = 2): the block-wise variant that     *)
(*     forgets the trailing n % BlockSize columns violates ListColumnwise,  *)
(*     ListPositionFree and ListIsMap at 3 columns.                         *)
(*   temporal (cache configuration): Terminates (every makegroup returns)  *)
(*   two threads (SymGroup_conc / _conct): HeldFull + Frozen + HeldClosed  *)
(*     (= HeldClosedAlways: no caller ever holds, from its return on, a    *)
(*     group that is not closed / not of the full order), PublishedComplete,*)
(*     PublishedClosed, PrivateWhileBuilt, NoAliasC, HitIsCached, AllCached,*)
(*     no deadlock before both threads returned.  SymGroup_early.cfg: the  *)
(*     variant that stores the empty group first violates HeldClosedAlways *)
(*     (and HeldFull, Frozen, PublishedComplete, PrivateWhileBuilt).       *)
(*                                                                         *)
(* Known departures of the pinned tree from these laws (both are found by  *)
(* TLC as invariant violations and then confirmed on the real code by the  *)
(* harness, harness/props/c16.py):                                         *)
(*   - trace ties: CanonicalAlways (SymGroup_ties.cfg);                    *)
(*   - trigonal(): its 3-fold generator "y,-x-y,z" is the transpose of the *)
(*     hexagonal one, the closure preserves the gamma = 60 metric and not  *)
(*     the gamma = 120 cell (MetricPreserved, Holohedry, TransposeMatters, *)
(*     MetricKept, HklNormKept fail for trigonal with TrigonalFixed=FALSE; *)
(*     all hold with the repaired generator, TrigonalFixed = TRUE).        *)
(*                                                                         *)
(* Harness-side families that are covariant in the model (bound in          *)
(* harness/props/c16.py, not enumerated by TLC): cell scale 1 A .. 1e3 A,   *)
(* the kind of the argument (list, Fortran / strided array, func=, debug=), *)
(* the dtype and memory layout of hkl arrays, lists longer than ListMax (by  *)
(* ListColumnwise each column is one ChooseHkl behaviour; lengths ListSizes),*)
(* the number of orientations handed to makeuniq / uniq_grain_list, which    *)
(* real thread plays which model thread.                                     *)
(*                                                                         *)
(* Bounds: Names (ten groups), quaternion components -QMax..QMax (all      *)
(* rational rotations |q|^2 R(q); contains the signed permutations and the *)
(* Pythagorean angles 3-4-5, 5-12-13, 7-24-25), hkl box -HMax..HMax plus   *)
(* the explicit triples BigHkls (entries up to 499: key < 2^29, HklNormKept *)
(* < 2^31; SymGroup_wide.cfg: entries 500..999 and the powers of two in     *)
(* between, key < 2^31, HklNormKept not evaluated there), lists of 1..ListMax columns over ListPool (ListMax = 0: none), *)
(* MaxCalls named-group calls per behaviour, two threads with one call     *)
(* each.  Largest intermediate (SameLattice) < 2^28 for QMax = 3.          *)
(***************************************************************************)
EXTENDS ExactLA, Json

CONSTANTS Names,      \* subset of the ten group names
          QMax,       \* quaternion components in -QMax..QMax
          HMax,       \* hkl box
          MaxCalls,   \* number of named-group calls in one behaviour
          DoScan,     \* BOOLEAN: explore orbits (only after the first call)
          TrigonalFixed, \* TRUE: trigonal() = generate_group("-y,x-y,z", "y,x,-z") (repaired, /repo fix: commit
                         \*       "trigonal() uses the three-fold of the hexagonal (gamma = 120) setting");
                         \* FALSE: the originally pinned tree, "y,-x-y,z" (defect C16-trigonal-setting).
                         \* The harness picks the value from the strings the real trigonal() passes on.
          BigHkls,    \* extra hkl reduced besides the box.  A configuration file has sets but no tuples:
                      \* (nor negative numbers): the triple (h, k, l), entries in -999..999, is written
                      \* {1000 + h, 11000 + k, 21000 + l}
          ListMax,    \* lists of 1..ListMax hkl columns are reduced as ARRAYS (mode l); 0: none
          ListPool,   \* the hkl the columns of a list are drawn from (encoded like BigHkls)
          ListSizes,  \* the lengths the harness scales every emitted list to (ListColumnwise does not
                      \* depend on the length); TLC itself explores the lengths 1..ListMax
          BlockSize,  \* 0: find_uniq_hkls as written (every operator passes over ALL columns at once);
                      \* b > 0: the block-wise variant  for i in range(n // b): columns i*b .. (i+1)*b - 1
                      \* for lists longer than b, which never visits the trailing n % b columns
                      \* (SymGroup_blocks.cfg: ListColumnwise is expected to be VIOLATED - what the
                      \* scaling of the lists to ListSizes in the harness looks for in the real code)
          ConcPairs,  \* two-thread model: set of sets {n1, n2} ({n}: both threads ask for n); the two
                      \* threads make the first calls of the two names concurrently
          CoarseNames, Stride,  \* two-thread model: a thread closing a group of CoarseNames can be preempted
                         \* inside makegroup only at the start of row a with (a-1) % Stride = 0 (subset of
                         \* the interleavings, quick tier); CoarseNames = {} : every step is a preemption point
          PublishEarly   \* FALSE: generate_group as written (symcache[args] = g after the last additem);
                         \* TRUE: the variant that stores the empty group first and fills it afterwards
                         \* (SymGroup_early.cfg: HeldClosedAlways is expected to be VIOLATED)

VARIABLES calls, cache, name, pc, hit, gi, grp, a, b, new,
          mode, x0, tag, s, i, cur, uniq, tmax, res,
          th, heap, ccache, ev, last

seqvars == << calls, cache, name, pc, hit, gi, grp, a, b, new,
              mode, x0, tag, s, i, cur, uniq, tmax, res >>
cvars == << th, heap, ccache, ev, last >>
vars == << seqvars, cvars >>

AllNames == { "cubic", "hexagonal", "trigonal", "rhombohedralP", "tetragonal",
              "orthorhombic", "monoclinic_c", "monoclinic_a", "monoclinic_b", "triclinic" }
ASSUME Names \subseteq AllNames /\ QMax \in 0..3 /\ HMax \in 0..4 /\ MaxCalls \in 1..3
       /\ DoScan \in BOOLEAN /\ TrigonalFixed \in BOOLEAN
       /\ \A c \in BigHkls : /\ Cardinality(c) = 3
                              /\ \E h \in c : h \in 1..1999
                              /\ \E k \in c : k \in 10001..11999
                              /\ \E l \in c : l \in 20001..21999
       /\ ListMax \in 0..3 /\ BlockSize \in 0..3 /\ \A n \in ListSizes : n >= 1
       /\ \A d \in ListPool : /\ Cardinality(d) = 3
                               /\ \E h \in d : h \in 1..1999
                               /\ \E k \in d : k \in 10001..11999
                               /\ \E l \in d : l \in 20001..21999
       /\ \A p \in ConcPairs : p \subseteq AllNames /\ Cardinality(p) \in {1, 2}
       /\ CoarseNames \subseteq AllNames
       /\ Stride \in 1..24 /\ PublishEarly \in BOOLEAN

Mul(A, B) == M2T(MM(A, B))
T3(v) == << v[1], v[2], v[3] >>
SeqToSet(q) == { q[k] : k \in 1..Len(q) }

\* ---- m_from_string -------------------------------------------------------------
\* A generator is <<source string, coefficient table>>: row j of the table holds the
\* coefficients of x, y, z in the j-th comma separated expression.  m_from_string
\* evaluates the expressions at (1,0,0), (0,1,0), (0,0,1) and stores the three results
\* as ROWS: row i = image of basis vector i = column i of the table.
MFromString(C) == M2T(Transpose(C))

Gens(n) ==
  CASE n = "cubic"         -> << <<"z,x,y",    << <<0,0,1>>,  <<1,0,0>>,   <<0,1,0>> >> >>,
                                 <<"-y,x,z",   << <<0,-1,0>>, <<1,0,0>>,   <<0,0,1>> >> >> >>
    [] n = "hexagonal"     -> << <<"-y,x-y,z", << <<0,-1,0>>, <<1,-1,0>>,  <<0,0,1>> >> >>,
                                 <<"-x,-y,z",  << <<-1,0,0>>, <<0,-1,0>>,  <<0,0,1>> >> >>,
                                 <<"y,x,-z",   << <<0,1,0>>,  <<1,0,0>>,   <<0,0,-1>> >> >> >>
    [] n = "trigonal"      -> << IF TrigonalFixed
                                 THEN <<"-y,x-y,z", << <<0,-1,0>>, <<1,-1,0>>,  <<0,0,1>> >> >>
                                 ELSE <<"y,-x-y,z", << <<0,1,0>>,  <<-1,-1,0>>, <<0,0,1>> >> >>,
                                 <<"y,x,-z",   << <<0,1,0>>,  <<1,0,0>>,   <<0,0,-1>> >> >> >>
    [] n = "rhombohedralP" -> << <<"z,x,y",    << <<0,0,1>>,  <<1,0,0>>,   <<0,1,0>> >> >>,
                                 <<"-z,-y,-x", << <<0,0,-1>>, <<0,-1,0>>,  <<-1,0,0>> >> >> >>
    [] n = "tetragonal"    -> << <<"-y,x,z",   << <<0,-1,0>>, <<1,0,0>>,   <<0,0,1>> >> >>,
                                 <<"-x,y,-z",  << <<-1,0,0>>, <<0,1,0>>,   <<0,0,-1>> >> >> >>
    [] n = "orthorhombic"  -> << <<"-x,-y,z",  << <<-1,0,0>>, <<0,-1,0>>,  <<0,0,1>> >> >>,
                                 <<"-x,y,-z",  << <<-1,0,0>>, <<0,1,0>>,   <<0,0,-1>> >> >> >>
    [] n = "monoclinic_c"  -> << <<"-x,-y,z",  << <<-1,0,0>>, <<0,-1,0>>,  <<0,0,1>> >> >> >>
    [] n = "monoclinic_a"  -> << <<"x,-y,-z",  << <<1,0,0>>,  <<0,-1,0>>,  <<0,0,-1>> >> >> >>
    [] n = "monoclinic_b"  -> << <<"-x,y,-z",  << <<-1,0,0>>, <<0,1,0>>,   <<0,0,-1>> >> >> >>
    [] n = "triclinic"     -> << <<"x, y, z",  << <<1,0,0>>,  <<0,1,0>>,   <<0,0,1>> >> >> >>

GenStrings(n) == [k \in 1..Len(Gens(n)) |-> Gens(n)[k][1]]      \* the symcache key
GenMat(n, k)  == MFromString(Gens(n)[k][2])

\* ---- what the property says the groups are -------------------------------------------
Order(n) ==
  CASE n = "cubic" -> 24 [] n = "hexagonal" -> 12 [] n = "trigonal" -> 6
    [] n = "rhombohedralP" -> 6 [] n = "tetragonal" -> 8 [] n = "orthorhombic" -> 4
    [] n \in {"monoclinic_c", "monoclinic_a", "monoclinic_b"} -> 2 [] n = "triclinic" -> 1

\* number of elements of order 1, 2, 3, 4, 6 in 432, 622, 32, 422, 222, 2, 1
Spectrum(n) ==
  CASE n = "cubic" -> <<1, 9, 8, 6, 0>> [] n = "hexagonal" -> <<1, 7, 2, 0, 2>>
    [] n \in {"trigonal", "rhombohedralP"} -> <<1, 3, 2, 0, 0>>
    [] n = "tetragonal" -> <<1, 5, 0, 2, 0>> [] n = "orthorhombic" -> <<1, 3, 0, 0, 0>>
    [] n \in {"monoclinic_c", "monoclinic_a", "monoclinic_b"} -> <<1, 1, 0, 0, 0>>
    [] n = "triclinic" -> <<1, 0, 0, 0, 0>>

\* conforming cells: integer matrices whose ROWS are the cell vectors a, b, c
\* (so that cell . R is an exact integer UBI for every scaled rotation R)
Hx(k) == << <<1,-1,0>>, <<0,1,-1>>, <<k,k,k>> >>         \* a=b, gamma=120, c perpendicular
Rh(p, q) == << <<p,q,q>>, <<q,p,q>>, <<q,q,p>> >>        \* a=b=c, alpha=beta=gamma
Cells(n) ==
  CASE n = "cubic"         -> << I3 >>
    [] n = "hexagonal"     -> << Hx(1), Hx(2) >>
    [] n = "trigonal"      -> << Hx(1), Hx(2) >>
    [] n = "rhombohedralP" -> << Rh(2, 1), Rh(3, -1) >>
    [] n = "tetragonal"    -> << Diag(1,1,2), Diag(2,2,1),
                                 << <<1,-1,0>>, <<1,1,0>>, <<0,0,1>> >> >>   \* 45 deg about c
    [] n = "orthorhombic"  -> << Diag(1,2,3) >>
    [] n = "monoclinic_c"  -> << << <<3,0,0>>, <<1,2,0>>, <<0,0,1>> >> >>
    [] n = "monoclinic_a"  -> << << <<1,0,0>>, <<0,3,0>>, <<0,1,2>> >> >>
    [] n = "monoclinic_b"  -> << << <<3,0,0>>, <<0,1,0>>, <<1,0,2>> >> >>
    [] n = "triclinic"     -> << << <<3,0,0>>, <<1,2,0>>, <<1,1,4>> >> >>

Metric(cell) == Mul(cell, Transpose(cell))               \* real-space metric tensor
Preserves(o, Gm) == Mul(Mul(o, Gm), Transpose(o)) = Gm

\* the cell that conforms to the *other* hexagonal convention (gamma = 60)
Hx60 == << <<1,0,-1>>, <<0,1,-1>>, <<1,1,1>> >>

Small == [Idx -> [Idx -> {-1, 0, 1}]]
AutPlus(Gm) == { M2T(M) : M \in { X \in Small : Det(X) = 1 /\ Preserves(M2T(X), Gm) } }
\* groups that are the whole proper holohedry of their lattice; trigonal (32 on a hexagonal
\* lattice) is a proper subgroup of 622
FullHolohedry(n) == n # "trigonal"

\* ---- exact orientations ----------------------------------------------------------------
\* |q|^2 R(q) for the integer quaternion q = (w, x, y, z): every rational rotation arises
\* (q and -q, and q and k.q, give the same rotation: keep the primitive q whose first non-zero
\* component is positive)
Quats == { q \in [1..4 -> -QMax..QMax] :
             /\ \E k \in 1..4 : q[k] > 0 /\ \A j \in 1..(k-1) : q[j] = 0
             /\ GCD(GCD(Abs(q[1]), Abs(q[2])), GCD(Abs(q[3]), Abs(q[4]))) = 1 }
QRot(q) == LET w == q[1] x == q[2] y == q[3] z == q[4] IN
  << << w*w + x*x - y*y - z*z, 2*(x*y - w*z),         2*(x*z + w*y) >>,
     << 2*(x*y + w*z),         w*w - x*x + y*y - z*z, 2*(y*z - w*x) >>,
     << 2*(x*z - w*y),         2*(y*z + w*x),         w*w - x*x - y*y + z*z >> >>
QN(q) == q[1]*q[1] + q[2]*q[2] + q[3]*q[3] + q[4]*q[4]
ASSUME \A q \in Quats : IsOrthoScaled(QRot(q), QN(q)) /\ Det(QRot(q)) = QN(q)*QN(q)*QN(q)
ASSUME QRot(<<1,1,0,0>>) = MScale(2, Rx(<<0,1,1>>)) /\ QRot(<<2,0,0,1>>) = Rz(<<3,4,5>>)

Box == { << h, k, l >> : h \in -HMax..HMax, k \in -HMax..HMax, l \in -HMax..HMax }
Decode(c) == << (CHOOSE v \in c : v \in 1..1999) - 1000,
                (CHOOSE v \in c : v \in 10001..11999) - 11000,
                (CHOOSE v \in c : v \in 20001..21999) - 21000 >>
BigBox == { Decode(c) : c \in BigHkls }
PoolBox == { Decode(c) : c \in ListPool }
Lists == UNION { [1..n -> PoolBox] : n \in 1..ListMax }       \* every list of 1..ListMax columns over the pool

\* ---- the two reductions share one scan ----------------------------------------------
HklKey(h) == (h[1]*1000 + h[2])*1000 + h[3]                      \* hklmax(h, 1000)
Op(o, x) == IF mode = "u" THEN Mul(o, x) ELSE T3(MV(o, x))       \* grp.op(o, x) = dot(o, x)
Score(x) == IF mode = "u" THEN Trace(x) ELSE HklKey(x)           \* func
\* mode l: column j of start k is turned by another group element than its neighbours
Rot(k, j) == ((k + j - 2) % Len(grp)) + 1
StartL(k) == [j \in 1..Len(x0) |-> T3(MV(grp[Rot(k, j)], x0[j]))]
Start(k) == IF mode = "l" THEN StartL(k) ELSE Op(grp[k], x0)    \* group element applied beforehand
\* func(op(o, x)) without forming the whole product in mode u: trace(o . x) = sum_i o[i] . col_i(x)
ScoreOp(o, x) == IF mode = "u" THEN Dot(o[1], Col(x, 1)) + Dot(o[2], Col(x, 2)) + Dot(o[3], Col(x, 3))
                 ELSE HklKey(MV(o, x))

\* ---- initial state --------------------------------------------------------------------
SeqInit ==
  /\ calls = << >> /\ cache = << >> /\ name = "" /\ pc = "idle" /\ hit = FALSE
  /\ gi = 0 /\ grp = << >> /\ a = 0 /\ b = 0 /\ new = FALSE
  /\ mode = "-" /\ x0 = << >> /\ tag = << >> /\ s = 0 /\ i = 0 /\ cur = << >> /\ uniq = 0 /\ tmax = 0
  /\ res = << >>

\* the sequential specification does not use the two-thread variables
Init == SeqInit /\ th = << >> /\ heap = << >> /\ ccache = << >> /\ ev = << >> /\ last = 0

\* (every sequential action contains exactly one of NoScan / NoGen: the two-thread variables ride along)
NoScan == UNCHANGED << mode, x0, tag, s, i, cur, uniq, tmax, res >> /\ UNCHANGED cvars
NoGen == UNCHANGED << calls, cache, name, hit, gi, grp, a, b, new >> /\ UNCHANGED cvars

CacheKeys == { cache[k][1] : k \in 1..Len(cache) }
CacheGet(key) == (CHOOSE k \in 1..Len(cache) : cache[k][1] = key)

\* generate_group(*args): args in symcache -> return the cached object
CallHit(n) ==
  /\ pc = "idle" /\ Len(calls) < MaxCalls /\ GenStrings(n) \in CacheKeys
  /\ calls' = Append(calls, n) /\ name' = n /\ hit' = TRUE
  /\ grp' = cache[CacheGet(GenStrings(n))][2]
  /\ pc' = "closed"
  /\ UNCHANGED << cache, gi, a, b, new >> /\ NoScan

\* ... else g = group() : [identity], then additem for each generator string
CallMiss(n) ==
  /\ pc = "idle" /\ Len(calls) < MaxCalls /\ GenStrings(n) \notin CacheKeys
  /\ calls' = Append(calls, n) /\ name' = n /\ hit' = FALSE
  /\ grp' = << I3 >> /\ gi' = 1 /\ pc' = "additem"
  /\ UNCHANGED << cache, a, b, new >> /\ NoScan

\* additem: append unless isMember, then makegroup() starts: new = True, first pass
AddGen ==
  /\ pc = "additem"
  /\ LET item == GenMat(name, gi) IN
       grp' = IF item \in SeqToSet(grp) THEN grp ELSE Append(grp, item)
  /\ a' = 1 /\ b' = 1 /\ new' = TRUE /\ pc' = "mult"
  /\ UNCHANGED << calls, cache, name, hit, gi >> /\ NoScan

\* one iteration of the body of  for a in group: for b in group:  (list grows underneath)
Advance(isnew, g2) ==
  IF b + 1 <= Len(g2) THEN a' = a /\ b' = b + 1 /\ pc' = "mult" /\ UNCHANGED << gi, cache >>
  ELSE IF a + 1 <= Len(g2) THEN a' = a + 1 /\ b' = 1 /\ pc' = "mult" /\ UNCHANGED << gi, cache >>
  ELSE IF isnew THEN a' = 1 /\ b' = 1 /\ pc' = "mult" /\ UNCHANGED << gi, cache >>   \* while new:
  ELSE IF gi < Len(Gens(name))
       THEN a' = a /\ b' = b /\ gi' = gi + 1 /\ pc' = "additem" /\ UNCHANGED cache
       ELSE a' = a /\ b' = b /\ gi' = gi /\ pc' = "closed"
            /\ cache' = Append(cache, << GenStrings(name), g2 >>)

MultiplyNew ==       \* "Append": c = op(a, b) is not a member
  /\ pc = "mult"
  /\ LET c == Mul(grp[a], grp[b]) IN
       /\ c \notin SeqToSet(grp)
       /\ grp' = Append(grp, c) /\ new' = TRUE
       /\ Advance(TRUE, Append(grp, c))
  /\ UNCHANGED << calls, name, hit >> /\ NoScan

MultiplyOld ==
  /\ pc = "mult"
  /\ LET c == Mul(grp[a], grp[b]) IN
       /\ c \in SeqToSet(grp)
       /\ grp' = grp /\ new' = FALSE
       /\ Advance(FALSE, grp)
  /\ UNCHANGED << calls, name, hit >> /\ NoScan

\* ---- orbit reduction ---------------------------------------------------------------------
BeginScan(m, x, t) ==
  /\ mode' = m /\ x0' = x /\ tag' = t /\ s' = 1 /\ i' = 1 /\ res' = << >>
  /\ cur' = (IF m = "u" THEN Mul(grp[1], x) ELSE T3(MV(grp[1], x)))
  /\ pc' = "scan"

PickUbi(c, q) ==
  /\ pc = "closed" /\ DoScan /\ Len(calls) = 1
  /\ BeginScan("u", Mul(Cells(name)[c], QRot(q)), << c, <<q[1], q[2], q[3], q[4]>> >>)
  /\ uniq' = 1                                                  \* uniq = u  ( = grp[1] . u )
  /\ tmax' = Trace(Mul(grp[1], Mul(Cells(name)[c], QRot(q))))   \* tmax = func(uniq)
  /\ NoGen

PickHkl(h) ==
  /\ pc = "closed" /\ DoScan /\ Len(calls) = 1
  /\ BeginScan("h", h, << 0, h >>)
  /\ uniq' = 1 /\ tmax' = HklKey(T3(MV(grp[1], h)))
  /\ NoGen

\* after the last o of a call: record the result, next start (next group element applied beforehand)
NextCall(u, t) ==
  IF i < Len(grp) THEN i' = i + 1 /\ uniq' = u /\ tmax' = t /\ UNCHANGED << s, res, pc, cur >>
  ELSE /\ res' = Append(res, u)
       /\ IF s < Len(grp)
          THEN /\ s' = s + 1 /\ i' = 1 /\ pc' = pc
               /\ cur' = Start(s + 1) /\ uniq' = 1 /\ tmax' = Score(Start(s + 1))
          ELSE s' = s /\ i' = i /\ uniq' = u /\ tmax' = t /\ pc' = "done" /\ cur' = cur

ScanKeep ==          \* if func(cand) > tmax: uniq = cand; tmax = t
  /\ pc = "scan" /\ mode # "l"
  /\ LET t == ScoreOp(grp[i], cur) IN       \* cand = grp.op(o, u); t = func(cand)
       /\ t > tmax
       /\ NextCall(i, t)
  /\ UNCHANGED << mode, x0, tag >> /\ NoGen

ScanSkip ==
  /\ pc = "scan" /\ mode # "l"
  /\ LET t == ScoreOp(grp[i], cur) IN
       /\ ~(t > tmax)
       /\ NextCall(uniq, tmax)
  /\ UNCHANGED << mode, x0, tag >> /\ NoGen

\* ---- find_uniq_hkls on a 3 x n array (sym_u.py:246-257) ------------------------------------
\*   uniq = hkls.copy(); tmax = func(hkls)            one key per column
\*   for o in grp.group:
\*       cand = grp.op(o, hkls); t = func(cand)        all columns at once
\*       msk = t > tmax
\*       uniq[i] = np.where(msk, cand[i], uniq[i]); tmax = np.where(msk, t, tmax)
PickList(L) ==
  /\ pc = "closed" /\ DoScan /\ Len(calls) = 1
  /\ mode' = "l" /\ x0' = L /\ tag' = << 0, Len(L) >> /\ s' = 1 /\ i' = 1 /\ res' = << >>
  /\ LET st == [j \in 1..Len(L) |-> T3(MV(grp[Rot(1, j)], L[j]))] IN
       /\ cur' = st
       /\ uniq' = [j \in 1..Len(L) |-> 1]
       /\ tmax' = [j \in 1..Len(L) |-> HklKey(st[j])]
  /\ pc' = "scan"
  /\ NoGen

NextCallL(u, t) ==
  IF i < Len(grp) THEN i' = i + 1 /\ uniq' = u /\ tmax' = t /\ UNCHANGED << s, res, pc, cur >>
  ELSE /\ res' = Append(res, u)
       /\ IF s < Len(grp)
          THEN /\ s' = s + 1 /\ i' = 1 /\ pc' = pc
               /\ cur' = StartL(s + 1) /\ uniq' = [j \in 1..Len(x0) |-> 1]
               /\ tmax' = [j \in 1..Len(x0) |-> HklKey(StartL(s + 1)[j])]
          ELSE s' = s /\ i' = i /\ uniq' = u /\ tmax' = t /\ pc' = "done" /\ cur' = cur

ListT == [j \in 1..Len(x0) |-> HklKey(MV(grp[i], cur[j]))]         \* t = func(op(o, hkls))
Visited(j) == IF BlockSize = 0 \/ Len(x0) <= BlockSize THEN TRUE         \* one pass over the whole array
              ELSE j <= (Len(x0) \div BlockSize) * BlockSize                \* the variant: whole blocks only
ListMsk == [j \in 1..Len(x0) |-> Visited(j) /\ ListT[j] > tmax[j]]

ScanListSome ==      \* the mask selects at least one column: those are replaced, the others kept
  /\ pc = "scan" /\ mode = "l"
  /\ \E j \in 1..Len(x0) : ListMsk[j]
  /\ LET t == ListT  m == ListMsk IN
       NextCallL([j \in 1..Len(x0) |-> IF m[j] THEN i ELSE uniq[j]],
                 [j \in 1..Len(x0) |-> IF m[j] THEN t[j] ELSE tmax[j]])
  /\ UNCHANGED << mode, x0, tag >> /\ NoGen

ScanListNone ==      \* the mask is empty
  /\ pc = "scan" /\ mode = "l"
  /\ \A j \in 1..Len(x0) : ~ListMsk[j]
  /\ NextCallL(uniq, tmax)
  /\ UNCHANGED << mode, x0, tag >> /\ NoGen

Return ==
  /\ pc = "closed" /\ Len(calls) < MaxCalls
  /\ pc' = "idle" /\ name' = "" /\ hit' = FALSE /\ gi' = 0 /\ grp' = << >> /\ a' = 0 /\ b' = 0
  /\ new' = FALSE
  /\ UNCHANGED << calls, cache >> /\ NoScan

ChooseUbi == pc = "closed" /\ DoScan /\ \E c \in 1..Len(Cells(name)), q \in Quats : PickUbi(c, q)
ChooseHkl == pc = "closed" /\ DoScan /\ \E h \in Box \cup BigBox : PickHkl(h)
ChooseList == pc = "closed" /\ DoScan /\ \E L \in Lists : PickList(L)

Next ==
  \/ \E n \in Names : CallHit(n) \/ CallMiss(n)
  \/ AddGen \/ MultiplyNew \/ MultiplyOld
  \/ ChooseUbi \/ ChooseHkl \/ ChooseList
  \/ ScanKeep \/ ScanSkip
  \/ ScanListSome \/ ScanListNone
  \/ Return

Spec == Init /\ [][Next]_vars /\ WF_vars(Next)

\* ======================================================================================
\* the symcache protocol under concurrency: two threads make the FIRST calls of named groups
\* ======================================================================================
\* generate_group(*args) (sym_u.py:118-126) cut into the steps between which another thread can run:
\*   "call"    if args in symcache           (Contains: hit -> "get", miss -> "new")
\*   "get"     return symcache[args]         (Get; a second dictionary access)
\*   "new"     g = group()                   (New: a fresh object [identity] on the heap, private to the thread)
\*   "additem" g.additem(m_from_string(a))   (AddItemC: append unless member, makegroup starts)
\*   "mult"    one iteration of makegroup's double loop over the growing list   (MultC)
\*   "publish" symcache[args] = g            (Publish)
\*   "ret"     return g                      (Ret: from here on the caller HOLDS the object)
\* Shared state: ccache (the dictionary: insertion ordered <<key, object id>>) and heap (object id -> list
\* group.group; an object is mutated in place by additem / makegroup).  th[t] is the frame of thread t,
\* ev the history of the dictionary accesses that return / store an object (<<thread, "get" | "pub",
\* length of the object's list at that moment>>), last # 0 while thread `last` is inside a section that
\* the configuration does not preempt (CoarseNames / Stride).
T == {1, 2}
Frame(n) == [ pc |-> "call", name |-> n, obj |-> 0, gi |-> 0, a |-> 0, b |-> 0, new |-> FALSE,
              hit |-> FALSE, held |-> 0 ]
InitC ==
  /\ SeqInit /\ heap = << >> /\ ccache = << >> /\ ev = << >> /\ last = 0
  /\ \E p \in ConcPairs :
        LET n1 == CHOOSE n \in p : TRUE
            n2 == IF Cardinality(p) = 1 THEN n1 ELSE CHOOSE n \in p : n # n1
        IN th = [t \in T |-> Frame(IF t = 1 THEN n1 ELSE n2)]

CKeys == { ccache[k][1] : k \in 1..Len(ccache) }
CIdx(key) == CHOOSE k \in 1..Len(ccache) : ccache[k][1] = key
CSet(key, o) == IF key \in CKeys THEN [ccache EXCEPT ![CIdx(key)] = << key, o >>]
                ELSE Append(ccache, << key, o >>)
Key(t) == GenStrings(th[t].name)

\* inside makegroup of a coarse name only some row starts are preemption points
NoPreempt(f) == /\ f.pc = "mult" /\ f.name \in CoarseNames
                /\ ~(f.b = 1 /\ (f.a - 1) % Stride = 0)
CanRun(t) == last \in {0, t}
SetLast(t) == last' = IF NoPreempt(th'[t]) THEN t ELSE 0

Contains(t) ==
  /\ CanRun(t) /\ UNCHANGED seqvars
  /\ th[t].pc = "call"
  /\ th' = IF Key(t) \in CKeys THEN [th EXCEPT ![t].pc = "get", ![t].hit = TRUE]
                                ELSE [th EXCEPT ![t].pc = "new"]
  /\ UNCHANGED << heap, ccache, ev >>
  /\ SetLast(t)

Get(t) ==
  /\ CanRun(t) /\ UNCHANGED seqvars
  /\ th[t].pc = "get"
  /\ LET o == ccache[CIdx(Key(t))][2] IN
       /\ th' = [th EXCEPT ![t].obj = o, ![t].pc = "ret"]
       /\ ev' = Append(ev, << t, "get", Len(heap[o]) >>)
  /\ UNCHANGED << heap, ccache >>
  /\ SetLast(t)

New(t) ==
  /\ CanRun(t) /\ UNCHANGED seqvars
  /\ th[t].pc = "new"
  /\ heap' = Append(heap, << I3 >>)
  /\ th' = [th EXCEPT ![t].obj = Len(heap) + 1, ![t].gi = 1,
                       ![t].pc = IF PublishEarly THEN "publish" ELSE "additem"]
  /\ UNCHANGED << ccache, ev >>
  /\ SetLast(t)

AddItemC(t) ==
  /\ CanRun(t) /\ UNCHANGED seqvars
  /\ th[t].pc = "additem"
  /\ LET o == th[t].obj  item == GenMat(th[t].name, th[t].gi) IN
       heap' = [heap EXCEPT ![o] = IF item \in SeqToSet(@) THEN @ ELSE Append(@, item)]
  /\ th' = [th EXCEPT ![t].a = 1, ![t].b = 1, ![t].new = TRUE, ![t].pc = "mult"]
  /\ UNCHANGED << ccache, ev >>
  /\ SetLast(t)

\* the loop body and the cursor movement are those of MultiplyNew / MultiplyOld / Advance above
MultC(t) ==
  /\ CanRun(t) /\ UNCHANGED seqvars
  /\ th[t].pc = "mult"
  /\ LET f == th[t]  o == f.obj  g == heap[o]
         c == Mul(g[f.a], g[f.b])
         isnew == c \notin SeqToSet(g)
         g2 == IF isnew THEN Append(g, c) ELSE g
     IN /\ heap' = [heap EXCEPT ![o] = g2]
        /\ th' = IF f.b + 1 <= Len(g2) THEN [th EXCEPT ![t].b = f.b + 1, ![t].new = isnew]
                 ELSE IF f.a + 1 <= Len(g2) THEN [th EXCEPT ![t].a = f.a + 1, ![t].b = 1, ![t].new = isnew]
                 ELSE IF isnew THEN [th EXCEPT ![t].a = 1, ![t].b = 1, ![t].new = isnew]
                 ELSE IF f.gi < Len(Gens(f.name))
                      THEN [th EXCEPT ![t].gi = f.gi + 1, ![t].new = isnew, ![t].pc = "additem"]
                      ELSE [th EXCEPT ![t].new = isnew, ![t].pc = IF PublishEarly THEN "get" ELSE "publish"]
  /\ UNCHANGED << ccache, ev >>
  /\ SetLast(t)

Publish(t) ==
  /\ CanRun(t) /\ UNCHANGED seqvars
  /\ th[t].pc = "publish"
  /\ ccache' = CSet(Key(t), th[t].obj)
  /\ ev' = Append(ev, << t, "pub", Len(heap[th[t].obj]) >>)
  /\ th' = [th EXCEPT ![t].pc = IF PublishEarly THEN "additem" ELSE "ret"]
  /\ UNCHANGED heap
  /\ SetLast(t)

Ret(t) ==
  /\ CanRun(t) /\ UNCHANGED seqvars
  /\ th[t].pc = "ret"
  /\ th' = [th EXCEPT ![t].held = th[t].obj, ![t].pc = "done"]
  /\ UNCHANGED << heap, ccache, ev >>
  /\ SetLast(t)

AllConcPairs == { {n1, n2} : n1, n2 \in AllNames }          \* the 55 unordered pairs
AllDone == \A t \in T : th[t].pc = "done"
Finished == AllDone /\ UNCHANGED vars          \* the only state without another successor (CHECK_DEADLOCK TRUE)
NextC ==
  \/ \E t \in T : Contains(t) \/ Get(t) \/ New(t) \/ AddItemC(t) \/ MultC(t) \/ Publish(t) \/ Ret(t)
  \/ Finished
SpecC == InitC /\ [][NextC]_vars

\* ======================================================================================
\* invariants
\* ======================================================================================
IsMat(M) == /\ M = M2T(M) /\ \A r, c \in Idx : M[r][c] \in Int
TypeOK ==
  /\ pc \in {"idle", "additem", "mult", "closed", "scan", "done"}
  /\ name \in Names \cup {""} /\ Len(calls) <= MaxCalls
  /\ (pc \in {"additem", "mult", "closed"} => \A k \in 1..Len(grp) : IsMat(grp[k]))
  /\ ((pc \in {"scan", "done"} /\ mode # "l") =>
         uniq \in 1..Len(grp) /\ \A k \in 1..Len(res) : res[k] \in 1..Len(grp))
  /\ ((pc \in {"scan", "done"} /\ mode = "l") =>
         /\ Len(x0) \in 1..ListMax /\ Len(cur) = Len(x0) /\ Len(tmax) = Len(x0)
         /\ uniq \in [1..Len(x0) -> 1..Len(grp)]
         /\ \A k \in 1..Len(res) : res[k] \in [1..Len(x0) -> 1..Len(grp)])
  /\ pc \in {"mult"} => a \in 1..Len(grp) /\ b \in 1..Len(grp)
  /\ pc \in {"scan"} => s \in 1..Len(grp) /\ i \in 1..Len(grp) /\ Len(res) = s - 1
  /\ pc = "done" => Len(res) = Len(grp)

CurOK == pc = "scan" => cur = Start(s)       \* the refinement variable is what it stands for

GS == SeqToSet(grp)
\* while the list grows: no duplicates, proper, small entries, never larger than the point group
GenOK ==
  pc \in {"additem", "mult", "closed"} =>
    /\ Cardinality(GS) = Len(grp)
    /\ grp[1] = I3
    /\ \A M \in GS : Det(M) = 1 /\ \A r, c \in Idx : M[r][c] \in {-1, 0, 1}
    /\ Len(grp) <= Order(name)

AtClosed == pc = "closed"
Closed          == AtClosed => \A X, Y \in GS : Mul(X, Y) \in GS
HasIdentity     == AtClosed => I3 \in GS
HasInverses     == AtClosed => \A X \in GS : \E Y \in GS : Mul(X, Y) = I3 /\ Mul(Y, X) = I3
DetOne          == AtClosed => \A X \in GS : Det(X) = 1
IntegerEntries  == AtClosed => \A X \in GS : \A r, c \in Idx : X[r][c] \in Int
OrderOK         == AtClosed => Len(grp) = Order(name) /\ Cardinality(GS) = Order(name)

RECURSIVE Pow(_, _)
Pow(M, n) == IF n = 0 THEN I3 ELSE Mul(M, Pow(M, n - 1))
ElemOrder(M) == CHOOSE n \in 1..24 : Pow(M, n) = I3 /\ \A k \in 1..(n-1) : Pow(M, k) # I3
CountOrder(n) == Cardinality({ M \in GS : ElemOrder(M) = n })
SpectrumOK ==
  AtClosed => << CountOrder(1), CountOrder(2), CountOrder(3), CountOrder(4), CountOrder(6) >>
               = Spectrum(name)

CellSet(n) == SeqToSet(Cells(n))
MetricPreserved == AtClosed => \A c \in CellSet(name) : \A X \in GS : Preserves(X, Metric(c))

\* independent definition of the group: all proper integer automorphisms of the metric
Holohedry ==
  (AtClosed /\ Len(calls) = 1 /\ ~hit) =>
     \A c \in CellSet(name) :
        IF FullHolohedry(name) THEN GS = AutPlus(Metric(c)) ELSE GS \subseteq AutPlus(Metric(c))

\* the transposed operators (the other reading of the strings) do NOT preserve the gamma = 120
\* metric, they preserve the gamma = 60 one: the metric law pins down the convention
TransposeMatters ==
  (AtClosed /\ name \in {"hexagonal", "trigonal"}) =>
     /\ \E X \in GS : ~Preserves(Transpose(X), Metric(Hx(1)))
     /\ \E X \in GS : ~Preserves(X, Metric(Hx60))
     /\ \A X \in GS : Preserves(M2T(Transpose(X)), Metric(Hx60))

\* symcache: every entry is the closure of its own key; keys distinct
CacheOK ==
  /\ \A k, l \in 1..Len(cache) : cache[k][1] = cache[l][1] => k = l
  /\ \A k \in 1..Len(cache) : \E n \in Names :
        GenStrings(n) = cache[k][1] /\ Len(cache[k][2]) = Order(n)
  /\ (AtClosed /\ hit) => Len(grp) = Order(name)

\* ---- orbit laws ----------------------------------------------------------------------------
AtDone == pc = "done" /\ mode # "l"
AtDoneL == pc = "done" /\ mode = "l"
Result(k) == Op(grp[res[k]], Start(k))                  \* what call number k returned
OrbitOf == { Start(k) : k \in 1..Len(grp) }
MaxOver(S) == CHOOSE m \in S : \A t \in S : t <= m
IndexOf(x) == CHOOSE k \in 1..Len(grp) : Start(k) = x

\* (TLC re-evaluates a definition on every use: the sets are LET-bound once per invariant)
ResultSet == { Result(k) : k \in 1..Len(res) }
MaxScoreOf(Orbit) == MaxOver({ Score(x) : x \in Orbit })
MaxersOf(Orbit) == LET m == MaxScoreOf(Orbit) IN { x \in Orbit : Score(x) = m }

InOrbit     == AtDone => ResultSet \subseteq OrbitOf
AttainsMax  == AtDone => LET m == MaxScoreOf(OrbitOf) IN \A x \in ResultSet : Score(x) = m
\* reducing a result again (it is orbit member number IndexOf) returns it unchanged
Idempotent  == AtDone => LET R == [k \in 1..Len(res) |-> Result(k)] IN
                           \A k \in 1..Len(res) : R[IndexOf(R[k])] = R[k]
CanonicalIfUnique == AtDone => LET M == MaxersOf(OrbitOf) IN
                                 Cardinality(M) = 1 => ResultSet = M
\* every maximiser is returned from some start: the number of distinct answers IS the tie count
TieDependence == AtDone => ResultSet = MaxersOf(OrbitOf)
MetricKept  == (AtDone /\ mode = "u") =>
                 LET G0 == Mul(x0, Transpose(x0)) IN \A x \in ResultSet : Mul(x, Transpose(x)) = G0
\* x = T . x0 with T integer and det T = 1  <=>  x . adj(x0) = det(x0) . T : the set of g-vectors
\* that x indexes with integer hkl is the one x0 indexes
SameLattice == (AtDone /\ mode = "u") =>
   LET A0 == M2T(Adj(x0))  d == Det(x0) IN
     /\ d > 0
     /\ \A x \in ResultSet :
          LET P == Mul(x, A0) IN
            /\ \A r, c \in Idx : P[r][c] % d = 0
            /\ Det([r \in Idx |-> [c \in Idx |-> P[r][c] \div d]]) = 1
HklCanonical == (AtDone /\ mode = "h") => Cardinality(ResultSet) = 1
\* |h|^2 in the reciprocal metric (adj G = det G . G^-1) is unchanged
HklNormKept == (AtDone /\ mode = "h") =>
   \A c \in CellSet(name) : LET A == M2T(Adj(Metric(c))) IN
      \A x \in ResultSet : Dot(x, MV(A, x)) = Dot(x0, MV(A, x0))

\* Where the packed key is an order isomorphism: for |h|, |k|, |l| <= 499 two different triples differ in
\* the key by at least 1000000 - 998*1000 - 998 > 0 in the direction of their first different entry, so the
\* largest key is the LEXICOGRAPHIC maximum of the orbit (an expectation that does not mention the base
\* 1000).  From 500 on two orbit members can share the LARGEST key (hexagonal: (3,-2,500), (3,-1,-500)):
\* SymGroup_hkl500.cfg, HklCanonical is expected to be VIOLATED there - the domain of the hkl clauses of
\* the property is |h| <= 499 (the code's comment "Assumes |h| < hmax" is too generous by a factor 2).
LexDomain(h) == \A k \in 1..3 : h[k] \in -499..499
LexLeq(x, y) == \/ x[1] < y[1]
                \/ x[1] = y[1] /\ x[2] < y[2]
                \/ x[1] = y[1] /\ x[2] = y[2] /\ x[3] <= y[3]
\* (hexagonal operators form h - k: the whole orbit has to stay within 499, not only the hkl one starts from)
HklLexMax == (AtDone /\ mode = "h") =>
                LET O == OrbitOf IN
                  (\A y \in O : LexDomain(y)) => \A x \in ResultSet : \A y \in O : LexLeq(y, x)

\* ---- the documented range of the key, |h| < 1000 ("Assumes |h| < hmax") ------------------------
\* Beyond 499 the packed key is no order isomorphism any more, but on most orbits it is still INJECTIVE
\* (decided orbit by orbit, in unbounded integers): there the scan has one strict maximum whatever the
\* start, so the result is the member with the largest key from every start - canonical within the orbit.
\* Orbits on which two members share a key (hexagonal (1,-3,500)) are left to InOrbit / Idempotent.
WideDomain(h) == \A k \in 1..3 : h[k] \in -999..999
KeyInjectiveOn(O) == \A x, y \in O : HklKey(x) = HklKey(y) => x = y
HklKeyMax == (AtDone /\ mode = "h" /\ WideDomain(x0)) =>
               LET O == OrbitOf IN
                 KeyInjectiveOn(O) => /\ Cardinality(ResultSet) = 1
                                      /\ \A x \in ResultSet : \A y \in O : HklKey(y) <= HklKey(x)
\* magnitude x integer width: find_uniq_hkls computes the STARTING key on the caller's array, in the caller's
\* integer type; the candidates' keys come from dot(o, hkls) in 64 bit.  Over the documented range the key
\* (h*1000 + k)*1000 + l and its intermediate h*1000 + k of every orbit member (the hexagonal operators reach
\* 2*999) fit a signed 32 bit integer: hk = h*1000 + k with |hk| <= 2147481 gives |hk*1000 + l| <= 2147481000 +
\* 1998 < 2^31.  (Written with bounds BEFORE the multiplication: TLC's integers are 32 bit themselves.)
KeyFits32 == (AtDone /\ mode = "h" /\ WideDomain(x0)) =>
               \A y \in OrbitOf : LET hk == y[1]*1000 + y[2] IN
                                     /\ Abs(y[1]) <= 2147 /\ Abs(hk) <= 2147481 /\ Abs(y[3]) <= 2647

\* ---- the list laws (mode l) ------------------------------------------------------------------
ResultL(k) == [j \in 1..Len(x0) |-> T3(MV(grp[res[k][j]], StartL(k)[j]))]    \* the array call k returned
OrbH(h) == { T3(MV(grp[k], h)) : k \in 1..Len(grp) }
InLexDomain(h) == \A y \in OrbH(h) : LexDomain(y)
LexMaxOf(h) == CHOOSE x \in OrbH(h) : \A y \in OrbH(h) : LexLeq(y, x)
\* the one-column scan of mode h (first strict maximum of the key over the group list), written as a
\* function of the start column: what find_uniq_hkls returns for a list of ONE column
RECURSIVE Scan1(_, _, _, _)
Scan1(h, k, best, tbest) ==
  IF k > Len(grp) THEN best
  ELSE LET c == T3(MV(grp[k], h)) IN
         IF HklKey(c) > tbest THEN Scan1(h, k + 1, c, HklKey(c)) ELSE Scan1(h, k + 1, best, tbest)
Reduce1(h) == Scan1(h, 1, h, HklKey(h))
\* THE list law: column by column the lexicographic maximum of that column's own orbit
ListColumnwise == AtDoneL => \A k \in 1..Len(res) : \A j \in 1..Len(x0) :
                               InLexDomain(x0[j]) => ResultL(k)[j] = LexMaxOf(x0[j])
\* two columns of one orbit come back equal, in whatever list position and from whatever start
ListPositionFree == AtDoneL => \A k, k2 \in 1..Len(res) : \A j, j2 \in 1..Len(x0) :
                                 (InLexDomain(x0[j]) /\ x0[j2] \in OrbH(x0[j])) => ResultL(k)[j] = ResultL(k2)[j2]
\* nothing couples the columns: the array result is the map of the one-column scan
ListIsMap == AtDoneL => \A k \in 1..Len(res) : \A j \in 1..Len(x0) : ResultL(k)[j] = Reduce1(StartL(k)[j])

EmitList ==
  AtDoneL => PrintT("@@" \o ToJson(
      [ kind |-> "l", name |-> name, x0 |-> x0,
        starts |-> [k \in 1..Len(res) |-> StartL(k)],
        res |-> [k \in 1..Len(res) |-> ResultL(k)],
        lex |-> [j \in 1..Len(x0) |-> LexMaxOf(x0[j])],
        indom |-> [j \in 1..Len(x0) |-> InLexDomain(x0[j])],
        sizes |-> ListSizes ]))

\* FALSE on trace ties (finding F12): invariant of SymGroup_ties.cfg only
CanonicalAlways == AtDone => Cardinality({ Result(k) : k \in 1..Len(res) }) = 1

\* every makegroup() returns (under weak fairness of Next)
Terminates == (pc \in {"additem", "mult"}) ~> (pc = "closed")

\* ---- the two-thread model -----------------------------------------------------------------------
\* the group clauses of the property on one list, for the name it was asked for
GroupOK(g, n) ==
  LET S == SeqToSet(g) IN
    /\ Len(g) = Order(n) /\ Cardinality(S) = Order(n) /\ I3 \in S
    /\ \A X, Y \in S : Mul(X, Y) \in S
    /\ \A X \in S : Det(X) = 1 /\ \E Y \in S : Mul(X, Y) = I3 /\ Mul(Y, X) = I3
NameOfKey(key) == CHOOSE n \in AllNames : GenStrings(n) = key
TS == DOMAIN th                                   \* {} in the sequential specification
ConcTypeOK ==
  /\ last \in {0, 1, 2}
  /\ \A t \in TS : /\ th[t].pc \in {"call", "get", "new", "additem", "mult", "publish", "ret", "done"}
                    /\ th[t].obj \in 0..Len(heap) /\ th[t].held \in 0..Len(heap)
                    /\ (th[t].pc = "mult" => th[t].a \in 1..Len(heap[th[t].obj]) /\ th[t].b \in 1..Len(heap[th[t].obj]))
  /\ \A k \in 1..Len(ccache) : ccache[k][2] \in 1..Len(heap)
\* THE property: whatever a caller holds after generate_group returned is, from then on and in every
\* interleaving, the closed group of the full order.  It is checked in three pieces (the 1700 matrix
\* products of GroupOK for cubic are too many to repeat in every state):
\*   HeldFull    in EVERY state a held list has the full order, no duplicates, the identity first;
\*   Frozen      no step changes a list that somebody holds or that the dictionary refers to;
\*   HeldClosed  when both threads have returned every held list satisfies all the group clauses
\* (a held list has the full order from the return on, never changes, and is closed at the end).
\* HeldClosedAlways is the one-piece statement (thorough configuration, and SymGroup_early.cfg).
FullOrder(g, n) == Len(g) = Order(n) /\ Cardinality(SeqToSet(g)) = Order(n) /\ g[1] = I3
HeldFull == \A t \in TS : th[t].pc = "done" => FullOrder(heap[th[t].held], th[t].name)
HeldClosed == (TS # {} /\ AllDone) => \A t \in TS : GroupOK(heap[th[t].held], th[t].name)
HeldClosedAlways == \A t \in TS : th[t].pc = "done" => GroupOK(heap[th[t].held], th[t].name)
Reachable(o) == \/ \E t \in TS : th[t].held = o
                \/ \E k \in 1..Len(ccache) : ccache[k][2] = o
Frozen == [][\A o \in 1..Len(heap) : Reachable(o) => heap'[o] = heap[o]]_vars
\* ... because only complete objects are ever reachable from the dictionary (a list only grows and never
\* beyond Order(n) - GenOK of the sequential specification -, so "complete" is "has reached the full order";
\* the full clauses are evaluated by HeldClosed on everything a caller gets, and by PublishedClosed when
\* both threads have returned)
PublishedComplete ==
  \A k \in 1..Len(ccache) : Len(heap[ccache[k][2]]) = Order(NameOfKey(ccache[k][1]))
PublishedClosed ==
  (TS # {} /\ AllDone) => \A k \in 1..Len(ccache) : GroupOK(heap[ccache[k][2]], NameOfKey(ccache[k][1]))
\* ... and an object is private to its builder while it grows
PrivateWhileBuilt ==
  \A t \in TS : th[t].pc \in {"additem", "mult"} =>
     /\ \A k \in 1..Len(ccache) : ccache[k][2] # th[t].obj
     /\ \A u \in TS \ {t} : th[u].obj # th[t].obj
\* different keys never share an object, a key occurs once
NoAliasC == \A k, l \in 1..Len(ccache) :
               (ccache[k][1] = ccache[l][1] \/ ccache[k][2] = ccache[l][2]) => k = l
\* a hit returns what the dictionary holds; the dictionary ends with an entry for every key asked for
HitIsCached == \A t \in TS : (th[t].pc = "done" /\ th[t].hit) => \E k \in 1..Len(ccache) : ccache[k] = << Key(t), th[t].held >>
AllCached == (TS # {} /\ AllDone) => \A t \in TS : Key(t) \in CKeys

EmitConc ==
  (TS # {} /\ AllDone) => PrintT("@@" \o ToJson(
      [ kind |-> "conc", names |-> [t \in T |-> th[t].name], hit |-> [t \in T |-> th[t].hit],
        held |-> [t \in T |-> th[t].held], ev |-> ev,
        cache |-> [k \in 1..Len(ccache) |-> ccache[k]],
        lens |-> [o \in 1..Len(heap) |-> Len(heap[o])] ]))

\* ---- emission for the harness ---------------------------------------------------------------
EmitGroup ==
  AtClosed => PrintT("@@" \o ToJson(
      [ kind |-> "group", calls |-> calls, name |-> name, hit |-> hit,
        strings |-> GenStrings(name),
        tables |-> [k \in 1..Len(Gens(name)) |-> Gens(name)[k][2]],
        gens |-> [k \in 1..Len(Gens(name)) |-> GenMat(name, k)],
        group |-> grp,
        cells |-> Cells(name),
        cachekeys |-> [k \in 1..Len(cache) |-> cache[k][1]] ]))

EmitOrbit ==
  AtDone =>
    LET R == [k \in 1..Len(res) |-> Result(k)]
        MaxScore == MaxOver({ Score(x) : x \in OrbitOf })
    IN PrintT("@@" \o ToJson(
      [ kind |-> mode, name |-> name, tag |-> tag, x0 |-> x0, win |-> res, res |-> R,
        smax |-> MaxScore,
        nmax |-> Cardinality({ x \in OrbitOf : Score(x) = MaxScore }),
        nscore |-> Cardinality({ Score(x) : x \in OrbitOf }), norbit |-> Cardinality(OrbitOf),
        ndist |-> Cardinality({ R[k] : k \in 1..Len(res) }) ]))

Emit == EmitGroup /\ EmitOrbit /\ EmitList
=============================================================================

----------------------------- MODULE KernelCalls -----------------------------
(***************************************************************************)
(* The *interface* of the compiled extension, src/_cImageD11.pyf (all 977  *)
(* lines): for every exported kernel the boundary lattice of well-formed   *)
(* calls (property C20).  This module does not model what a kernel         *)
(* computes (ConnPix, SparseCP, Dset, LocalMax, SparseCoo, SparseOverlaps, *)
(* Merge3D, ScoreRefine, ScoreAssign do that, with InBounds / Defined      *)
(* invariants, and are re-run by props/c20.py at their boundary scopes);   *)
(* it models what a caller may hand to a kernel:                           *)
(*                                                                         *)
(*   shapes    1x1 .. 5x5, 2xN / Nx2 with N a multiple of the OpenMP chunk *)
(*             (4096), a few "big" shapes (> 16384 provisional labels),    *)
(*             thin strips N x w and w x N (w = 3, 5, ..) whose pixel and  *)
(*             row counts are not multiples of the thread counts           *)
(*   contents  empty, full, checkerboards, one pixel in each corner /      *)
(*             centre, first / last row / column, stripes, diagonal,       *)
(*             occupied rows separated by empty rows, isolated dots        *)
(*   sparse    the sorted coo list of a content on a shape                 *)
(*   sizes     N in {0,1,2,3,4095,4096,4097,8193} peaks / pixels / labels  *)
(*   params    thresholds / cuts below, at, inside, at the top of, above   *)
(*             the data; label capacity exact / slack / zero; index        *)
(*             classes; permutations; buffer sizes exact                   *)
(*   threads   for the kernels with an OpenMP region (ParK, read off the   *)
(*             `#pragma omp` lines of src/*.c): the number of threads the  *)
(*             call runs with, nt in NT = {1, 2, 3, 7, 16, 31, 64} (0 =    *)
(*             whatever the process has).  Relative to the trip count E of *)
(*             the loop the threads share out (pixels, rows, list entries) *)
(*             a choice is tagged one / gtE (more threads than elements) / *)
(*             ndiv (E not a multiple of nt: a remainder to hand out) /    *)
(*             div / div64 (E / nt a multiple of 64: a chunk border on a   *)
(*             cache line) / gtrows (more threads than image rows)         *)
(*   options   every scalar (non-array, non-hidden) argument of every      *)
(*             kernel of the pyf is listed in ScalarArgs with the          *)
(*             dimension of the lattice that carries it (the harness       *)
(*             compares the table with the f2py signatures of the module   *)
(*             built from the tree under test);                            *)
(*             every integer scalar (flag, option, count) is a dimension:  *)
(*             con8 0/1, boundscheck 0/1, recompute 0/1, label 1/2, npx    *)
(*             0/1/2, n (iterations) 1/3, omegasign +1/-1, and verbose in  *)
(*             Verb = {0, 1, 2, 11} (the C sources test verbose != 0,      *)
(*             > 0, > 1 and > 10) times every small shape, content and     *)
(*             parameter class (the kernels' stdout is swallowed)          *)
(*   values    FloatIn(k): the float DATA arrays of a kernel (pixel values,    *)
(*             g-vectors, peak positions, value lists; not the 3 x 3        *)
(*             matrices / geometry parameters).  No precondition of the     *)
(*             interface excludes non-finite data (masked detector pixels,  *)
(*             divisions by a zero flat field, log of 0): value class fv in *)
(*             FV = {nan, pinf, ninf} (thorough + nzero = -0.0, denorm),    *)
(*             placed on the elements FvAt = odd (every second element of   *)
(*             the flattened array: never element 0, isolated on the dot /  *)
(*             corner contents, with finite neighbours on the dense ones) / *)
(*             all (thorough + last), crossed with every shape of FvShapes, *)
(*             every content, every list size up to a chunk + 1 and every   *)
(*             option value; "fin" = the generated finite data.             *)
(*             WorkArrays(k): arguments that are scratch space of a kernel  *)
(*             (MV / iMV of sparse_localmaxlabel, wrk of localmaxlabel, Z   *)
(*             of the splat labelling, tmp / oj of compress_duplicates):    *)
(*             their content on entry is arbitrary - the harness hands them *)
(*             over DIRTY on every call, integer ones filled with values    *)
(*             that look like indices just outside the array (n, -1, n + 1, *)
(*             -2, 2^30, a large negative number), as an earlier call on a  *)
(*             frame with more pixels leaves them (SparseScan.lmlabel       *)
(*             passes imx[:npx]); the scan callers repeat this history      *)
(*             (a frame after a frame with more pixels)                     *)
(*   runtime   OmpEnvs: OpenMP environments of the process in which the    *)
(*             team a parallel region gets differs from                    *)
(*             omp_get_max_threads() (thread limit below OMP_NUM_THREADS,  *)
(*             dynamic adjustment): every kernel with a size (not only     *)
(*             ParK) on its large sizes / shapes, EnvNs = 8 and 24 chunks  *)
(*             of 4096 (+ a remainder) - enough chunks for a team larger   *)
(*             than the thread limit to matter                             *)
(*   callers   Callers: the Python functions / caching objects of          *)
(*             ImageD11.sparseframe and ImageD11.labelimage that allocate  *)
(*             the work arrays of the kernels (Calls(w) = the kernels      *)
(*             behind a caller).  Lattice: shape x two contents x label    *)
(*             numbering (per frame; running through the scan so that the  *)
(*             largest label is exactly the allocated capacity, one above  *)
(*             it, or 100000 above the pixel count) x capacity the caching *)
(*             object was created with (default, tight = pixels on a frame *)
(*             + 1, 1) x verbose.  Extents(k) names the preconditions of   *)
(*             a kernel that the f2py layer does not enforce (tmp longer   *)
(*             than the largest label, results rows >= npk, indices in     *)
(*             range, ..): the harness asserts them on every call a Python *)
(*             caller makes                                                *)
(*                                                                         *)
(* variables  pc   stage of the construction of one call descriptor        *)
(*            d    the descriptor  [k, ns, nf, c1, c2, n, m, par, opt, vb, *)
(*                 nt, env, fv, at]                                        *)
(* actions    PickKernel PickShape PickBigShape PickStripShape PickSize    *)
(*            PickEnvSize PickContent PickContent2 PickSize2 PickParam     *)
(*            PickOption CheckWF PickVerbose PickValueClass PickThreads    *)
(*            PickEnv PickHugeShape Finish                                 *)
(*            (one action per choice; the reachable graph is a tree whose  *)
(*            leaves are the descriptors)                                  *)
(* invariants TypeOK                                                       *)
(*            WellFormedInv  every finished descriptor satisfies           *)
(*                 WellFormed(d) (checked by CheckWF once the arrays of    *)
(*                 the call are decided, i.e. before verbose / threads /   *)
(*                 environment are chosen, which touch no array; evaluated *)
(*                 again on the finished descriptors without those three): *)
(*                 the kernel's preconditions stated on the                *)
(*                 *arrays* of the call (sorted coo, labels <= npk,        *)
(*                 indices < m when boundscheck = 0, adr a permutation,    *)
(*                 order sorts ar, sorted id lists, low < high, nhist >= 1,*)
(*                 minimum image dimensions read off the C source, ...)    *)
(*            PartitionInv  the hand-written work split of localmaxlabel   *)
(*                 (localmaxlabel.c:215-216, lo = npx * tid / nt, hi =     *)
(*                 npx * (tid + 1) / nt) hands every pixel 0 .. npx - 1 to *)
(*                 exactly one thread and its products fit a C int, for    *)
(*                 every (shape, nt) of the lattice - the reason why the   *)
(*                 walk leaves no cell of `labels` unwritten; the binding  *)
(*                 observes the consequence (no poison survives, result =  *)
(*                 steepest-ascent definition = single-thread result).     *)
(*                 Thorough adds the one call where the products do NOT    *)
(*                 fit (HugeShapes: 2^24 pixels on 128 threads); like      *)
(*                 IntFits this is no documented precondition, so the call *)
(*                 is emitted, with partfits = FALSE for attribution       *)
(*            ThreadInv  a call that carries a thread count lies in        *)
(*                 ThreadScope (a kernel of ParK, a small / strip shape    *)
(*                 with a dense content, a non-empty list) and shares out  *)
(*                 at least one element                                    *)
(*            OptionInv  verbose > 0 only where the interface has a        *)
(*                 verbose argument; a call in an OpenMP environment lies  *)
(*                 in EnvScope (large size) and the environment's team may *)
(*                 differ from omp_get_max_threads()                       *)
(*            ValueInv  a call with non-finite data lies in FvScope, names *)
(*                 a kernel with float data, carries no verbose / thread   *)
(*                 count / environment, and keeps the preconditions that   *)
(*                 are stated on values (cluster1d: ar sorted by order -   *)
(*                 only a constant infinite list)                          *)
(*            WrapperInv  the allocation rule of the overlap callers       *)
(*                 (tmp = max(capacity, pixels, n1, n2) + 1 entries)       *)
(*                 satisfies compress_duplicates' precondition CdPre for   *)
(*                 every label numbering of the lattice (small shapes:     *)
(*                 evaluated on the materialised labels)                   *)
(*            Emit  prints one JSON line per descriptor; descriptors with  *)
(*                 <= 16 pixels / <= 4 entries carry the materialised      *)
(*                 arrays (masks, labels by the independent closure        *)
(*                 definition, index arrays, expected counts) so that the  *)
(*                 harness's array generator is bound to this module       *)
(* ASSUME     the kernel families partition PyfFunctions \ Exempt (the     *)
(*            list transcribed from the pyf; the harness compares it with  *)
(*            the attributes of the real module), every kernel has an      *)
(*            Outputs entry and at least one well-formed descriptor;       *)
(*            every kernel of ParK meets each relation one / gtE / ndiv /  *)
(*            div / div64 between thread count and trip count somewhere in *)
(*            its lattice (the harness re-counts this on the executed      *)
(*            calls); the HugeShapes are exactly where Tiles fails; every  *)
(*            integer scalar argument is a lattice dimension with more     *)
(*            than one value; every OpenMP environment may deliver a team  *)
(*            other than omp_get_max_threads() and EnvNs holds more chunks *)
(*            than every thread limit                                      *)
(* bounds     Thorough = FALSE/TRUE selects the shape, size and thread     *)
(*            count sets                                                   *)
(***************************************************************************)
EXTENDS Integers, Sequences, FiniteSets, TLC, Json

CONSTANTS Thorough, EmitOn

\* ---- the interface, transcribed from src/_cImageD11.pyf --------------------------------
PyfFunctions ==
  {"connectedpixels", "blobproperties", "bloboverlaps", "blob_moments", "clean_mask", "make_clean_mask",
   "localmaxlabel", "splat", "cimaged11_omp_set_num_threads", "cimaged11_omp_get_max_threads", "mask_to_coo",
   "sparse_is_sorted", "sparse_connectedpixels", "sparse_connectedpixels_splat", "sparse_blob2Dproperties",
   "sparse_smooth", "sparse_localmaxlabel", "sparse_overlaps", "compress_duplicates", "coverlaps",
   "tosparse_u16", "tosparse_u32", "tosparse_f32", "verify_rounding", "closest_vec", "closest", "score",
   "score_and_refine", "score_and_assign", "refine_assigned", "put_incr64", "put_incr32", "cluster1d",
   "score_gvec_z", "misori_cubic", "misori_orthorhombic", "misori_tetragonal", "misori_monoclinic",
   "count_shared", "compute_geometry", "compute_gv", "compute_xlylzl", "quickorient",
   "uint16_to_float_darksub", "uint16_to_float_darkflm", "frelon_lines", "frelon_lines_sub",
   "array_mean_var_cut", "array_mean_var_msk", "array_stats", "array_histogram", "reorder_u16_a32",
   "reorder_f32_a32", "reorderlut_u16_a32", "reorderlut_f32_a32", "reorder_u16_a32_a16", "bgcalc"}
Exempt == {"cimaged11_omp_set_num_threads", "cimaged11_omp_get_max_threads"}     \* thread setters: no array

ImgK    == {"connectedpixels", "blobproperties", "bloboverlaps", "clean_mask", "make_clean_mask", "localmaxlabel",
            "mask_to_coo", "tosparse_u16", "tosparse_u32", "tosparse_f32", "frelon_lines", "frelon_lines_sub",
            "bgcalc", "reorder_u16_a32_a16", "splat"}
SparseK == {"sparse_is_sorted", "sparse_connectedpixels", "sparse_connectedpixels_splat", "sparse_blob2Dproperties",
            "sparse_smooth", "sparse_localmaxlabel", "sparse_overlaps", "coverlaps"}
PeakK   == {"score", "score_and_refine", "score_and_assign", "refine_assigned", "score_gvec_z", "compute_gv",
            "compute_geometry", "compute_xlylzl", "closest_vec", "closest", "cluster1d"}
VecK    == {"compress_duplicates", "count_shared", "put_incr32", "put_incr64", "reorder_u16_a32", "reorder_f32_a32",
            "reorderlut_u16_a32", "reorderlut_f32_a32", "uint16_to_float_darksub", "uint16_to_float_darkflm",
            "array_mean_var_cut", "array_mean_var_msk", "array_stats", "array_histogram", "blob_moments"}
FixK    == {"misori_cubic", "misori_orthorhombic", "misori_tetragonal", "misori_monoclinic", "quickorient",
            "verify_rounding"}
Kernels == ImgK \cup SparseK \cup PeakK \cup VecK \cup FixK

ASSUME Kernels = PyfFunctions \ Exempt
ASSUME Cardinality(ImgK) + Cardinality(SparseK) + Cardinality(PeakK) + Cardinality(VecK) + Cardinality(FixK)
         = Cardinality(Kernels)                                        \* the families are pairwise disjoint
ASSUME Cardinality(Kernels) = 55

\* ---- the Python callers that allocate the kernels' work arrays (ImageD11/sparseframe.py, ImageD11/labelimage.py) ------
\*  py:overlaps_linear   sparseframe.overlaps_linear   (caching object: ki kj ect tj of nnzmax, tmp of nnzmax + 1 entries)
\*  py:overlaps_matrix   sparseframe.overlaps_matrix   (caching object: matmem npkmax^2, results 3 npkmax^2)
\*  py:overlaps          sparseframe.overlaps          (tmp of max(n1, n2) + 1 entries)
\*  py:scan_cplabel / py:scan_lmlabel   SparseScan.cplabel / lmlabel (slices of the scan's arrays, vmx / imx of nnz.max())
\*  py:labelimage        labelimage.labelimage peaksearch / mergelast / finalise over three frames (verbose attribute)
Callers == {"py:overlaps_linear", "py:overlaps_matrix", "py:overlaps", "py:sparse_connected_pixels", "py:sparse_localmax",
            "py:sparse_smooth", "py:sparse_moments", "py:from_data_mask", "py:from_data_cut", "py:scan_cplabel",
            "py:scan_lmlabel", "py:labelimage"}
Calls(w) == CASE w = "py:overlaps_linear"         -> {"sparse_overlaps", "compress_duplicates"}
              [] w = "py:overlaps_matrix"         -> {"coverlaps"}
              [] w = "py:overlaps"                -> {"sparse_overlaps", "compress_duplicates"}
              [] w = "py:sparse_connected_pixels" -> {"sparse_connectedpixels"}
              [] w = "py:sparse_localmax"         -> {"sparse_localmaxlabel"}
              [] w = "py:sparse_smooth"           -> {"sparse_smooth"}
              [] w = "py:sparse_moments"          -> {"sparse_blob2Dproperties"}
              [] w = "py:from_data_mask"          -> {"mask_to_coo"}
              [] w = "py:from_data_cut"           -> {"tosparse_u16", "tosparse_f32"}
              [] w = "py:scan_cplabel"            -> {"sparse_connectedpixels"}
              [] w = "py:scan_lmlabel"            -> {"sparse_smooth", "sparse_localmaxlabel"}
              [] w = "py:labelimage"              -> {"connectedpixels", "blobproperties", "bloboverlaps", "blob_moments"}
ASSUME Callers \cap Kernels = {} /\ \A w \in Callers : Calls(w) # {} /\ Calls(w) \subseteq Kernels
\* shapes and contents of the callers' lattice: what matters is the relation of label values to pixel counts and
\* capacities, not the width of the image
WShapes == {<<1, 3>>, <<2, 2>>, <<3, 3>>, <<2, 5>>, <<4, 4>>, <<2, 4096>>}
WContents == {"empty", "full", "chk0", "dots", "hstr", "br", "gap", "diag"}
AllK == Kernels \cup Callers

Fam(k) == IF k \in ImgK THEN "img" ELSE IF k \in SparseK THEN "sparse" ELSE IF k \in PeakK THEN "peak"
          ELSE IF k \in VecK THEN "vec" ELSE IF k \in Callers THEN "wrap" ELSE "fix"

\* ---- the scalar (non-array, non-hidden, non-output) arguments of the interface: <<name, type, dimension>> ---------------
\*   dimension: "par" parameter classes Pars(k), "opt" Opts(k), "vb" Verbs(k), "n" Ns(k), "shape" the image shape,
\*              "m" Ms(k, n), "fixed" one value in the harness (real-valued physical constants only)
ScalarArgs(k) ==
  CASE k = "connectedpixels"              -> {<<"threshold", "real", "par">>, <<"con8", "int", "opt">>, <<"verbose", "int", "vb">>}
    [] k = "blobproperties"               -> {<<"np", "int", "par">>, <<"omega", "real", "fixed">>, <<"verbose", "int", "vb">>}
    [] k = "bloboverlaps"                 -> {<<"npk1", "int", "par">>, <<"npk2", "int", "par">>, <<"verbose", "int", "vb">>}
    [] k = "make_clean_mask"              -> {<<"cut", "real", "par">>}
    [] k = "splat"                        -> {<<"npx", "int", "opt">>}
    [] k = "sparse_connectedpixels"       -> {<<"threshold", "real", "par">>}
    [] k = "sparse_connectedpixels_splat" -> {<<"th", "real", "par">>, <<"ni", "int", "shape">>, <<"nj", "int", "shape">>}
    [] k = "sparse_blob2Dproperties"      -> {<<"npk", "int", "par">>}
    [] k = "tosparse_u16"                 -> {<<"cut", "int", "par">>}
    [] k \in {"tosparse_u32", "tosparse_f32"} -> {<<"cut", "real", "par">>}
    [] k = "verify_rounding"              -> {<<"n", "int", "n">>}
    [] k \in {"score", "score_and_refine"} -> {<<"tol", "real", "fixed">>}
    [] k = "score_and_assign"             -> {<<"tol", "real", "fixed">>, <<"label", "int", "opt">>}
    [] k = "refine_assigned"              -> {<<"label", "int", "opt">>}
    [] k \in {"put_incr32", "put_incr64"} -> {<<"boundscheck", "int", "opt">>}
    [] k = "cluster1d"                    -> {<<"tol", "real", "fixed">>}
    [] k = "score_gvec_z"                 -> {<<"recompute", "int", "opt">>}
    [] k \in {"compute_geometry", "compute_gv"}
                                          -> {<<"omegasign", "real", "opt">>, <<"wvln", "real", "fixed">>,
                                              <<"wedge", "real", "par">>, <<"chi", "real", "par">>}
    [] k \in {"frelon_lines", "frelon_lines_sub"} -> {<<"cut", "real", "par">>}
    [] k \in {"array_mean_var_cut", "array_mean_var_msk"}
                                          -> {<<"n", "int", "opt">>, <<"cut", "real", "fixed">>, <<"verbose", "int", "vb">>}
    [] k = "array_histogram"              -> {<<"low", "real", "fixed">>, <<"high", "real", "fixed">>}
    [] k = "bgcalc"                       -> {<<"gain", "real", "fixed">>, <<"sp", "real", "fixed">>, <<"st", "real", "fixed">>}
    \* (`intent( hidden )` in the pyf hides nothing: ni, nj are optional arguments; the wrapper accepts only the lengths)
    [] k = "count_shared"                 -> {<<"ni", "int", "n">>, <<"nj", "int", "m">>}
    [] OTHER                              -> {}
\* every integer scalar - a flag, an option, a count - is a dimension of the lattice
ASSUME \A k \in Kernels : \A a \in ScalarArgs(k) : a[2] = "int" => a[3] # "fixed"
VerbK == {k \in Kernels : \E a \in ScalarArgs(k) : a[3] = "vb"}
Verb == {0, 1, 2, 11}           \* the sources test verbose != 0, verbose > 0, verbose > 1, verbose > 10
Verbs(k) == IF k \in VerbK \/ k = "py:labelimage" THEN Verb ELSE {0}

\* ---- preconditions of the kernels that the f2py layer does NOT enforce (it checks ranks, dtypes and the extents tied
\*      together by a shared dimension name; a `:` / `*` extent, the values inside an index array and the relation
\*      between a label array and a capacity are the caller's duty).  The harness asserts them on the arguments of
\*      every call that a Python caller (Callers, and the callers driven by the re-used kernel models) makes.
Extents(k) ==
  CASE k = "compress_duplicates" -> {"n >= 1", "0 <= i, j", "max(i, j) < len(tmp)"}      \* tmp is a histogram indexed by LABEL VALUE
    [] k = "coverlaps"           -> {"coo strictly sorted", "labels1 in 1..npk1", "labels2 in 1..npk2",
                                     "len(results) >= 3 * overlapping label pairs"}
    [] k = "bloboverlaps"        -> {"rows(results1) >= npk1", "rows(results2) >= npk2", "labels1 in 0..npk1", "labels2 in 0..npk2"}
    [] k = "connectedpixels"     -> {"nf >= 2"}
    [] k = "localmaxlabel"       -> {"nf >= 2"}
    [] k \in {"clean_mask", "make_clean_mask"} -> {"ns >= 2"}
    [] k \in {"sparse_connectedpixels", "sparse_localmaxlabel", "sparse_smooth", "sparse_overlaps"} -> {"coo strictly sorted"}
    [] k = "sparse_connectedpixels_splat" -> {"coo strictly sorted", "i < ni, j < nj"}
    [] k = "sparse_blob2Dproperties" -> {"labels >= 0"}
    [] k = "tosparse_u32"        -> {"len(row), len(col), len(val) >= selected pixels"}
    [] k \in {"put_incr32", "put_incr64"} -> {"boundscheck = 0 => 0 <= ind < m"}
    [] k \in {"reorder_u16_a32", "reorder_f32_a32", "reorderlut_u16_a32", "reorderlut_f32_a32"} -> {"0 <= adr < N"}
    [] k = "reorder_u16_a32_a16" -> {"0 <= adr0 + cumsum(adr1) < ns * nf"}
    [] k = "cluster1d"           -> {"0 <= order < n"}
    [] k = "array_histogram"     -> {"nhist >= 1"}
    [] OTHER                     -> {}

\* ---- what the interface promises on return: output -> how much of it is defined -----------
\*   "all"     every cell written          "prefix"  the first <return value> cells (rows)
\*   "ret"     scalar return value(s) defined and not NaN
\*   "img"     every cell of an in/out image defined
Outputs(k) ==
  CASE k = "connectedpixels"              -> [labels |-> "all", ret |-> "ret"]
    [] k = "blobproperties"               -> [results |-> "all"]
    [] k = "bloboverlaps"                 -> [labels2 |-> "all", results1 |-> "all", results2 |-> "all", ret |-> "ret"]
    [] k = "blob_moments"                 -> [results |-> "all"]
    [] k = "clean_mask"                   -> [ret_mask |-> "all", ret |-> "ret"]
    [] k = "make_clean_mask"              -> [msk |-> "all", ret_mask |-> "all", ret |-> "ret"]
    [] k = "localmaxlabel"                -> [labels |-> "all", ret |-> "ret"]
    [] k = "splat"                        -> [rgba |-> "all"]
    [] k = "mask_to_coo"                  -> [i |-> "all", j |-> "all", w |-> "all", ret |-> "ret"]
    [] k = "sparse_is_sorted"             -> [ret |-> "ret"]
    [] k = "sparse_connectedpixels"       -> [labels |-> "all", ret |-> "ret"]
    [] k = "sparse_connectedpixels_splat" -> [labels |-> "all", ret |-> "ret"]
    [] k = "sparse_blob2Dproperties"      -> [results |-> "all"]
    [] k = "sparse_smooth"                -> [s |-> "all"]
    [] k = "sparse_localmaxlabel"         -> [labels |-> "all", ret |-> "ret"]
    [] k = "sparse_overlaps"              -> [k1 |-> "all", k2 |-> "all", ret |-> "ret"]
    [] k = "compress_duplicates"          -> [i |-> "prefix", j |-> "prefix", oi |-> "prefix", ret |-> "ret"]
    [] k = "coverlaps"                    -> [mat |-> "all", results |-> "prefix", ret |-> "ret"]
    [] k \in {"tosparse_u16", "tosparse_u32", "tosparse_f32"}
                                          -> [row |-> "prefix", col |-> "prefix", val |-> "prefix", ret |-> "ret"]
    [] k = "verify_rounding"              -> [ret |-> "ret"]
    [] k = "closest_vec"                  -> [ic |-> "all"]
    [] k = "closest"                      -> [ret |-> "ret"]
    [] k = "score"                        -> [ret |-> "ret"]
    [] k = "score_and_refine"             -> [ubi |-> "all", ret |-> "ret"]
    [] k = "score_and_assign"             -> [drlv2 |-> "all", labels |-> "all", ret |-> "ret"]
    [] k = "refine_assigned"              -> [ubi |-> "all", ret |-> "ret"]
    [] k \in {"put_incr64", "put_incr32"} -> [data |-> "all"]
    [] k = "cluster1d"                    -> [ids |-> "all", avgs |-> "prefix", ret |-> "ret"]
    [] k = "score_gvec_z"                 -> [g0 |-> "all", g1 |-> "all", g2 |-> "all", e |-> "all"]
    [] k \in {"misori_cubic", "misori_orthorhombic", "misori_tetragonal", "misori_monoclinic"}
                                          -> [ret |-> "ret"]
    [] k = "count_shared"                 -> [ret |-> "ret"]
    [] k = "compute_geometry"             -> [out |-> "all"]
    [] k = "compute_gv"                   -> [gv |-> "all"]
    [] k = "compute_xlylzl"               -> [xlylzl |-> "all"]
    [] k = "quickorient"                  -> [ubi |-> "all"]
    [] k \in {"uint16_to_float_darksub", "uint16_to_float_darkflm"}
                                          -> [img |-> "all"]
    [] k = "frelon_lines"                 -> [img |-> "all"]
    [] k = "frelon_lines_sub"             -> [img |-> "all"]
    [] k = "array_mean_var_cut"           -> [ret |-> "ret"]
    [] k = "array_mean_var_msk"           -> [msk |-> "all", ret |-> "ret"]
    [] k = "array_stats"                  -> [ret |-> "ret"]
    [] k = "array_histogram"              -> [hist |-> "all"]
    [] k \in {"reorder_u16_a32", "reorder_f32_a32", "reorderlut_u16_a32", "reorderlut_f32_a32",
              "reorder_u16_a32_a16"}      -> [out |-> "all"]
    [] k = "bgcalc"                       -> [bg |-> "all", msk |-> "all"]
ASSUME \A k \in Kernels : DOMAIN Outputs(k) # {}

\* ---- shapes, contents, sizes ---------------------------------------------------------------
Chunk == 4096                 \* schedule(static, 4096) in score_and_assign; a multiple is a chunk border
Shapes == {<<1, 1>>, <<1, 3>>, <<3, 1>>, <<2, 2>>, <<2, 3>>, <<3, 2>>, <<3, 3>>, <<2, 5>>, <<5, 2>>, <<4, 4>>,
           <<2, Chunk>>, <<Chunk, 2>>, <<2, 65535>>}                                  \* 65535: the uint16 limit
          \cup (IF Thorough THEN {<<1, 2>>, <<2, 1>>, <<3, 5>>, <<1, Chunk>>, <<Chunk, 1>>, <<3, Chunk>>, <<5, 5>>,
                                  <<4, 7>>, <<7, 4>>, <<3, 2 * Chunk>>} ELSE {})
BigShapes == {<<150, 260>>, <<262, 260>>} \cup (IF Thorough THEN {<<512, 512>>, <<300, 300>>} ELSE {})   \* 150x260: one growth of the disjoint set (> 16384 provisional labels), 262x260: two (> 32768)
BigContents == {"chk0", "dots", "full", "hstr"}
\* thin strips, 3 or 5 pixels across or high, pixel counts 192 .. 5005 (quick): a thread's share of npx / nt pixels
\* is shorter than, as long as, or several rows longer than one image row, and what is left over, npx % nt, reaches
\* from nothing (64 * w over 16 threads, 1001 * w over 7) to several whole rows (345 * 3 = 64 * 16 + 11)
StripShapes == LET L == {64, 211, 345, 1001} \cup (IF Thorough THEN {4099} ELSE {})
                   W == {3, 5} \cup (IF Thorough THEN {2, 9, 20} ELSE {})
               IN {<<n, w>> : n \in L, w \in W} \cup {<<w, n>> : n \in L, w \in W}

Contents == {"empty", "full", "chk0", "chk1", "tl", "tr", "bl", "br", "ctr", "row0", "rowN", "col0", "colN",
             "hstr", "vstr", "diag", "gap", "dots", "corners"}
On(cls, ns, nf, r, c) ==
  CASE cls = "empty"   -> FALSE
    [] cls = "full"    -> TRUE
    [] cls = "chk0"    -> (r + c) % 2 = 0
    [] cls = "chk1"    -> (r + c) % 2 = 1
    [] cls = "tl"      -> r = 0 /\ c = 0
    [] cls = "tr"      -> r = 0 /\ c = nf - 1
    [] cls = "bl"      -> r = ns - 1 /\ c = 0
    [] cls = "br"      -> r = ns - 1 /\ c = nf - 1
    [] cls = "ctr"     -> r = ns \div 2 /\ c = nf \div 2
    [] cls = "row0"    -> r = 0
    [] cls = "rowN"    -> r = ns - 1
    [] cls = "col0"    -> c = 0
    [] cls = "colN"    -> c = nf - 1
    [] cls = "hstr"    -> r % 2 = 0
    [] cls = "vstr"    -> c % 2 = 0
    [] cls = "diag"    -> (r + 2 * c) % 3 = 0
    [] cls = "gap"     -> r = 0 \/ r = ns - 1            \* occupied rows with empty rows between them
    [] cls = "dots"    -> r % 2 = 0 /\ c % 2 = 0         \* isolated pixels: one provisional label each
    [] cls = "corners" -> (r = 0 \/ r = ns - 1) /\ (c = 0 \/ c = nf - 1)
FewPixels == {"empty", "tl", "tr", "bl", "br", "ctr", "corners", "col0", "colN"}
\* pixel values: data = Val on the pixels of the content, 0 elsewhere
Val(r, c) == 1 + ((3 * r + 5 * c) % 7)
\* thresholds / cuts relative to the data 0, 1..7
ThrVal(p) == CASE p = "neg" -> -1 [] p = "zero" -> 0 [] p = "mid" -> 3 [] p = "max" -> 7 [] p = "huge" -> 1000
Thr == {"neg", "zero", "mid", "max", "huge"}

PeakNs == {0, 1, 2, 3, Chunk - 1, Chunk, Chunk + 1, 2 * Chunk + 1} \cup (IF Thorough THEN {4 * Chunk, 100003} ELSE {})
SmallNs == {0, 1, 2, 3}

\* ---- float data inputs and scratch arguments (argument names of the pyf, lower case as f2py shows them) ------------
\*  data = what a measurement delivers (pixel values, dark / flat images, g-vectors, peak positions, lists of values);
\*  the 3 x 3 matrices (ubi, ub, u, u1, u2, bt, r), translations and detector parameters (t, p, dist), the accumulated
\*  moments (results, results1, results2) and the running best-score column drlv2 are parameters / state, not data
FloatIn(k) ==
  CASE k \in {"connectedpixels", "blobproperties", "localmaxlabel"}         -> {"data"}
    [] k \in {"make_clean_mask", "tosparse_f32", "frelon_lines", "array_mean_var_cut", "array_mean_var_msk",
              "array_stats", "array_histogram", "bgcalc"}                    -> {"img"}
    [] k = "frelon_lines_sub"                                               -> {"img", "drk"}
    [] k = "uint16_to_float_darksub"                                        -> {"drk"}
    [] k = "uint16_to_float_darkflm"                                        -> {"drk", "flm"}
    [] k \in {"sparse_connectedpixels", "sparse_connectedpixels_splat", "sparse_blob2Dproperties", "sparse_smooth",
              "sparse_localmaxlabel"}                                       -> {"v"}
    [] k = "splat"                                                          -> {"gve"}
    [] k = "closest_vec"                                                    -> {"x"}
    [] k = "closest"                                                        -> {"x", "v"}
    [] k \in {"score", "score_and_refine", "score_and_assign", "refine_assigned", "score_gvec_z"} -> {"gv"}
    [] k \in {"put_incr32", "put_incr64"}                                   -> {"vals"}
    [] k = "cluster1d"                                                      -> {"ar"}
    [] k \in {"compute_geometry", "compute_gv"}                             -> {"xlylzl", "omega"}
    [] k = "compute_xlylzl"                                                 -> {"s", "f"}
    [] k \in {"reorder_f32_a32", "reorderlut_f32_a32"}                      -> {"data"}
    \* callers: the intensities of the frames they are handed
    [] k \in {"py:sparse_connected_pixels", "py:sparse_localmax", "py:sparse_smooth", "py:sparse_moments",
              "py:scan_cplabel", "py:scan_lmlabel"}                         -> {"intensity"}
    [] OTHER                                                                -> {}
WorkArrays(k) ==
  CASE k = "sparse_localmaxlabel"         -> {"mv", "imv"}
    [] k = "localmaxlabel"                -> {"wrk"}
    [] k = "sparse_connectedpixels_splat" -> {"z"}
    [] k = "compress_duplicates"          -> {"oj", "tmp"}
    [] OTHER                              -> {}
ASSUME \A k \in Kernels : WorkArrays(k) \cap (DOMAIN Outputs(k)) = {}     \* scratch is not a promised output
FvK == {k \in AllK : FloatIn(k) # {}}
FV == {"nan", "pinf", "ninf"} \cup (IF Thorough THEN {"nzero", "denorm"} ELSE {})
FvAt == {"odd", "all"} \cup (IF Thorough THEN {"last"} ELSE {})
\* the elements of a flattened array of N elements that carry the value
FvOn(at, N, t) == CASE at = "odd" -> t % 2 = 1 [] at = "all" -> TRUE [] at = "last" -> t = N - 1
FvShapes == {<<1, 3>>, <<2, 2>>, <<3, 3>>, <<2, 5>>, <<4, 4>>} \cup (IF Thorough THEN {<<1, 1>>, <<3, 1>>, <<2, 3>>, <<3, 2>>, <<5, 2>>, <<3, 5>>, <<5, 5>>} ELSE {})
\* preconditions stated on values survive: cluster1d wants ar sorted by order (a constant list of +inf / -inf is)
\* localmaxlabel: an image with a NaN pixel next to finite ones makes the walk to the maximum cycle (neighbormax's
\* pick() never replaces a NaN column maximum: a pixel points at its NaN neighbour, which points back) - the kernel does
\* not return (shown on the real code, reported as a defect of its own); the call cannot be judged, +inf / -inf can
FvOK(k, fv, at) == /\ k = "cluster1d" => (fv # "nan" /\ at = "all")
                   /\ k = "localmaxlabel" => fv # "nan"

\* ---- per kernel: which choices exist ----------------------------------------------------------
\* minimum image dimensions, read off the C source (not off the pyf, which declares none):
\*  connectedpixels  nf >= 2   (row end reads labels[irp - 1], connectedpixels.c:150-156; one row is fine)
\*  clean_mask       ns >= 2   (first row reads msk[q + nf], last row msk[q - nf], connectedpixels.c:494,543)
\*  localmaxlabel    nf >= 2   (neighbormax reads im[p + dim1] with p = i + 1, localmaxlabel.c:45-53)
MinR(k) == IF k \in {"clean_mask", "make_clean_mask"} THEN 2 ELSE 1
MinC(k) == IF k \in {"connectedpixels", "localmaxlabel"} THEN 2 ELSE 1
Big(k)  == k \in {"connectedpixels", "localmaxlabel", "mask_to_coo", "blobproperties", "sparse_connectedpixels",
                  "sparse_connectedpixels_splat", "sparse_localmaxlabel", "sparse_smooth", "sparse_blob2Dproperties",
                  "clean_mask"}
C2s(k) == CASE k = "bloboverlaps"                                     -> {"same", "full", "empty", "chk1", "rowN"}
            [] k \in {"tosparse_u16", "tosparse_u32", "tosparse_f32"} -> {"full", "empty", "chk0"}
            [] k \in {"sparse_overlaps", "coverlaps"}                 -> {"same", "full", "chk1", "br"}
            [] k \in {"py:overlaps_linear", "py:overlaps_matrix", "py:overlaps", "py:labelimage"}
                                                                      -> {"same", "full", "chk1", "br", "empty"}
            [] k \in {"py:scan_cplabel", "py:scan_lmlabel"}           -> {"same", "chk1", "empty"}
            [] OTHER                                                  -> {"-"}
Ns(k) == CASE k \in {"score", "score_and_refine", "score_and_assign", "refine_assigned", "score_gvec_z",
                     "compute_gv", "compute_geometry", "compute_xlylzl"}      -> PeakNs
           [] k = "closest_vec"                                               -> {0, 1, 2, 3, Chunk, Chunk + 1}
           [] k = "closest"                                                   -> PeakNs
           [] k = "cluster1d"                                                 -> PeakNs
           [] k \in {"compress_duplicates", "put_incr32", "put_incr64", "reorder_u16_a32", "reorder_f32_a32",
                     "reorderlut_u16_a32", "reorderlut_f32_a32", "uint16_to_float_darksub",
                     "uint16_to_float_darkflm", "array_mean_var_cut", "array_mean_var_msk", "array_stats",
                     "array_histogram"}                                       -> PeakNs
           [] k = "count_shared"                                              -> {0, 1, 2, 3, Chunk + 1}
           [] k = "blob_moments"                                              -> {0, 1, 2, 3, 100}
           [] k = "splat"                                                     -> {0, 1, 2, 5}
           [] k = "verify_rounding"                                           -> {0, 1, 20, 100000}
           [] OTHER                                                           -> {0}
\* second size: dim / nv / nj / m / nhist / nt slack
Ms(k, n) == CASE k = "closest_vec"                  -> {1, 3}
              [] k = "closest"                      -> {0, 1, 3}
              [] k = "count_shared"                 -> {0, 1, 2, 3, Chunk + 1}
              [] k \in {"put_incr32", "put_incr64"} -> {1, n, n + 1} \ {0}
              [] k = "array_histogram"              -> {0, 1, 2, 16}
              [] k = "compress_duplicates"          -> {0, 1}
              [] OTHER                              -> {0}
Pars(k) ==
  CASE k \in {"connectedpixels", "make_clean_mask"}                   -> Thr
    [] k \in {"sparse_connectedpixels", "sparse_connectedpixels_splat"} -> {"zero", "mid", "max"}
    [] k = "blobproperties"                                           -> {"exact", "slack", "under", "zero"}
    [] k \in {"bloboverlaps", "coverlaps"}                            -> {"exact", "slack"}
    [] k = "sparse_blob2Dproperties"                                  -> {"exact", "slack", "zero"}
    [] k = "clean_mask"                                               -> {"one", "big"}
    [] k \in {"localmaxlabel", "sparse_localmaxlabel", "sparse_smooth"} -> {"ramp", "flat"}
    [] k = "mask_to_coo"                                              -> {"exact", "plus1", "minus1"}
    [] k \in {"tosparse_u16", "tosparse_u32", "tosparse_f32"}         -> {"zero", "mid", "max"}
    [] k \in {"frelon_lines", "frelon_lines_sub"}                     -> {"neg", "mid", "huge"}
    [] k = "reorder_u16_a32_a16"                                      -> {"ident", "revrow", "revall"}
    [] k = "splat"                                                    -> {"centre", "edge", "outside", "huge"}
    [] k = "sparse_is_sorted"                                         -> {"sorted", "reversed", "dup"}
    [] k \in {"score", "score_and_refine", "score_and_assign", "refine_assigned"} -> {"none", "some", "all"}
    [] k \in {"compute_gv", "compute_geometry", "compute_xlylzl"}     -> {"plain", "tilted"}
    [] k = "cluster1d"                                                -> {"one", "each", "mixed"}
    [] k = "count_shared"                                             -> {"same", "disjoint", "interleave", "dups"}
    [] k = "compress_duplicates"                                      -> {"same", "distinct", "rev"}
    [] k \in {"put_incr32", "put_incr64"}                             -> {"zero", "last", "ramp", "oob"}
    [] k \in {"reorder_u16_a32", "reorder_f32_a32"}                   -> {"ident", "rev", "rot"}
    [] k \in {"reorderlut_u16_a32", "reorderlut_f32_a32"}             -> {"ident", "rev", "rot", "const0", "constlast"}
    [] k \in {"array_mean_var_cut", "array_mean_var_msk", "array_stats"} -> {"const", "ramp", "neg", "spike"}
    [] k = "array_histogram"                                          -> {"inside", "edges", "outside"}
    [] k \in {"misori_cubic", "misori_orthorhombic", "misori_tetragonal", "misori_monoclinic"} -> {"ident", "rot"}
    [] k = "blob_moments"                                             -> {"zero", "filled"}
    \* callers: how the labels handed over are numbered (LabCls below) / thresholds
    [] k = "py:overlaps_linear"                                       -> {"frame", "atcap", "above", "far"}
    [] k = "py:overlaps_matrix"                                       -> {"frame"}
    [] k = "py:overlaps"                                              -> {"frame", "far"}
    [] k \in {"py:sparse_connected_pixels", "py:from_data_cut", "py:scan_cplabel"} -> {"zero", "mid", "max"}
    [] k \in {"py:sparse_localmax", "py:sparse_smooth", "py:scan_lmlabel"} -> {"ramp", "flat"}
    [] k = "py:labelimage"                                            -> {"zero", "mid"}
    [] OTHER                                                          -> {"-"}
Opts(k) ==
  CASE k = "connectedpixels"                       -> {0, 1}          \* con8
    [] k \in {"put_incr32", "put_incr64"}          -> {0, 1}          \* boundscheck
    [] k = "score_gvec_z"                          -> {0, 1}          \* recompute
    [] k = "splat"                                 -> {0, 1, 2}       \* npx
    [] k \in {"tosparse_u32", "coverlaps"}         -> {0, 1}          \* 1: dimension(*) buffers exactly as long as needed
    [] k \in {"array_mean_var_cut", "array_mean_var_msk"} -> {1, 3}   \* n iterations
    [] k \in {"score_and_assign", "refine_assigned"} -> {1, 2}        \* label
    [] k \in {"compute_geometry", "compute_gv"}    -> {0, 1}          \* omegasign +1 / -1
    [] k \in {"py:overlaps_linear", "py:overlaps_matrix"} -> {0, 1, 2} \* capacity of the caching object: default / tight / 1
    [] k = "py:from_data_cut"                      -> {0, 1}          \* uint16 / float32 data
    [] k = "py:scan_cplabel"                       -> {0, 1}          \* countall
    [] k = "py:scan_lmlabel"                       -> {0, 1, 2, 3}    \* countall + 2 * smooth
    [] OTHER                                       -> {0}

ASSUME \A k \in Kernels : (\E a \in ScalarArgs(k) : a[3] = "opt") => Cardinality(Opts(k)) > 1
ASSUME \A k \in Kernels : (\E a \in ScalarArgs(k) : a[3] = "par") => Cardinality(Pars(k)) > 1
ASSUME \A k \in Kernels : (\E a \in ScalarArgs(k) : a[3] = "n") => Cardinality(Ns(k)) > 1

\* ---- index / value classes of the 1-D kernels (formulas shared with the harness generator) ----
PutInd(par, m, t) == CASE par = "zero" -> 0 [] par = "last" -> m - 1 [] par = "ramp" -> (7 * t + 3) % m
                       [] par = "oob"  -> IF t % 3 = 0 THEN -1 ELSE IF t % 3 = 1 THEN m ELSE t % m
Perm(par, n, t) == CASE par = "ident" -> t [] par = "rev" -> n - 1 - t [] par = "rot" -> (t + 1) % n
                     [] par = "const0" -> 0 [] par = "constlast" -> n - 1
\* cluster1d: ar[t] = Level(n - 1 - t), order[i] = n - 1 - i, so ar[order[i]] = Level(i) is non-decreasing; tol = 1/2
Level(par, i) == CASE par = "one" -> 0 [] par = "each" -> i [] par = "mixed" -> i \div 2
ClAr(par, n, t) == Level(par, n - 1 - t)
ClOrder(n, i) == n - 1 - i
\* count_shared: two non-decreasing id lists
CsI(par, t) == CASE par = "same" -> t [] par = "disjoint" -> 2 * t [] par = "interleave" -> t [] par = "dups" -> 5
CsJ(par, u) == CASE par = "same" -> u [] par = "disjoint" -> 2 * u + 1 [] par = "interleave" -> 2 * u [] par = "dups" -> 5
\* compress_duplicates: label pairs
CdI(par, n, t) == CASE par = "same" -> 1 [] par = "distinct" -> t + 1 [] par = "rev" -> n - t
CdJ(par, n, t) == CASE par = "same" -> 1 [] par = "distinct" -> t + 1 [] par = "rev" -> 1 + (t % 2)
CdMax(par, n) == IF par = "same" THEN 1 ELSE n                  \* largest label of the pair list (n >= 1)
\* reorder_u16_a32_a16: adr0[i] first address of row i, adr1[i][j] increment before pixel j
A0(par, ns, nf, i) == CASE par = "ident" -> i * nf [] par = "revrow" -> (ns - 1 - i) * nf [] par = "revall" -> ns * nf - 1 - i * nf
A1(par, j) == IF j = 0 THEN 0 ELSE IF par = "revall" THEN -1 ELSE 1
A16Addr(par, ns, nf, i, j) == A0(par, ns, nf, i) + (IF par = "revall" THEN -j ELSE j)     \* a0 + sum of a1[i][0..j]

\* ---- OpenMP: who runs in parallel, with how many threads, sharing out what ---------------------------
\* kernels whose C body (or a helper it calls: neighbormax, clean_mask) holds a `#pragma omp parallel`; the harness
\* derives the same set from the source of the tree under test
ParK == {"compute_geometry", "compute_gv",                                              \* cdiffraction.c:62,143
         "closest_vec", "score_and_assign", "score_gvec_z",                             \* closest.c:142,374,640
         "connectedpixels", "clean_mask", "make_clean_mask",                            \* connectedpixels.c:173,482,506,580
         "localmaxlabel",                                                               \* localmaxlabel.c:59,152,200
         "mask_to_coo",                                                                 \* sparse_image.c:43,60
         "uint16_to_float_darksub", "uint16_to_float_darkflm", "frelon_lines", "frelon_lines_sub",
         "array_mean_var_cut", "array_mean_var_msk", "array_stats", "reorder_u16_a32", "reorder_f32_a32",
         "reorderlut_u16_a32", "reorderlut_f32_a32", "reorder_u16_a32_a16", "bgcalc"}   \* darkflat.c:53-582
ASSUME ParK \subseteq Kernels
\* thread counts: 1, small ones, primes that divide no shape of the lattice, the machine's 16, more than the machine has
NT == {1, 2, 3, 7, 16, 31, 64} \cup (IF Thorough THEN {4, 5, 8, 13, 32, 100} ELSE {})
\* one parameter class on the big / strip shapes and on every call with a chosen thread count
BigPars(k) == IF k \in {"frelon_lines", "frelon_lines_sub"} THEN {"mid"}
              ELSE IF k = "reorder_u16_a32_a16" THEN {"ident", "revall"}
              ELSE Pars(k) \cap {"zero", "exact", "one", "ramp", "-"}
ThreadShapes == {s \in Shapes : s[1] * s[2] <= 2 * Chunk} \cup StripShapes
\* a frame of 2^24 pixels on 128 threads (a 16-Mpixel detector on a 128-thread node): npx * nt = 2^31
HugeShapes == IF Thorough THEN {<<4096, 4096>>} ELSE {}
HugeNT == 128
\* calls that carry a thread count: every non-empty list size / parameter class of the 1-D kernels; images on the small and the
\* strip shapes with the four dense contents and one parameter class
ThreadScope(x) == /\ x.k \in ParK /\ x.vb = 0
                  /\ Fam(x.k) = "img" => /\ <<x.ns, x.nf>> \in ThreadShapes \cup HugeShapes
                                         /\ x.c1 \in BigContents /\ x.par \in BigPars(x.k)
                  /\ Fam(x.k) # "img" => x.n >= 1                 \* (empty lists are refused by the wrappers)
\* the trip count of the (widest) loop the threads share out: pixels, image rows, list entries
PxLoop(k) == k \in {"clean_mask", "make_clean_mask", "localmaxlabel"}
Trip(x) == IF PxLoop(x.k) THEN x.ns * x.nf ELSE IF Fam(x.k) = "img" THEN x.ns ELSE x.n
NtTag(E, nt) == IF nt = 1 THEN "one" ELSE IF nt > E THEN "gtE" ELSE IF E % nt # 0 THEN "ndiv"
                ELSE IF (E \div nt) % 64 = 0 THEN "div64" ELSE "div"
ThreadTags == {"one", "gtE", "ndiv", "div64", "div"}
\* the hand-written split of localmaxlabel.c:215-216: thread t walks the pixels Lo(t) .. Lo(t + 1) - 1
Lo(E, nt, t) == (E * t) \div nt
Tiles(E, nt) == /\ E <= 2147483647 \div nt                                  \* npx * (tid + 1) is formed in `int`
                /\ Lo(E, nt, 0) = 0 /\ Lo(E, nt, nt) = E
                /\ \A t \in 0..(nt - 1) : Lo(E, nt, t) <= Lo(E, nt, t + 1)    \* consecutive ranges: a partition of 0..E-1
PartFits(x) == (x.k = "localmaxlabel" /\ x.nt > 0) => Tiles(x.ns * x.nf, x.nt)
ASSUME \A s \in HugeShapes : ~Tiles(s[1] * s[2], HugeNT)        \* (the first conjunct fails; the rest is not evaluated)

\* ---- OpenMP environments of the process: the team a parallel region gets is not omp_get_max_threads() ---------------
\* num = OMP_NUM_THREADS, limit = OMP_THREAD_LIMIT (0: none), dyn = OMP_DYNAMIC, sched = OMP_SCHEDULE ("-": none).
\* A kernel may size per-thread ranges / buffers only by what it is given inside the region (omp_get_num_threads()):
\* its outputs do not depend on how many threads the runtime delivers (compared with the same call on one thread)
OmpEnvs == << [num |-> 8,  limit |-> 3, dyn |-> FALSE, sched |-> "-"],
              [num |-> 16, limit |-> 0, dyn |-> TRUE,  sched |-> "-"],
              [num |-> 5,  limit |-> 2, dyn |-> FALSE, sched |-> "dynamic,1"] >>
TeamMayDiffer(e) == (e.limit > 0 /\ e.limit < e.num) \/ e.dyn
ASSUME \A i \in DOMAIN OmpEnvs : TeamMayDiffer(OmpEnvs[i]) /\ OmpEnvs[i].num > 1
\* list sizes reserved for these calls: 8 and 24 chunks of 4096 and a remainder (a team of min(max_threads, chunks)
\* threads is larger than every thread limit above)
EnvNs == {8 * Chunk + 1, 24 * Chunk + 5}
EnvShapes == IF Thorough THEN {<<1024, 1024>>} ELSE {}
ASSUME \A e \in DOMAIN OmpEnvs : \A n \in EnvNs : OmpEnvs[e].limit > 0 => n \div Chunk > OmpEnvs[e].limit
HasEnvNs(k) == Fam(k) \in {"peak", "vec"} /\ (2 * Chunk + 1) \in Ns(k)      \* the kernels whose lists may be long
EnvOnly(x) == (Fam(x.k) \in {"peak", "vec"} /\ x.n \in EnvNs) \/ <<x.ns, x.nf>> \in EnvShapes
EnvScope(x) == /\ x.vb = 0 /\ Fam(x.k) \in {"img", "sparse", "peak", "vec"}
               /\ Fam(x.k) \in {"img", "sparse"} => /\ <<x.ns, x.nf>> \in BigShapes \cup EnvShapes \cup {<<1001, 5>>, <<5, 1001>>, <<Chunk, 2>>, <<2, Chunk>>}
                                                    /\ x.c1 \in BigContents /\ x.par \in BigPars(x.k)
               /\ Fam(x.k) \in {"peak", "vec"} => x.n >= Chunk

\* ---- non-finite data: where the value-class dimension is crossed with the rest of the lattice ---------------------
\* one parameter class where the kernel has a threshold-like one (as on the big shapes), every class otherwise
FvPars(k) == IF Fam(k) \in {"img", "sparse", "wrap"} /\ BigPars(k) # {} THEN BigPars(k) ELSE Pars(k)
FvScope(x) == /\ x.k \in FvK /\ ~x.big /\ ~EnvOnly(x)
              /\ Fam(x.k) \in {"img", "sparse", "wrap"} => <<x.ns, x.nf>> \in FvShapes /\ x.par \in FvPars(x.k)
              /\ Fam(x.k) \in {"peak", "vec"} => x.n >= 1 /\ x.n <= Chunk + 1

\* ---- state ------------------------------------------------------------------------------------
VARIABLES pc, d
vars == <<pc, d>>
D0 == [k |-> "-", ns |-> 0, nf |-> 0, c1 |-> "-", c2 |-> "-", n |-> 0, m |-> 0, par |-> "-", opt |-> 0, big |-> FALSE,
       nt |-> 0, vb |-> 0, env |-> 0, fv |-> "fin", at |-> "-"]
Stages == {"kernel", "shape", "c1", "c2", "n", "m", "par", "opt", "wf", "vb", "nt", "finish", "done"}
\* every parallel kernel meets every relation between thread count and trip count somewhere in its lattice
TripsOf(k) == IF Fam(k) = "img"
              THEN {Trip([D0 EXCEPT !.k = k, !.ns = s[1], !.nf = s[2]]) : s \in {s \in ThreadShapes : s[1] >= MinR(k) /\ s[2] >= MinC(k)}}
              ELSE Ns(k) \ {0}
ASSUME \A k \in ParK : \A tg \in ThreadTags : \E E \in TripsOf(k), nt \in NT : NtTag(E, nt) = tg

Init == pc = "kernel" /\ d = D0

PickKernel(k) == /\ pc = "kernel"
                 /\ d' = [d EXCEPT !.k = k]
                 /\ pc' = IF Fam(k) \in {"img", "sparse", "wrap"} THEN "shape" ELSE "n"
PickShape(s) == /\ pc = "shape" /\ s[1] >= MinR(d.k) /\ s[2] >= MinC(d.k)
                \* callers: the relation of label values to pixel counts and capacities is what matters, not the width
                /\ (Fam(d.k) = "wrap" => s \in WShapes)
                \* (the smoothing kernel scans whole rows per pixel and the scan callers label four frames per call)
                /\ (d.k \in {"py:scan_cplabel", "py:scan_lmlabel", "py:sparse_smooth", "py:sparse_localmax"} => s[1] * s[2] <= 16)
                \* coverlaps needs an npk1 x npk2 matrix from the caller: isolated pixels on the widest shapes
                \* would ask for gigabytes
                /\ (d.k = "coverlaps" => s[1] * s[2] <= 2 * Chunk)
                /\ d' = [d EXCEPT !.ns = s[1], !.nf = s[2]] /\ pc' = "c1"
PickBigShape(s) == /\ pc = "shape" /\ s[1] >= MinR(d.k) /\ s[2] >= MinC(d.k)
                   /\ \/ s \in BigShapes /\ Big(d.k)
                      \/ s \in EnvShapes /\ (Big(d.k) \/ d.k \in ParK) /\ d.k # "sparse_smooth"   \* (O(nnz * row width))
                      \/ s = <<150, 260>> /\ d.k = "py:overlaps_linear"     \* more pixels on a frame than the default capacity
                   /\ d' = [d EXCEPT !.ns = s[1], !.nf = s[2], !.big = TRUE] /\ pc' = "c1"
\* thin strips for the kernels that share their pixels / rows out (big = TRUE: four contents, one parameter class)
PickStripShape(s) == /\ pc = "shape" /\ d.k \in ParK /\ s[1] >= MinR(d.k) /\ s[2] >= MinC(d.k)
                     /\ d' = [d EXCEPT !.ns = s[1], !.nf = s[2], !.big = TRUE] /\ pc' = "c1"
PickContent(c) == /\ pc = "c1" /\ (d.big => c \in BigContents)
                  \* sparse_smooth scans three whole rows per pixel: on very wide images only few-pixel contents
                  /\ (d.k = "sparse_smooth" /\ d.nf > 2 * Chunk => c \in FewPixels)
                  /\ (~Thorough /\ d.nf > 2 * Chunk => c \in FewPixels)     \* quick scope: widest shape, few pixels
                  /\ (d.k = "splat" => c = "empty")                        \* rgba is output only
                  /\ (Fam(d.k) = "wrap" => c \in WContents)
                  /\ d' = [d EXCEPT !.c1 = c] /\ pc' = "c2"
PickContent2(c) == /\ pc = "c2" /\ c \in C2s(d.k) /\ d' = [d EXCEPT !.c2 = c]
                   /\ pc' = IF d.k = "splat" THEN "n" ELSE "par"
PickSize(n) == /\ pc = "n" /\ n \in Ns(d.k) /\ d' = [d EXCEPT !.n = n] /\ pc' = "m"
\* the long lists of the calls under an OpenMP environment
PickEnvSize(n) == /\ pc = "n" /\ HasEnvNs(d.k) /\ n \in EnvNs /\ d' = [d EXCEPT !.n = n] /\ pc' = "m"
PickSize2(m) == /\ pc = "m" /\ m \in Ms(d.k, d.n) /\ d' = [d EXCEPT !.m = m] /\ pc' = "par"
PickParam(p) == /\ pc = "par" /\ p \in Pars(d.k)
                /\ (d.big /\ Fam(d.k) # "wrap" => p \in BigPars(d.k))     \* one parameter class on big / strip shapes
                /\ d' = [d EXCEPT !.par = p] /\ pc' = "opt"
PickOption(o) == /\ pc = "opt" /\ o \in Opts(d.k) /\ d' = [d EXCEPT !.opt = o] /\ pc' = "wf"
\* verbose > 0: every small shape, content, parameter and option class (not the big / strip / long ones)
PickVerbose(v) == /\ pc = "vb" /\ v \in Verbs(d.k) /\ (v > 0 => ~d.big /\ ~EnvOnly(d))
                  /\ d' = [d EXCEPT !.vb = v]
                  /\ pc' = IF Fam(d.k) \in {"fix", "wrap"} THEN "finish" ELSE "nt"
\* non-finite data in the float inputs (instead of a verbose / thread count / environment choice)
PickValueClass(fv, at) == /\ pc = "vb" /\ FvScope(d) /\ FvOK(d.k, fv, at)
                          /\ d' = [d EXCEPT !.fv = fv, !.at = at] /\ pc' = "finish"
\* nt = 0: the call runs with whatever the process has (the harness sweeps 1 / 4 / 16 over a sample of those)
PickThreads(nt) == /\ pc = "nt" /\ (nt = 0 \/ (nt \in NT /\ ThreadScope(d))) /\ ~EnvOnly(d)
                   /\ d' = [d EXCEPT !.nt = nt] /\ pc' = "finish"
\* the call is made in a process started under OmpEnvs[e] (any kernel with a size, in ParK or not)
PickEnv(e) == /\ pc = "nt" /\ EnvScope(d) /\ d' = [d EXCEPT !.env = e] /\ pc' = "finish"
\* the one call whose work split does not fit an int (all choices at once: full content, ramp, HugeNT threads)
PickHugeShape(s) == /\ pc = "shape" /\ d.k = "localmaxlabel"
                    /\ d' = [d EXCEPT !.ns = s[1], !.nf = s[2], !.big = TRUE, !.c1 = "full", !.par = "ramp", !.nt = HugeNT]
                    /\ pc' = "wf"

\* ---- materialised arrays of a descriptor -----------------------------------------------------
Npx(x) == x.ns * x.nf
SmallImg(x) == Fam(x.k) \in {"img", "sparse", "wrap"} /\ Npx(x) <= 16
SmallVec(x) == Fam(x.k) \in {"peak", "vec"} /\ x.n <= 4 /\ x.m <= 4
MaskOf(cls, ns, nf) == [p \in 0..(ns * nf - 1) |-> IF On(cls, ns, nf, p \div nf, p % nf) THEN 1 ELSE 0]
Mask1(x) == MaskOf(x.c1, x.ns, x.nf)
Mask2(x) == IF x.c2 = "same" THEN Mask1(x) ELSE MaskOf(x.c2, x.ns, x.nf)
\* the mask a labelling kernel thresholds to: data (Val on content, 0 elsewhere) strictly above thr
AboveMask(x, thr) == [p \in 0..(Npx(x) - 1) |->
                        IF (IF Mask1(x)[p] = 1 THEN Val(p \div x.nf, p % x.nf) ELSE 0) > ThrVal(thr) THEN 1 ELSE 0]
Abs(a) == IF a < 0 THEN -a ELSE a
Adj(nf, con8, p, q) == LET dr == Abs((p \div nf) - (q \div nf))  dc == Abs((p % nf) - (q % nf))
                       IN IF con8 = 1 THEN dr <= 1 /\ dc <= 1 ELSE dr + dc <= 1
SetMin(S) == CHOOSE a \in S : \A b \in S : a <= b
\* connected components by the independent definition: least fixpoint of min-propagation; label = rank of the
\* component's first pixel in raster order (the numbering rule proved for the kernels in ConnPix / SparseCP)
RECURSIVE Propagate(_, _, _, _)
Propagate(mask, nf, con8, L) ==
  LET L2 == [p \in DOMAIN mask |-> IF mask[p] = 0 THEN -1
                                    ELSE SetMin({L[q] : q \in {q \in DOMAIN mask : mask[q] = 1 /\ Adj(nf, con8, p, q)}})]
  IN IF L2 = L THEN L ELSE Propagate(mask, nf, con8, L2)
Components(mask, nf, con8) ==
  LET L == Propagate(mask, nf, con8, [p \in DOMAIN mask |-> IF mask[p] = 1 THEN p ELSE -1])
      roots == {p \in DOMAIN mask : mask[p] = 1 /\ L[p] = p}
  IN [lab |-> [p \in DOMAIN mask |-> IF mask[p] = 0 THEN 0 ELSE Cardinality({r \in roots : r <= L[p]})],
      n |-> Cardinality(roots)]
AsSeq(f, n) == [t \in 1..n |-> f[t - 1]]
CooOf(mask, N) == LET F[i \in 0..N] == IF i = 0 THEN <<>> ELSE IF mask[i - 1] = 1 THEN Append(F[i - 1], i - 1) ELSE F[i - 1]
                  IN F[N]
Count(mask) == Cardinality({p \in DOMAIN mask : mask[p] = 1})

\* labels the caller hands to blobproperties / bloboverlaps / sparse_blob2Dproperties / coverlaps: the 8-connected
\* components of the content (what connectedpixels would have returned)
Lab1(x) == Components(Mask1(x), x.nf, 1)
Lab2(x) == Components(Mask2(x), x.nf, 1)
NpkOf(par, n) == CASE par = "exact" -> n [] par = "slack" -> n + 2 [] par = "under" -> IF n > 0 THEN n - 1 ELSE 0
                   [] par = "zero" -> 0

\* ---- the overlap callers: label numbering and allocation ----------------------------------------------
\* the precondition of compress_duplicates(i, j, oi, oj, tmp): tmp is a histogram indexed by label VALUE
CdPre(labels, tmplen) == \A v \in labels : 0 <= v /\ v < tmplen
Max2(a, b) == IF a > b THEN a ELSE b
\* capacity the caller creates its caching object with (opt: 0 default, 1 tight - the idiom of sinograms/properties.py
\* `overlaps_linear(nnz.max() + 1)` -, 2 smallest)
WCap(x, len1, len2, c1n, c2n) ==
  CASE x.k = "py:overlaps_linear" -> (CASE x.opt = 0 -> 4 * Chunk [] x.opt = 1 -> Max2(len1, len2) + 1 [] OTHER -> 1)
    [] x.k = "py:overlaps_matrix" -> (CASE x.opt = 0 -> 256 [] x.opt = 1 -> Max2(Max2(c1n, c2n), 1) [] OTHER -> 1)
    [] OTHER -> 0
\* LabCls: "frame" labels 1..n on each frame; running numbers through the scan (frame 1: base + 1 .. base + c1n = n1,
\* frame 2: n1 + 1 .. n1 + c2n = n2, n1 / n2 = labels so far - SparseScan.cplabel(countall=True) style) whose largest
\* value n2 is exactly the capacity ("atcap"), one above it ("above"), or far above every pixel count ("far")
WBase(x, cap, c1n, c2n) == CASE x.par = "atcap" -> cap - c1n - c2n [] x.par = "above" -> cap + 1 - c1n - c2n
                             [] x.par = "far" -> 100000 [] OTHER -> 0
WNum(x) ==      \* [base, n1, n2, off2, cap, len1, len2] of a small caller descriptor
  LET a == Lab1(x)  b == Lab2(x)  len1 == Count(Mask1(x))  len2 == Count(Mask2(x))
      cap == WCap(x, len1, len2, a.n, b.n)
      base == WBase(x, cap, a.n, b.n)
  IN IF x.par = "frame" THEN [base |-> 0, off2 |-> 0, n1 |-> a.n, n2 |-> b.n, cap |-> cap, len1 |-> len1, len2 |-> len2]
     ELSE [base |-> base, off2 |-> base + a.n, n1 |-> base + a.n, n2 |-> base + a.n + b.n, cap |-> cap, len1 |-> len1, len2 |-> len2]
WBaseOf(x) == WNum(x).base
\* the label values of the pixels both frames have (what the caller hands to compress_duplicates)
WLabelsOf(x) == LET a == Lab1(x)  b == Lab2(x)  w == WNum(x)
                    both == {p \in DOMAIN a.lab : Mask1(x)[p] = 1 /\ Mask2(x)[p] = 1}
                IN {w.base + a.lab[p] : p \in both} \cup {w.off2 + b.lab[p] : p \in both}
\* entries of the histogram the caller allocates: overlaps_linear max(capacity, pixels, n1, n2) + 1 (sparseframe.py:491-495,
\* 484), overlaps max(n1, n2) + 1 (sparseframe.py:574)
WTmpLen(x) == LET w == WNum(x) IN
              IF x.k = "py:overlaps_linear" THEN Max2(Max2(w.cap, Max2(w.len1, w.len2)), Max2(w.n1, w.n2)) + 1
              ELSE Max2(w.n1, w.n2) + 1

\* ---- the preconditions, stated on the arrays of the call -----------------------------------------
StrictlySorted(coo) == \A a, b \in 1..Len(coo) : a < b => coo[a] < coo[b]       \* coo entries are row * nf + col
IsPerm(f, n) == (\A t \in 0..(n - 1) : f[t] \in 0..(n - 1)) /\ Cardinality({f[t] : t \in 0..(n - 1)}) = n
NonDecr(f, n) == \A t \in 1..(n - 1) : f[t - 1] <= f[t]

WellFormed(x) ==
  LET k == x.k IN
  /\ k \in AllK
  /\ x.vb \in Verbs(k)
  /\ Fam(k) \in {"img", "sparse", "wrap"} =>
       /\ x.ns >= MinR(k) /\ x.nf >= MinC(k) /\ x.ns <= 65535 /\ x.nf <= 65535      \* uint16 coordinates
       /\ x.c1 \in Contents
  /\ k \in {"py:overlaps_linear", "py:overlaps"} /\ SmallImg(x) => WBaseOf(x) >= 0   \* the label numbering exists
  /\ Fam(k) = "sparse" /\ SmallImg(x) =>
       \* sorted coo without duplicates inside the shape (sparse_is_sorted is the checker itself: any list)
       LET coo == CooOf(Mask1(x), Npx(x)) IN
       /\ (k # "sparse_is_sorted" => StrictlySorted(coo))
       /\ \A a \in 1..Len(coo) : coo[a] \div x.nf < x.ns
       /\ (k \in {"sparse_overlaps", "coverlaps"} => StrictlySorted(CooOf(Mask2(x), Npx(x))))
  /\ k = "bloboverlaps" /\ SmallImg(x) =>               \* labels index the disjoint set: 0 <= label <= npk
       LET a == Lab1(x)  b == Lab2(x) IN
       /\ \A p \in DOMAIN a.lab : a.lab[p] \in 0..NpkOf(x.par, a.n)
       /\ \A p \in DOMAIN b.lab : b.lab[p] \in 0..NpkOf(x.par, b.n)
  /\ k = "sparse_blob2Dproperties" /\ SmallImg(x) =>    \* results[(label - 1) * NPROPERTY2D + ..]
       LET a == Lab1(x) IN \A p \in DOMAIN a.lab : (IF x.par = "zero" THEN 0 ELSE a.lab[p]) \in 0..NpkOf(x.par, a.n)
  /\ k = "coverlaps" /\ SmallImg(x) =>                  \* mat[(l1 - 1) * npk2 + l2 - 1]: every listed pixel labelled
       LET a == Lab1(x)  b == Lab2(x) IN
       /\ \A p \in DOMAIN a.lab : Mask1(x)[p] = 1 => a.lab[p] \in 1..NpkOf(x.par, a.n)
       /\ \A p \in DOMAIN b.lab : Mask2(x)[p] = 1 => b.lab[p] \in 1..NpkOf(x.par, b.n)
  /\ k = "reorder_u16_a32_a16" => \A i \in 0..(x.ns - 1) : \A j \in {0, x.nf - 1} :
                                     A16Addr(x.par, x.ns, x.nf, i, j) \in 0..(x.ns * x.nf - 1)
  /\ k = "splat" => x.opt >= 0 /\ x.n >= 0
  /\ Fam(k) \in {"peak", "vec"} => x.n >= 0
  /\ k \in {"put_incr32", "put_incr64"} =>
       /\ x.m >= 1
       /\ (x.opt = 0 => \A t \in 0..(x.n - 1) : PutInd(x.par, x.m, t) \in 0..(x.m - 1))  \* boundscheck off: caller's duty
  /\ k \in {"reorder_u16_a32", "reorder_f32_a32"} =>       \* out[adr[i]] = data[i]: defined output needs a permutation
       x.n >= 1 /\ IsPerm([t \in 0..(x.n - 1) |-> Perm(x.par, x.n, t)], x.n)
  /\ k \in {"reorderlut_u16_a32", "reorderlut_f32_a32"} =>  \* out[i] = data[adr[i]]: any in-range table
       x.n >= 1 /\ \A t \in 0..(x.n - 1) : Perm(x.par, x.n, t) \in 0..(x.n - 1)
  /\ k = "cluster1d" =>
       /\ x.n >= 1
       /\ IsPerm([i \in 0..(x.n - 1) |-> ClOrder(x.n, i)], x.n)
       /\ NonDecr([i \in 0..(x.n - 1) |-> ClAr(x.par, x.n, ClOrder(x.n, i))], x.n)
  /\ k = "count_shared" => /\ NonDecr([t \in 0..(x.n - 1) |-> CsI(x.par, t)], x.n)
                           /\ NonDecr([u \in 0..(x.m - 1) |-> CsJ(x.par, u)], x.m)
  /\ k = "compress_duplicates" =>                           \* histogram tmp[label]: 0 <= label < nt
       /\ x.n >= 1
       /\ CdPre({CdI(x.par, x.n, t) : t \in 0..(x.n - 1)} \cup {CdJ(x.par, x.n, t) : t \in 0..(x.n - 1)},
                CdMax(x.par, x.n) + 1 + x.m)
  /\ k = "array_histogram" => x.m >= 1                     \* nhist bins, low < high (the harness passes 0 < 8)
  /\ k \in {"array_mean_var_cut", "array_mean_var_msk", "array_stats", "uint16_to_float_darksub",
            "uint16_to_float_darkflm"} => x.n >= 1         \* images: y0 = img[0]
  /\ k = "closest_vec" => x.m >= 1
  /\ k = "verify_rounding" => x.n \in 0..1000000

\* `int` arithmetic of a kernel on coordinates that the interface (uint16 coordinates) does not rule out:
\* sparse_smooth squares a column difference in `int` (sparse_image.c:493), add_pixel (blobproperties) forms
\* f * f, s * s, s * f in `int` (blobs.c:108-111); 46340^2 < 2^31 <= 46341^2.
\* Not a precondition (nothing documents it): emitted with the descriptor so that a report can be attributed.
IntFits(x) == /\ x.k = "sparse_smooth" => x.nf - 1 <= 46340
              /\ x.k = "blobproperties" => x.nf - 1 <= 46340 /\ x.ns - 1 <= 46340

\* the choices so far fix the arrays of the call: ill-formed combinations are not calls (counted by the harness).
\* The choices that follow (verbose, thread count, OpenMP environment) touch no array: WellFormed does not mention
\* them, their scopes are OptionInv / ThreadInv
\* (ill-formed combinations end in "illformed"; WellFormed is evaluated once, as a value)
CheckWF == /\ pc = "wf"
           /\ LET ok == (WellFormed(d) = TRUE) IN pc' = (IF ~ok THEN "illformed" ELSE IF d.nt > 0 THEN "finish" ELSE "vb")
           /\ UNCHANGED d
Finish == /\ pc = "finish" /\ pc' = "done" /\ UNCHANGED d

\* the universes of the choices (the guards inside the actions select what the kernel at hand offers)
AllC2   == UNION {C2s(k) : k \in AllK}
AllNs   == UNION {Ns(k) : k \in AllK}
AllMs   == UNION {Ms(k, n) : k \in AllK, n \in AllNs \cup EnvNs}
AllPars == UNION {Pars(k) : k \in AllK}
AllOpts == UNION {Opts(k) : k \in AllK}

Next == \/ \E k \in AllK : PickKernel(k)
        \/ \E s \in Shapes : PickShape(s)
        \/ \E s \in BigShapes \cup EnvShapes : PickBigShape(s)
        \/ \E s \in StripShapes : PickStripShape(s)
        \/ \E s \in HugeShapes : PickHugeShape(s)
        \/ \E c \in Contents : PickContent(c)
        \/ \E c \in AllC2 : PickContent2(c)
        \/ \E n \in AllNs : PickSize(n)
        \/ \E n \in EnvNs : PickEnvSize(n)
        \/ \E m \in AllMs : PickSize2(m)
        \/ \E p \in AllPars : PickParam(p)
        \/ \E o \in AllOpts : PickOption(o)
        \/ \E v \in Verb : PickVerbose(v)
        \/ \E fv \in FV, at \in FvAt : PickValueClass(fv, at)
        \/ \E nt \in NT \cup {0} : PickThreads(nt)
        \/ \E e \in DOMAIN OmpEnvs : PickEnv(e)
        \/ CheckWF \/ Finish
Spec == Init /\ [][Next]_vars

\* ---- invariants ---------------------------------------------------------------------------------
TypeOK == /\ pc \in Stages \cup {"illformed"}
          /\ d.k \in AllK \cup {"-"} /\ d.ns \in Nat /\ d.nf \in Nat /\ d.n \in Nat /\ d.m \in Nat
          /\ d.big \in BOOLEAN /\ d.nt \in NT \cup {0, HugeNT} /\ d.vb \in Verb /\ d.env \in {0} \cup DOMAIN OmpEnvs
          /\ d.fv \in FV \cup {"fin"} /\ d.at \in FvAt \cup {"-"}
\* (stage "vb" is entered only through CheckWF; evaluated again on the finished descriptors without verbose /
\*  thread count / environment, which share their arrays with the others)
WellFormedInv == (pc = "done" /\ d.vb = 0 /\ d.nt = 0 /\ d.env = 0 /\ d.fv = "fin") => WellFormed(d)
ValueInv == (pc = "done" /\ d.fv # "fin") => /\ FvScope(d) /\ FvOK(d.k, d.fv, d.at) /\ d.at \in FvAt
                                              /\ d.vb = 0 /\ d.nt = 0 /\ d.env = 0
\* every kernel with float data meets every value class somewhere in its lattice
ASSUME \A k \in FvK \cap Kernels : \A fv \in FV \ {"nan"} : \E at \in FvAt : FvOK(k, fv, at)
PartitionInv == (pc = "done" /\ <<d.ns, d.nf>> \notin HugeShapes) => PartFits(d)
ThreadInv == (pc = "done" /\ d.nt > 0) => ThreadScope(d) /\ Trip(d) >= 1
\* options and runtime environments sit where the interface / the scope says
OptionInv == pc = "done" => /\ (d.vb > 0 => (d.k \in VerbK \/ d.k = "py:labelimage") /\ d.nt = 0 /\ d.env = 0)
                            /\ (d.env > 0 => EnvScope(d) /\ d.nt = 0 /\ TeamMayDiffer(OmpEnvs[d.env]))
                            /\ (EnvOnly(d) => d.env > 0)
                            /\ d.opt \in Opts(d.k)
\* the callers' allocation rule satisfies the precondition of the kernel they feed
WrapperInv == (pc = "done" /\ d.k \in {"py:overlaps_linear", "py:overlaps"} /\ SmallImg(d)) =>
                 CdPre(WLabelsOf(d), WTmpLen(d))
\* coverage: every kernel of the interface has a well-formed descriptor in the smallest scope
HasCall(k) == IF Fam(k) \in {"img", "sparse"}
              THEN \E s \in Shapes, c \in Contents, c2 \in C2s(k), p \in Pars(k), o \in Opts(k) :
                     s[1] * s[2] <= 9 /\
                     WellFormed([D0 EXCEPT !.k = k, !.ns = s[1], !.nf = s[2], !.c1 = c, !.c2 = c2, !.par = p, !.opt = o])
              ELSE \E n \in Ns(k) : \E m \in Ms(k, n), p \in Pars(k), o \in Opts(k) :
                     n <= 3 /\ WellFormed([D0 EXCEPT !.k = k, !.n = n, !.m = m, !.par = p, !.opt = o])
ASSUME \A k \in Kernels : HasCall(k)

\* ---- emission ---------------------------------------------------------------------------------------
NeedsLabels(k) == k \in {"connectedpixels", "blobproperties", "bloboverlaps", "sparse_connectedpixels",
                         "sparse_connectedpixels_splat", "sparse_blob2Dproperties", "coverlaps"}
ThrOf(x) == IF x.k \in {"connectedpixels", "sparse_connectedpixels", "sparse_connectedpixels_splat"} THEN x.par ELSE "zero"
MatImg(x) ==
  LET N == Npx(x)
      m1 == Mask1(x)
      m2 == IF x.c2 = "-" THEN m1 ELSE Mask2(x)
      ab == AboveMask(x, ThrOf(x))
      c8 == IF NeedsLabels(x.k) THEN Components(ab, x.nf, 1) ELSE [lab |-> [p \in 0..(N - 1) |-> 0], n |-> 0]
      c4 == IF x.k = "connectedpixels" THEN Components(ab, x.nf, 0) ELSE [lab |-> [p \in 0..(N - 1) |-> 0], n |-> 0]
      l2 == IF x.k \in {"bloboverlaps", "coverlaps"} THEN Lab2(x) ELSE [lab |-> [p \in 0..(N - 1) |-> 0], n |-> 0]
  IN [mask1 |-> AsSeq(m1, N), mask2 |-> AsSeq(m2, N), above |-> AsSeq(ab, N),
      lab8 |-> AsSeq(c8.lab, N), n8 |-> c8.n, lab4 |-> AsSeq(c4.lab, N), n4 |-> c4.n,
      lab2 |-> AsSeq(l2.lab, N), n2 |-> l2.n, coo |-> CooOf(m1, N), vals |-> [t \in 1..N |-> Val((t - 1) \div x.nf, (t - 1) % x.nf)]]
SetOfSeq(f, n) == {f[t] : t \in 0..(n - 1)}
MatVec(x) ==
  LET k == x.k  n == x.n  m == x.m IN
  CASE k \in {"put_incr32", "put_incr64"} ->
         LET ind == [t \in 0..(n - 1) |-> PutInd(x.par, m, t)] IN
         [ind |-> AsSeq(ind, n),
          \* data[q] += vals[t] with vals[t] = t + 1, on data = 0: independent definition of the result
          expect |-> [q \in 1..m |-> LET S == {t \in 0..(n - 1) : ind[t] = q - 1}
                                         F[i \in 0..n] == IF i = 0 THEN 0 ELSE F[i - 1] + (IF (i - 1) \in S THEN i ELSE 0)
                                     IN F[n]]]
    [] k \in {"reorder_u16_a32", "reorder_f32_a32"} ->
         LET adr == [t \in 0..(n - 1) |-> Perm(x.par, n, t)] IN
         [adr |-> AsSeq(adr, n), expect |-> [q \in 1..n |-> 10 + (CHOOSE t \in 0..(n - 1) : adr[t] = q - 1)]]   \* data[t] = 10 + t
    [] k \in {"reorderlut_u16_a32", "reorderlut_f32_a32"} ->
         LET adr == [t \in 0..(n - 1) |-> Perm(x.par, n, t)] IN
         [adr |-> AsSeq(adr, n), expect |-> [q \in 1..n |-> 10 + adr[q - 1]]]
    [] k = "cluster1d" ->
         LET lev == [i \in 0..(n - 1) |-> Level(x.par, i)] IN
         [ar |-> [t \in 1..n |-> ClAr(x.par, n, t - 1)], order |-> [i \in 1..n |-> ClOrder(n, i - 1)],
          nclusters |-> Cardinality(SetOfSeq(lev, n)),               \* levels differ by >= 1 > tol
          ids |-> [i \in 1..n |-> Cardinality({v \in SetOfSeq(lev, n) : v < lev[i - 1]})]]
    [] k = "count_shared" ->
         LET pi == [t \in 0..(n - 1) |-> CsI(x.par, t)]  pj == [u \in 0..(m - 1) |-> CsJ(x.par, u)] IN
         [pi |-> AsSeq(pi, n), pj |-> AsSeq(pj, m),
          \* two-pointer merge counts matched pairs: for duplicate-free lists the size of the intersection,
          \* for lists of one repeated id the shorter length
          shared |-> IF x.par = "dups" THEN (IF n < m THEN n ELSE m)
                     ELSE Cardinality(SetOfSeq(pi, n) \cap SetOfSeq(pj, m))]
    [] k = "compress_duplicates" ->
         LET ci == [t \in 0..(n - 1) |-> CdI(x.par, n, t)]  cj == [t \in 0..(n - 1) |-> CdJ(x.par, n, t)]
             pairs == {<<ci[t], cj[t]>> : t \in 0..(n - 1)} IN
         [i |-> AsSeq(ci, n), j |-> AsSeq(cj, n), nt |-> CdMax(x.par, n) + 1 + m, npairs |-> Cardinality(pairs),
          total |-> n]
    [] OTHER -> [none |-> 0]
MatWrap(x) ==
  LET N == Npx(x)  a == Lab1(x)  b == Lab2(x) IN
  IF x.k \in {"py:overlaps_linear", "py:overlaps_matrix", "py:overlaps"}
  THEN [mask1 |-> AsSeq(Mask1(x), N), mask2 |-> AsSeq(Mask2(x), N), lab8 |-> AsSeq(a.lab, N), n8 |-> a.n,
        lab2 |-> AsSeq(b.lab, N), n2 |-> b.n, w |-> WNum(x), tmplen |-> WTmpLen(x),
        maxlabel |-> LET S == WLabelsOf(x) IN IF S = {} THEN 0 ELSE CHOOSE v \in S : \A u \in S : u <= v]
  ELSE [mask1 |-> AsSeq(Mask1(x), N), mask2 |-> AsSeq(IF x.c2 = "-" THEN Mask1(x) ELSE Mask2(x), N)]

Emit == (pc = "done" /\ EmitOn) =>
          PrintT("@@" \o ToJson([d |-> d, intfits |-> IntFits(d), partfits |-> PartFits(d),
                                 \* relation of the thread count to the trip count (calls that carry a thread count)
                                 thr |-> IF d.nt > 0 THEN [E |-> Trip(d), tag |-> NtTag(Trip(d), d.nt),
                                                           gtrows |-> (Fam(d.k) = "img" /\ d.nt > d.ns)]
                                         ELSE [E |-> 0, tag |-> "-", gtrows |-> FALSE],
                                 \* the materialised arrays do not depend on the thread count: once, with nt = 0
                                 mat |-> IF d.nt > 0 \/ d.vb > 0 \/ d.env > 0 \/ d.fv # "fin" THEN [none |-> 0]
                                         ELSE IF Fam(d.k) = "wrap" THEN (IF SmallImg(d) THEN MatWrap(d) ELSE [none |-> 0])
                                         ELSE IF SmallImg(d) THEN MatImg(d) ELSE IF SmallVec(d) THEN MatVec(d) ELSE [none |-> 0]]))
\* the interface table, once (initial state)
EmitInterface == (pc = "kernel" /\ EmitOn) =>
          PrintT("@@" \o ToJson([interface |-> PyfFunctions, exempt |-> Exempt,
                                 outputs |-> [k \in Kernels |-> DOMAIN Outputs(k)], parallel |-> ParK, nts |-> NT,
                                 family |-> [k \in Kernels |-> Fam(k)],
                                 scalars |-> [k \in Kernels |-> ScalarArgs(k)], verb |-> Verb,
                                 opts |-> [k \in AllK |-> Opts(k)], verbs |-> [k \in AllK |-> Verbs(k)],
                                 envs |-> OmpEnvs, callers |-> [w \in Callers |-> Calls(w)],
                                 extents |-> [k \in Kernels |-> Extents(k)],
                                 floatin |-> [k \in AllK |-> FloatIn(k)], work |-> [k \in Kernels |-> WorkArrays(k)],
                                 fvs |-> FV, fvat |-> FvAt]))
=============================================================================

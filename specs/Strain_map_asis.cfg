\* Strain.tla, machine HSpec, kind "map" only: the code AS IT WAS before fix e29c99a (TensorMap.clear_cache kept
\* eps_sample / eps_crystal / eps_hydro / eps_devia).  MapAsIsCurrent is EXPECTED TO BE VIOLATED (read, assign a new UBI map, read again);
\* the counterexample is replayed on a real TensorMap by harness/props/c10.py.
SPECIFICATION HSpec
CONSTANTS
  REFS <- RefsQ
  STRETCHES <- StretchQ
  ROTS <- RotsQ
  OBJROTS <- ObjRots
  OBJU0 <- ObjU0
  OBJU0R <- ObjU0R
  HKINDS <- HKindsMap
  HREFS <- HRefsQ
  HSTRETCHES <- HStretchQ
  HROTS <- HRotsQ
  HU0R <- HU0RAll
  HSCALES <- HScalesAll
  MTOUCHES <- MTouchNone
  MFAILS <- MFailNone
  GFAILS <- MFailNone
  HLEN = 2
  PHASEDICTS <- PhaseDictsMapT
  NVER = 2
  MLEN = 5
INVARIANT MapExpCurrent
INVARIANT MapRepairedCurrent
INVARIANT MapAsIsCurrent
CHECK_DEADLOCK FALSE

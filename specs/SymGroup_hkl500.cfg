\* the domain of the hkl clauses ends at 499: (3,-2,500) and (3,-1,-500) are in one hexagonal orbit (that of
\* (1,-3,500)) and share the packed key 2998500, the largest of the orbit: HklCanonical is expected to be VIOLATED
SPECIFICATION Spec
CONSTANTS
  Names = {"hexagonal"}
  QMax = 1
  HMax = 1
  MaxCalls = 1
  DoScan = TRUE
  TrigonalFixed = TRUE
  BigHkls = {{1001, 10997, 21500}}
  BlockSize = 0
  ListMax = 0
  ListPool = {}
  ListSizes = {}
  ConcPairs = {}
  CoarseNames = {}
  Stride = 1
  PublishEarly = FALSE
INVARIANT TypeOK
INVARIANT InOrbit
INVARIANT HklNormKept
INVARIANT HklCanonical
CHECK_DEADLOCK FALSE

\* DataSet histories, one operation more (9^4 = 6561 histories per graph; thorough tier):
\* sequence of 3 operations out of ds.pk2d, ds.pk4d, get_cf_2d, get_cf_4d, ds.peaks_table,
\* set_monitor (two different monitors), reset_peaks_cache, save + dataset.load is applied, closed by
\* reading pk2d and pk4d (9^3 = 729 histories on each of the 3 one-edge graphs of 3 nodes: a merged
\* peak of two members on frames with different scale factors, and a single peak); DsLaw: every read
\* is the table of the current labels with the scale factors of the monitor in force
SPECIFICATION Spec
CONSTANTS
  NSet = {3}
  ESet = {1}
  Threads = {t1}
  Static = FALSE
  OrdSet = {0}
  History = FALSE
  DoEmit = TRUE
  Bug = "none"
  Hist = 0
  DsHist = 4
  DsOps = {"pk2d", "pk4d", "cf2d", "cf4d", "table", "setmon", "reset", "saveload"}
  NMon = 2
  Neg = TRUE
  Shape = "simple"
INVARIANT TypeOK
INVARIANT CleanOK
INVARIANT MergeOK
INVARIANT DsCacheOK
INVARIANT DsLaw
INVARIANT EmitInv
INVARIANT EmitDs
CHECK_DEADLOCK FALSE

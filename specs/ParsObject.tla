----------------------------- MODULE ParsObject -----------------------------
(***************************************************************************)
(* The parameter object of ImageD11 (extra check X02, specification growth) *)
(*   ImageD11/parameters.py: class par 349-390, class parameters 393-572,  *)
(*   AnalysisSchema 43-269 (only what loadparameters(json) / from_file use),*)
(*   and its callers: transformer.py 187-214,251-261 (addpar from           *)
(*   PARAMETERS, pars alias, setvars, applyargs), refinegrains.py 216-226,  *)
(*   500-501 (kwds constructor + injected stepsizes, applyargs),            *)
(*   indexing.py 371-426 (indexer.loadpars/savepars/updateparameters and    *)
(*   the attribute-creating __getattr__ 390-398), columnfile.py 376,389     *)
(*   (parameters( **other.parameters.copy() )).                           *)
(*                                                                         *)
(* Values are typed spellings [t |-> type, v |-> str(value)] over a tiny   *)
(* alphabet: ints, floats (one integral), strings that look like numbers,  *)
(* plain / padded / blank-containing strings, a bool, None.  Names:        *)
(* "cell__a" (goes to the phase part of a json schema), "t_x" and its old  *)
(* spelling "t-x" (loadparameters rewrites '-' to '_'); NameSeq is in the  *)
(* order of sorted(), which is the order saveparameters writes.            *)
(*                                                                         *)
(* Variables                                                               *)
(*   s.p[1], s.p[2] : two parameters objects, each                         *)
(*        d      name -> value or ABSENT          (.parameters)            *)
(*        vary   sequence of names                 (.varylist)              *)
(*        canv   name -> "T" / "F" / "-"           (.can_vary)              *)
(*        vlist  sequence of names                 (.variable_list)         *)
(*        steps  name -> step spelling or "-"      (.stepsizes)             *)
(*        pobj   name -> the par object last added (.par_objs)              *)
(*   s.o   : the "other" object of update_other / update_yourself:         *)
(*        attrs  name -> value or ABSENT ;  auto = hasattr() is always     *)
(*        true because __getattr__ creates the attribute as None (this is  *)
(*        the indexer, which then also owns p[1] as its parameterobj)      *)
(*   s.u   : the user holds the dict returned by get_parameters() of p[1]  *)
(*        (transformer.pars, indexer.pars): an alias, so it carries no     *)
(*        state of its own; WriteU / DelU write through it                 *)
(*   s.f   : the par file  (lines <<name, spelling>> as written)           *)
(*   s.j   : the json schema + geometry.par + ph.par written by            *)
(*        AnalysisSchema.from_old_pars_object(p1, "ph").save(path)         *)
(*   hist  : history of <<op, ret, projected state>> (VIEW: only its length)*)
(*                                                                         *)
(* Actions: one per public method (AddPar, Set, SetParameters, SetVarylist,*)
(* AssignVarylist (= transformer.setvars), SetVariableValues, UpdateOther, *)
(* UpdateYourself, SetAttrO, Save, Load, SaveJson, LoadJson, FromFile,     *)
(* FromFileJson, FromDict, CopyConstruct, TakeDict, WriteU, DelU and the   *)
(* indexer's composite IdxLoadPars / IdxSavePars / IdxUpdateParameters).   *)
(* get / get_variable_values / get_variable_stepsizes / get_variable_list  *)
(* are observers: they are part of the projection compared after EVERY     *)
(* step.                                                                   *)
(*                                                                         *)
(* Invariants (checked by TLC in every reachable state; each applies the   *)
(* operators to the state, so it covers operations beyond the depth bound):*)
(*   VarIdentity      set_variable_values(get_variable_values()) = id      *)
(*   SetGet           get_variable_values() after set_variable_values(x)   *)
(*                    is x (needs a duplicate free varylist)               *)
(*   Aligned          values / stepsizes follow the order of varylist      *)
(*   UpdateRoundTrip  update_yourself(o) ; update_other(o) leaves every    *)
(*                    attribute that existed on o unchanged, and           *)
(*                    update_other(o) ; update_yourself(o) leaves the      *)
(*                    parameters unchanged                                 *)
(*   RoundTripCore    load(save(p)) gives back the typed value of every    *)
(*                    name in the DOMAIN: name without '-', value an int,  *)
(*                    a float, or a string that is stripped, has no blank  *)
(*                    and does not parse as a number (nor, after the       *)
(*                    repair, as True/False); the names read back are the  *)
(*                    rewritten names of the readable lines.  An           *)
(*                    identifier-like name keeps its OWN value even when   *)
(*                    its hyphenated spelling is present too ('-' sorts    *)
(*                    before '_', so its line is read last).               *)
(*   RoundTripBool    the same for bool values: violated when BUG_BOOL     *)
(*   LoadIdempotent   load(f) ; load(f) = load(f)   (par file and json)    *)
(*   FromFilePhase    from_file(json, phase) = parameters().loadparameters *)
(*                    (json, phase): violated when BUG_FROMFILE            *)
(*   AddparConsistent can_vary / variable_list / stepsizes / par_objs agree*)
(*                    (holds only when no name is added twice: AllowReAdd  *)
(*                    = FALSE; with TRUE TLC shows the stale stepsize)     *)
(*   Frame (action property) no action changes a parameter, a vary list or *)
(*                    a step size of an object it does not name; the only  *)
(*                    exception, modelled because the code does it, is     *)
(*                    that load / set_parameters re-type EVERY string of   *)
(*                    the object (dumbtypecheck), i.e. v -> Coerce(v)      *)
(*                                                                         *)
(* BUG_BOOL = TRUE  : pinned tree, "True"/"False" read back stay strings    *)
(*                    (so the transformer's default                         *)
(*                    weight_hist_intensities False comes back truthy)      *)
(* BUG_FROMFILE = TRUE : pinned tree, parameters.from_file drops phase_name *)
(* Bounds: MaxDepth operations from one of the start forms in StartForms;   *)
(* WithFiles: a hand-written par file and json schema exist from the start *)
(* (so that load / from_file are meaningful at depth 1).                   *)
(***************************************************************************)
EXTENDS Integers, Sequences, FiniteSets, TLC, Json

CONSTANTS MaxDepth,        \* bound on the number of operations
          BUG_BOOL,        \* dumbtypecheck leaves "True"/"False" as strings
          BUG_FROMFILE,    \* from_file(filename, phase_name) ignores phase_name
          AllowReAdd,      \* addpar may name a parameter that has a par object already
          StartForms,      \* subset of {"kwds", "idx", "addpar", "rg"}
          WithFiles,       \* behaviours start with a hand-written par file and json schema on disk
          EmitMode         \* 0 none, 1 every transition, 2 final states only

VARIABLES s, hist
vars == <<s, hist>>

\* ---- names -------------------------------------------------------------------------------
NameSeq == <<"cell__a", "t-x", "t_x">>            \* sorted() order
Names == {NameSeq[i] : i \in 1..3}
Rewrite(n) == IF n = "t-x" THEN "t_x" ELSE n       \* name.replace("-", "_")
IsCell(n) == n = "cell__a"                          \* 'cell' in key  (AnalysisSchema.split_parameters_dicts)

\* ---- values ------------------------------------------------------------------------------
V(t, w) == [t |-> t, v |-> w]
ABSENT == V("absent", "")
I1 == V("int", "1")       I7 == V("int", "7")
F25 == V("float", "2.5")  F30 == V("float", "3.0")
S7 == V("str", "7")       S25 == V("str", "2.5")
SP == V("str", "P")       SPAD == V("str", " P ")    SAB == V("str", "a b")
BF == V("bool", "False")  NONE == V("none", "None")
SetVals == {I1, I7, F25, F30, S7, S25, SP, SPAD, SAB, BF}

\* value.lstrip().rstrip()
Strip(w) == IF w = " P " THEN "P" ELSE w
\* "%s %s\n" % (key, value) is read back by line.split(" ") only when that gives two pieces
NoBlank(w) == w \notin {" P ", "a b"}
\* float(w) / int(w) succeed ?
NumKind(w) == IF w \in {"1", "7"} THEN "int"
              ELSE IF w \in {"2.5", "3.0"} THEN "float" ELSE "none"
\* dumbtypecheck on one value
Coerce(x) ==
  IF x.t # "str" THEN x
  ELSE LET w == Strip(x.v)
       IN IF NumKind(w) # "none" THEN V(NumKind(w), w)
          ELSE IF ~BUG_BOOL /\ w \in {"True", "False"} THEN V("bool", w)
          ELSE V("str", w)
CoerceAll(dd) == [n \in Names |-> IF dd[n] = ABSENT THEN ABSENT ELSE Coerce(dd[n])]

\* ---- sequences ---------------------------------------------------------------------------
Has(q, x) == \E j \in 1..Len(q) : q[j] = x
NoDup(q) == \A i, j \in 1..Len(q) : i # j => q[i] # q[j]

\* ---- a parameters object ------------------------------------------------------------------
NoPar == [val |-> ABSENT, vary |-> FALSE, canv |-> FALSE, step |-> "-"]
MkPar(v, vy, cv, st) == [val |-> v, vary |-> vy, canv |-> cv, step |-> st]
NoD == [n \in Names |-> ABSENT]
EmptyP == [d |-> NoD, vary |-> <<>>, canv |-> [n \in Names |-> "-"], vlist |-> <<>>,
           steps |-> [n \in Names |-> "-"], pobj |-> [n \in Names |-> NoPar]]

\* parameters.addpar(par(n, v, vary=vy, can_vary=cv, stepsize=st))          parameters.py:411-422
AddParP(P, n, v, vy, cv, st) ==
  LET P1 == [P EXCEPT !.d[n] = v, !.canv[n] = IF cv THEN "T" ELSE "F", !.pobj[n] = MkPar(v, vy, cv, st)]
      P2 == IF vy /\ ~Has(P.vary, n) THEN [P1 EXCEPT !.vary = Append(P.vary, n)] ELSE P1
  IN IF cv /\ ~Has(P.vlist, n)
     THEN [P2 EXCEPT !.vlist = Append(P.vlist, n), !.steps[n] = st] ELSE P2

\* parameters( **dd): addpar(par(k, v)) for every item                        parameters.py:398-409
Construct(dd) ==
  [EmptyP EXCEPT !.d = dd,
                 !.canv = [n \in Names |-> IF dd[n] = ABSENT THEN "-" ELSE "F"],
                 !.pobj = [n \in Names |-> IF dd[n] = ABSENT THEN NoPar ELSE MkPar(dd[n], FALSE, FALSE, "None")]]

\* observers
GetVV(P) == LET ok == \A k \in 1..Len(P.vary) : P.d[P.vary[k]] # ABSENT
            IN [ok |-> ok, v |-> IF ok THEN [k \in 1..Len(P.vary) |-> P.d[P.vary[k]]] ELSE <<>>]
GetVS(P) == LET ok == \A k \in 1..Len(P.vary) : P.steps[P.vary[k]] # "-"
            IN [ok |-> ok, v |-> IF ok THEN [k \in 1..Len(P.vary) |-> P.steps[P.vary[k]]] ELSE <<>>]

\* set_variable_values(vals)  (length already checked)                       parameters.py:442-446
SetVV(P, vals) ==
  LET F[k \in 0..Len(vals)] == IF k = 0 THEN P.d ELSE [F[k-1] EXCEPT ![P.vary[k]] = vals[k]]
  IN [P EXCEPT !.d = F[Len(vals)]]

\* ---- files -----------------------------------------------------------------------------------
\* saveparameters: sorted keys, "%s %s\n" % (key, str(value))                parameters.py:492-500
SaveLines(dd) ==
  LET F[k \in 0..3] == IF k = 0 THEN <<>>
                       ELSE IF dd[NameSeq[k]] = ABSENT THEN F[k-1]
                       ELSE Append(F[k-1], [n |-> NameSeq[k], w |-> dd[NameSeq[k]].v])
  IN F[3]
\* loadparameters, text branch: every readable line sets Rewrite(name) to the string
LoadLines(dd, lines) ==
  LET F[k \in 0..Len(lines)] ==
        IF k = 0 THEN dd
        ELSE IF NoBlank(lines[k].w) THEN [F[k-1] EXCEPT ![Rewrite(lines[k].n)] = V("str", lines[k].w)]
        ELSE F[k-1]
  IN F[Len(lines)]
\* ... followed by dumbtypecheck over the WHOLE dictionary                   parameters.py:502-556
LoadP(P, lines) == [P EXCEPT !.d = CoerceAll(LoadLines(P.d, lines))]

NoFile == [on |-> FALSE, lines |-> <<>>]
NoJson == [on |-> FALSE, geom |-> <<>>, ph |-> <<>>]
\* hand-written files every behaviour starts with (old-style hyphenated name; a cell key in the geometry file
\* and a non-cell key in the phase file, which AnalysisSchema drops when it splits geometry from phase)
Ln(n, w) == [n |-> n, w |-> w]
FixFile == [on |-> TRUE, lines |-> <<Ln("cell__a", "7"), Ln("t-x", "P")>>]
FixJson == [on |-> TRUE, geom |-> <<Ln("cell__a", "1"), Ln("t_x", "7")>>,
                         ph   |-> <<Ln("cell__a", "3.0"), Ln("t-x", "P")>>]
Only(dd, cell) == [n \in Names |-> IF IsCell(n) = cell THEN dd[n] ELSE ABSENT]
\* AnalysisSchema.from_old_pars_object(P, "ph").save(path): both halves pass through from_dict
JsonOf(dd) == [on |-> TRUE, geom |-> SaveLines(CoerceAll(Only(dd, FALSE))),
                            ph   |-> SaveLines(CoerceAll(Only(dd, TRUE)))]
\* AnalysisSchema(path).get_xfab_pars_dict(phase): geometry.par without cell keys (+ ph.par's cell keys)
JsonDict(J, phase) ==
  LET g == Only(CoerceAll(LoadLines(NoD, J.geom)), FALSE)
      p == Only(CoerceAll(LoadLines(NoD, J.ph)), TRUE)
  IN [n \in Names |-> IF g[n] # ABSENT THEN g[n] ELSE IF phase = "ph" THEN p[n] ELSE ABSENT]
\* loadparameters(json, phase_name): self.parameters.update(pars_dict) ; dumbtypecheck
LoadJsonP(P, J, phase) ==
  LET jd == JsonDict(J, phase)
  IN [P EXCEPT !.d = CoerceAll([n \in Names |-> IF jd[n] # ABSENT THEN jd[n] ELSE P.d[n]])]

\* ---- the other object -----------------------------------------------------------------------
\* update_other(o): for k in parameters: if hasattr(o, k): setattr(o, k, v)  parameters.py:479-490
UpdOther(R, i) ==
  [R EXCEPT !.o.attrs = [n \in Names |->
        IF R.p[i].d[n] # ABSENT /\ (R.o.auto \/ R.o.attrs[n] # ABSENT) THEN R.p[i].d[n] ELSE R.o.attrs[n]]]
\* update_yourself(o): for k in parameters: if hasattr(o, k): parameters[k] = getattr(o, k)
\* (an attribute-creating __getattr__ makes hasattr true and the value None)  parameters.py:467-477
UpdYourself(R, i) ==
  LET made(n) == R.p[i].d[n] # ABSENT /\ R.o.attrs[n] = ABSENT /\ R.o.auto
  IN [R EXCEPT !.o.attrs = [n \in Names |-> IF made(n) THEN NONE ELSE R.o.attrs[n]],
               !.p[i].d = [n \in Names |->
                  IF R.p[i].d[n] = ABSENT THEN ABSENT
                  ELSE IF R.o.attrs[n] # ABSENT THEN R.o.attrs[n]
                  ELSE IF R.o.auto THEN NONE ELSE R.p[i].d[n]]]

\* ---- start forms ----------------------------------------------------------------------------
D0 == [n \in Names |-> IF n = "cell__a" THEN I1 ELSE IF n = "t_x" THEN F25 ELSE ABSENT]
PlainO == [attrs |-> [n \in Names |-> IF n = "cell__a" THEN I7 ELSE ABSENT], auto |-> FALSE]
Start(form) ==
  [form |-> form,
   p |-> << CASE form = "kwds" -> Construct(D0)                     \* parameters(cell__a=1, t_x=2.5)
            [] form = "idx" -> [EmptyP EXCEPT !.d = D0]             \* indexer: parameterobj.set_parameters(d) ; loadpars()
            [] form = "addpar" ->                                   \* transformer: parameters() + addpar(PARAMETERS)
                 AddParP(AddParP(EmptyP, "cell__a", I1, FALSE, TRUE, "0.1"), "t_x", F25, TRUE, TRUE, "0.5")
            [] form = "rg" ->                                       \* refinegrains: kwds + stepsizes[k] = s
                 [Construct(D0) EXCEPT !.steps["t_x"] = "0.5"],
            EmptyP >>,
   o |-> IF form = "idx" THEN [attrs |-> D0, auto |-> TRUE] ELSE PlainO,
   u |-> FALSE, f |-> IF WithFiles THEN FixFile ELSE NoFile, j |-> IF WithFiles THEN FixJson ELSE NoJson]

Init == /\ \E form \in StartForms : s = Start(form)
        /\ hist = <<>>

\* ---- projection compared with the real objects after every step -----------------------------
Tag(x) == IF x = ABSENT THEN "-" ELSE x.t \o ":" \o x.v
TagSeq(q) == [k \in 1..Len(q) |-> Tag(q[k])]
ByName(f(_)) == [k \in 1..3 |-> f(NameSeq[k])]
ProjP(P) ==
  [d |-> ByName(LAMBDA n : Tag(P.d[n])), vary |-> P.vary, canv |-> ByName(LAMBDA n : P.canv[n]),
   vlist |-> P.vlist, steps |-> ByName(LAMBDA n : P.steps[n]),
   pobj |-> ByName(LAMBDA n : IF P.pobj[n] = NoPar THEN <<>>
                               ELSE <<Tag(P.pobj[n].val), P.pobj[n].vary, P.pobj[n].canv, P.pobj[n].step>>),
   gvv |-> IF GetVV(P).ok THEN TagSeq(GetVV(P).v) ELSE <<"KeyError">>,
   gvs |-> IF GetVS(P).ok THEN GetVS(P).v ELSE <<"KeyError">>]
LinesOut(ls) == [k \in 1..Len(ls) |-> <<ls[k].n, ls[k].w>>]
Proj(R) == [form |-> R.form, p1 |-> ProjP(R.p[1]), p2 |-> ProjP(R.p[2]),
            o |-> ByName(LAMBDA n : Tag(R.o.attrs[n])), auto |-> R.o.auto, u |-> R.u,
            f |-> IF R.f.on THEN LinesOut(R.f.lines) ELSE <<"nofile">>,
            jg |-> IF R.j.on THEN LinesOut(R.j.geom) ELSE <<"nofile">>,
            jp |-> IF R.j.on THEN LinesOut(R.j.ph) ELSE <<"nofile">>]

Commit(R, o, ret) == /\ s' = R
                     /\ hist' = Append(hist, [op |-> o, ret |-> ret, st |-> Proj(R)])
Enabled0 == Len(hist) < MaxDepth

\* ---- actions ---------------------------------------------------------------------------------
AddPar(n, v, vy, cv, st) ==
  /\ Enabled0 /\ (AllowReAdd \/ s.p[1].pobj[n] = NoPar)
  /\ Commit([s EXCEPT !.p[1] = AddParP(s.p[1], n, v, vy, cv, st)], <<"addpar", n, Tag(v), vy, cv, st>>, "ok")

Set(i, n, v) ==
  /\ Enabled0
  /\ Commit([s EXCEPT !.p[i].d[n] = v], <<"set", i, n, Tag(v)>>, "ok")

\* set_parameters({n: v}): update ; dumbtypecheck                               parameters.py:448-453
SetParameters(n, v) ==
  /\ Enabled0
  /\ Commit([s EXCEPT !.p[1].d = CoerceAll([s.p[1].d EXCEPT ![n] = v])], <<"set_parameters", n, Tag(v)>>, "ok")

\* set_varylist(vl): asserts (name is a parameter, name can vary), then adopts vl  parameters.py:435-440
SetVarylist(vl) ==
  /\ Enabled0
  /\ IF \A k \in 1..Len(vl) : s.p[1].d[vl[k]] # ABSENT /\ Has(s.p[1].vlist, vl[k])
     THEN Commit([s EXCEPT !.p[1].vary = vl], <<"set_varylist", vl>>, "ok")
     ELSE Commit(s, <<"set_varylist", vl>>, "AssertionError")
\* parameterobj.varylist = vl   (transformer.setvars, refinegrains.refinepositions): no checks
AssignVarylist(vl) ==
  /\ Enabled0 /\ s.p[1].vary # vl
  /\ Commit([s EXCEPT !.p[1].vary = vl], <<"assign_varylist", vl>>, "ok")

SetVariableValues(vals) ==
  /\ Enabled0
  /\ IF Len(vals) = Len(s.p[1].vary)
     THEN Commit([s EXCEPT !.p[1] = SetVV(s.p[1], vals)], <<"set_variable_values", TagSeq(vals)>>, "ok")
     ELSE Commit(s, <<"set_variable_values", TagSeq(vals)>>, "AssertionError")

UpdateOther == /\ Enabled0 /\ Commit(UpdOther(s, 1), <<"update_other">>, "ok")
UpdateYourself == /\ Enabled0 /\ Commit(UpdYourself(s, 1), <<"update_yourself">>, "ok")
SetAttrO(n, v) == /\ Enabled0 /\ s.o.attrs[n] # v
                  /\ Commit([s EXCEPT !.o.attrs[n] = v], <<"setattr_other", n, Tag(v)>>, "ok")

Save(i) == /\ Enabled0
           /\ Commit([s EXCEPT !.f = [on |-> TRUE, lines |-> SaveLines(s.p[i].d)]], <<"save", i>>, "ok")
Load(i) == /\ Enabled0 /\ s.f.on
           /\ Commit([s EXCEPT !.p[i] = LoadP(s.p[i], s.f.lines)], <<"load", i>>, "ok")
SaveJson == /\ Enabled0
            /\ Commit([s EXCEPT !.j = JsonOf(s.p[1].d)], <<"save_json">>, "ok")
LoadJson(phase) == /\ Enabled0 /\ s.j.on
                   /\ Commit([s EXCEPT !.p[1] = LoadJsonP(s.p[1], s.j, phase)], <<"load_json", phase>>, "ok")

\* p2 = parameters.from_file(par file)  /  read_par_file
FromFile == /\ Enabled0 /\ s.f.on
            /\ Commit([s EXCEPT !.p[2] = LoadP(EmptyP, s.f.lines)], <<"from_file">>, "ok")
\* p2 = parameters.from_file(json, phase_name=phase)                             parameters.py:564-566
FromFileJsonP(J, phase) == LoadJsonP(EmptyP, J, IF BUG_FROMFILE THEN "none" ELSE phase)
FromFileJson(phase) == /\ Enabled0 /\ s.j.on
                       /\ Commit([s EXCEPT !.p[2] = FromFileJsonP(s.j, phase)], <<"from_file_json", phase>>, "ok")
\* p2 = parameters.from_dict(p1.get_parameters()) : parameters() ; set_parameters(d)
FromDict == /\ Enabled0
            /\ Commit([s EXCEPT !.p[2] = [EmptyP EXCEPT !.d = CoerceAll(s.p[1].d)]], <<"from_dict">>, "ok")
\* p2 = parameters( **p1.parameters.copy())       (columnfile.copy / copyrows)
CopyConstruct == /\ Enabled0
                 /\ Commit([s EXCEPT !.p[2] = Construct(s.p[1].d)], <<"copy_construct">>, "ok")

\* pars = p1.get_parameters()  (the live dictionary) ; pars[n] = v ; del pars[n]
TakeDict == /\ Enabled0 /\ ~s.u
            /\ Commit([s EXCEPT !.u = TRUE], <<"take_dict">>, "ok")
WriteU(n, v) == /\ Enabled0 /\ s.u
                /\ Commit([s EXCEPT !.p[1].d[n] = v], <<"write_dict", n, Tag(v)>>, "ok")
DelU(n) == /\ Enabled0 /\ s.u /\ s.p[1].d[n] # ABSENT
           /\ Commit([s EXCEPT !.p[1].d[n] = ABSENT], <<"del_dict", n>>, "ok")

\* indexer.loadpars(filename or None): loadparameters ; every parameter becomes an attribute
IdxLoadPars(withfile) ==
  /\ Enabled0 /\ s.o.auto /\ (withfile => s.f.on)
  /\ LET R1 == IF withfile THEN [s EXCEPT !.p[1] = LoadP(s.p[1], s.f.lines)] ELSE s
     IN Commit(UpdOther(R1, 1), <<"idx_loadpars", withfile>>, "ok")
\* indexer.savepars(filename or None): update_yourself(self) ; saveparameters
IdxSavePars(withfile) ==
  /\ Enabled0 /\ s.o.auto
  /\ LET R1 == UpdYourself(s, 1)
     IN Commit(IF withfile THEN [R1 EXCEPT !.f = [on |-> TRUE, lines |-> SaveLines(R1.p[1].d)]] ELSE R1,
               <<"idx_savepars", withfile>>, "ok")
\* indexer.updateparameters(): savepars() ; self.pars = the live dictionary
IdxUpdateParameters ==
  /\ Enabled0 /\ s.o.auto
  /\ Commit([UpdYourself(s, 1) EXCEPT !.u = TRUE], <<"idx_updateparameters">>, "ok")

VaryLists == {<<>>, <<"t_x">>, <<"cell__a", "t_x">>, <<"t_x", "cell__a">>, <<"t-x">>}
VVals == {I7, F30}
ValSeqs == {<<>>} \cup {<<a>> : a \in VVals} \cup {<<a, b>> : a \in VVals, b \in {I7, S25}}

Next ==
  \/ \E n \in Names, v \in {I1, S7}, vy \in BOOLEAN, cv \in BOOLEAN, st \in {"None", "0.1"} : AddPar(n, v, vy, cv, st)
  \/ \E n \in Names, v \in SetVals : Set(1, n, v)
  \/ \E n \in Names : Set(2, n, I7)
  \/ \E n \in Names, v \in {S7, SPAD, F25, BF} : SetParameters(n, v)
  \/ \E vl \in VaryLists : SetVarylist(vl) \/ AssignVarylist(vl)
  \/ \E vals \in ValSeqs : SetVariableValues(vals)
  \/ UpdateOther \/ UpdateYourself
  \/ \E n \in Names, v \in {I1, S7, SP} : SetAttrO(n, v)
  \/ \E i \in {1, 2} : Save(i) \/ Load(i)
  \/ SaveJson
  \/ \E phase \in {"none", "ph"} : LoadJson(phase) \/ FromFileJson(phase)
  \/ FromFile \/ FromDict \/ CopyConstruct \/ TakeDict
  \/ \E n \in Names, v \in {I7, S25} : WriteU(n, v)
  \/ \E n \in Names : DelU(n)
  \/ \E wf \in BOOLEAN : IdxLoadPars(wf) \/ IdxSavePars(wf)
  \/ IdxUpdateParameters

Spec == Init /\ [][Next]_vars

\* ---- properties ------------------------------------------------------------------------------
ValUniverse == SetVals \cup {NONE, ABSENT, V("str", "None"), V("str", "False"), V("str", "a b")}
TypeOK ==
  /\ \A i \in {1, 2} :
       /\ \A n \in Names : s.p[i].d[n] \in ValUniverse /\ s.p[i].canv[n] \in {"T", "F", "-"}
                           /\ s.p[i].steps[n] \in {"-", "None", "0.1", "0.5"}
       /\ \A k \in 1..Len(s.p[i].vary) : s.p[i].vary[k] \in Names
       /\ \A k \in 1..Len(s.p[i].vlist) : s.p[i].vlist[k] \in Names
       /\ NoDup(s.p[i].vlist) /\ NoDup(s.p[i].vary)
  /\ \A n \in Names : s.o.attrs[n] \in ValUniverse

\* set_variable_values(get_variable_values()) is the identity
VarIdentity == \A i \in {1, 2} : GetVV(s.p[i]).ok => SetVV(s.p[i], GetVV(s.p[i]).v) = s.p[i]
\* what was set is what is read (same order, same typed values)
SetGet == \A i \in {1, 2}, vals \in ValSeqs :
             Len(vals) = Len(s.p[i].vary) =>
                LET g == GetVV(SetVV(s.p[i], vals)) IN g.ok /\ g.v = vals
\* values and step sizes are in varylist order
Aligned == \A i \in {1, 2} :
   /\ GetVV(s.p[i]).ok => /\ Len(GetVV(s.p[i]).v) = Len(s.p[i].vary)
                           /\ \A k \in 1..Len(s.p[i].vary) : GetVV(s.p[i]).v[k] = s.p[i].d[s.p[i].vary[k]]
   /\ GetVS(s.p[i]).ok => /\ Len(GetVS(s.p[i]).v) = Len(s.p[i].vary)
                           /\ \A k \in 1..Len(s.p[i].vary) : GetVS(s.p[i]).v[k] = s.p[i].steps[s.p[i].vary[k]]

UpdateRoundTrip ==
  \A i \in {1, 2} :
    /\ LET R2 == UpdOther(UpdYourself(s, i), i)
       IN \A n \in Names : s.o.attrs[n] # ABSENT => R2.o.attrs[n] = s.o.attrs[n]
    /\ UpdYourself(UpdOther(s, i), i).p[i] = s.p[i]

\* the domain of the save/load round trip
GoodName(n) == Rewrite(n) = n
CoreVal(x) == x.t \in {"int", "float"} \/ (x.t = "str" /\ NoBlank(x.v) /\ Coerce(x) = x)
ReadBack(dd) == CoerceAll(LoadLines(NoD, SaveLines(dd)))
RoundTripCore ==
  \A i \in {1, 2} :
    LET dd == s.p[i].d   q == ReadBack(dd)
    IN /\ \A n \in Names : (dd[n] # ABSENT /\ GoodName(n) /\ CoreVal(dd[n])) => q[n] = dd[n]
       /\ {n \in Names : q[n] # ABSENT} = {Rewrite(n) : n \in {m \in Names : dd[m] # ABSENT /\ NoBlank(dd[m].v)}}
RoundTripBool ==
  \A i \in {1, 2}, n \in Names :
     (s.p[i].d[n].t = "bool" /\ GoodName(n)) => ReadBack(s.p[i].d)[n] = s.p[i].d[n]

LoadIdempotent ==
  \A i \in {1, 2} :
    /\ s.f.on => LoadP(LoadP(s.p[i], s.f.lines), s.f.lines) = LoadP(s.p[i], s.f.lines)
    /\ s.j.on => \A ph \in {"none", "ph"} :
                   LoadJsonP(LoadJsonP(s.p[i], s.j, ph), s.j, ph) = LoadJsonP(s.p[i], s.j, ph)

\* the classmethod is the constructor followed by loadparameters with the same arguments
FromFilePhase == s.j.on => \A ph \in {"none", "ph"} : FromFileJsonP(s.j, ph) = LoadJsonP(EmptyP, s.j, ph)

AddparConsistent ==
  \A i \in {1, 2}, n \in Names :
     s.p[i].pobj[n] # NoPar =>
        /\ s.p[i].canv[n] = (IF s.p[i].pobj[n].canv THEN "T" ELSE "F")
        /\ Has(s.p[i].vlist, n) <=> s.p[i].pobj[n].canv
        /\ Has(s.p[i].vlist, n) => s.p[i].steps[n] = s.p[i].pobj[n].step

\* ---- frame: what an operation may touch ---------------------------------------------------------
LastOp == hist'[Len(hist')].op
\* parameters (object, name) the operation names
Named(o) ==
  LET k == o[1] IN
  IF k = "addpar" THEN {<<1, o[2]>>}
  ELSE IF k = "set" THEN {<<o[2], o[3]>>}
  ELSE IF k \in {"set_parameters", "write_dict"} THEN {<<1, o[2]>>}
  ELSE IF k = "del_dict" THEN {<<1, o[2]>>}
  ELSE IF k = "set_variable_values" THEN {<<1, s.p[1].vary[j]>> : j \in 1..Len(s.p[1].vary)}
  ELSE IF k \in {"update_yourself", "idx_updateparameters", "idx_savepars"}
       THEN {<<1, n>> : n \in {m \in Names : s.o.attrs[m] # ABSENT \/ s.o.auto}}
  ELSE IF k = "load" THEN {<<o[2], Rewrite(s.f.lines[j].n)>> : j \in {m \in 1..Len(s.f.lines) : NoBlank(s.f.lines[m].w)}}
  ELSE IF k = "idx_loadpars" /\ o[2]
       THEN {<<1, Rewrite(s.f.lines[j].n)>> : j \in {m \in 1..Len(s.f.lines) : NoBlank(s.f.lines[m].w)}}
  ELSE IF k = "load_json" THEN {<<1, n>> : n \in {m \in Names : JsonDict(s.j, o[2])[m] # ABSENT}}
  ELSE IF k \in {"from_file", "from_file_json", "from_dict", "copy_construct"} THEN {<<2, n>> : n \in Names}
  ELSE {}
\* objects whose strings are all re-typed by the operation (dumbtypecheck)
Retyped(o) ==
  IF o[1] \in {"set_parameters", "load_json"} THEN {1}
  ELSE IF o[1] = "load" THEN {o[2]}
  ELSE IF o[1] = "idx_loadpars" /\ o[2] THEN {1} ELSE {}
\* objects whose vary list / can_vary / variable_list / stepsizes / par_objs the operation may change
Meta(o) == IF o[1] \in {"addpar", "set_varylist", "assign_varylist"} THEN {1}
           ELSE IF o[1] \in {"from_file", "from_file_json", "from_dict", "copy_construct"} THEN {2} ELSE {}
FrameStep ==
  hist' # hist =>
    /\ \A i \in {1, 2}, n \in Names :
          <<i, n>> \notin Named(LastOp) =>
             \/ s'.p[i].d[n] = s.p[i].d[n]
             \/ i \in Retyped(LastOp) /\ s.p[i].d[n] # ABSENT /\ s'.p[i].d[n] = Coerce(s.p[i].d[n])
    /\ \A i \in {1, 2} : i \notin Meta(LastOp) =>
          /\ s'.p[i].vary = s.p[i].vary /\ s'.p[i].canv = s.p[i].canv /\ s'.p[i].vlist = s.p[i].vlist
          /\ s'.p[i].steps = s.p[i].steps /\ s'.p[i].pobj = s.p[i].pobj
    /\ LastOp[1] \notin {"update_other", "setattr_other", "update_yourself", "idx_loadpars", "idx_savepars",
                         "idx_updateparameters"} => s'.o = s.o
    /\ LastOp[1] \notin {"save", "idx_savepars"} => s'.f = s.f
    /\ LastOp[1] # "save_json" => s'.j = s.j
Frame == [][FrameStep]_vars

\* ---- emission for the replay harness ----------------------------------------------------------
Compact(h) == [i \in 1..Len(h) |-> IF i = Len(h) THEN h[i] ELSE [op |-> h[i].op]]
EmitTransition == EmitMode # 1 \/ PrintT("@@" \o ToJson(Compact(hist')))
EmitFinal == EmitMode # 2 \/ Len(hist) < MaxDepth \/ PrintT("@@" \o ToJson(hist))
\* VIEW: the history is not part of the state identity, only its length is (one representative path per state
\* and depth; with the bare state a parallel search could meet a state first at the depth bound and never expand it)
View == <<s, Len(hist)>>
=============================================================================

SPECIFICATION Spec
CONSTANTS
  MaxDepth = 3
  BUG_GETBIG = FALSE
  BUG_SCALAR = FALSE
  BUG_ARRATTR = FALSE
  BUG_ADDARR = FALSE
  BUG_SLICE = FALSE
  BUG_CPNCOLS = FALSE
  BUG_OVERLIST = FALSE
  BUG_REFUSED_NROWS = FALSE
  AllowAlias = FALSE
  EmitMode = 0
INVARIANT NoError
INVARIANT Rectangular
INVARIANT ViewsAgree
INVARIANT SameStorage
INVARIANT CopiesDisjoint
INVARIANT CopyRectangular
PROPERTY RowOpsUniform
PROPERTY RefusedNoTrace
VIEW View
CHECK_DEADLOCK FALSE

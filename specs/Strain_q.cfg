\* Strain.tla, machine Spec, quick tier: 6 references x 22 stretches x 8 rotations = 1056 cases, 14923 states (exhaustive)
SPECIFICATION Spec
CONSTANTS
  REFS <- RefsQ
  STRETCHES <- StretchQ
  ROTS <- RotsQ
  OBJROTS <- ObjRots
  OBJU0 <- ObjU0
  OBJU0R <- ObjU0R
  HKINDS <- HKindsAll
  HREFS <- HRefsQ
  HSTRETCHES <- HStretchQ
  HROTS <- HRotsQ
  HU0R <- HU0RAll
  HSCALES <- HScalesAll
  MTOUCHES <- MTouchAll
  MFAILS <- MFailNone
  GFAILS <- MFailNone
  HLEN = 2
  PHASEDICTS <- PhaseDicts
  NVER = 2
  MLEN = 2
INVARIANT RefLatticeOK
INVARIANT PolarOK
INVARIANT RefIsSethHill
INVARIANT RefSym
INVARIANT LabIsRotatedRef
INVARIANT Objectivity
INVARIANT LabObjectivity
INVARIANT ZeroIff
INVARIANT FirstOrder
INVARIANT Emit
CHECK_DEADLOCK FALSE

\* trace mode: the sorted pair orders recorded from the real unitcell.filter_pairs ($TRACE_FILE) are
\* validated and the block machine is run on them, with both block-end variants; a line stands for the scales (ks)
\* of the cell at which exactly this order was recorded; an invalid order ends in "badtrace" (EmitBad).
\* NRC = 8: the ring table of the cells (the harness records the ring pairs of the first NR rings and the near-cut ones)
SPECIFICATION Spec
CONSTANTS
  MODE = "trace"
  Cells <- Cells_t
  NR = 4
  NRC = 8
  PairSel = "all"
  TieRules = {"fwd"}
  BugEnds = {TRUE, FALSE}
  CRanges = {0, 2, 710}
  Rots <- Rots_q
  Scales <- Scales_q
INVARIANT TypeOK
INVARIANT Irredundant
INVARIANT BlocksExact
INVARIANT Complete
INVARIANT TrueFound
INVARIANT NoBoundaryTie
INVARIANT EmitDone
INVARIANT EmitOut
INVARIANT EmitCrash
INVARIANT EmitBad
CHECK_DEADLOCK FALSE

SPECIFICATION Spec
CONSTANTS
  K = 10
  BOX = 6
  Cases <- Cases_asis
  FIXED = FALSE
INVARIANT ReturnIsVertexValue
CHECK_DEADLOCK FALSE

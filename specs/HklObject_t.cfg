\* C03 object histories: thorough tier (three limits)
SPECIFICATION Spec
CONSTANTS
  NLIM = 3
  DEPTH = 3
  ORDER = "list-first"
  EMIT = TRUE
INVARIANT TypeOK
INVARIANT RetInv
INVARIANT CacheInv
INVARIANT RingInv
INVARIANT Emit
CHECK_DEADLOCK FALSE

------------------------------ MODULE ProcState ------------------------------
(***************************************************************************)
(* Extra check X07 (specification growth): process / thread-count state of *)
(* the compiled module ImageD11._cImageD11 and its Python front end.       *)
(*                                                                         *)
(* Code modelled (pinned tree /repo):                                      *)
(*   ImageD11/cImageD11.py:26-86   check_multiprocessing(patch)            *)
(*   ImageD11/cImageD11.py:89-106  cores_available                         *)
(*   ImageD11/cImageD11.py:109-115 import time: OPENMP, check_multi...()   *)
(*   ImageD11/cImageD11.py:118-132 put_incr dispatch (put_incr64 / 32)     *)
(*   ImageD11/cImageD11.py:153-161 fill_in_docstrings                      *)
(*   ImageD11/cImageD11.py:168-185 array_bin, array_lt (numba, parallel)   *)
(*   src/cimaged11utils.c:5-21     cimaged11_omp_set_num_threads /         *)
(*                                 cimaged11_omp_get_max_threads (the tree *)
(*                                 has no pthread_atfork / getpid code)    *)
(*   ImageD11/ImageD11_thread.py:28-48  stop_now, ImageD11_thread.run,     *)
(*                                 ImageD11_stop_now                       *)
(*   ImageD11/indexing.py:1399-1415    do_index: get, set(1), finally set  *)
(*   users that set and do not restore (table Users below, bound by an AST *)
(*   scan): grid_index_parallel.py:280-288, sinograms/point_by_point.py    *)
(*   1089,1189 (numba), 1761 (idxpoint), 2125-2129, nbGui/S3DXRD/          *)
(*   run_pbp_recon.py:34-36                                                *)
(* and the platform the module runs on, as far as the module's behaviour   *)
(* depends on it (observed by probes, CPython 3.12 / libgomp / numba 0.67  *)
(* with its OpenMP threading layer; the harness checks these versions):    *)
(*   libgomp: nthreads-var starts as OMP_NUM_THREADS, else the size of the *)
(*     cpu affinity mask; omp_set_num_threads(n) stores n > 0 ? n : 1; a   *)
(*     parallel region with more than one thread creates the thread pool;  *)
(*     a forked child that enters a region with more than one thread while *)
(*     the parent's pool existed at the fork waits for threads that do not *)
(*     exist: it never returns (state "stuck")                             *)
(*   multiprocessing: the global start method (None until fixed);          *)
(*     set_start_method raises RuntimeError once fixed; starting a process *)
(*     from the default context fixes None to fork; starting one from an   *)
(*     explicit spawn / forkserver context ALSO fixes the parent's None to *)
(*     fork (spawn.get_preparation_data calls get_start_method()); in the  *)
(*     child the method is the one it was started with; a fork child is a  *)
(*     copy of the parent (modules, registers, flags), a spawn /           *)
(*     forkserver child is a fresh interpreter with the parent's environ   *)
(*   numba: the first use of its threading layer (get/set_num_threads or a *)
(*     parallel kernel) fixes the start method (None -> fork) and, with    *)
(*     the OpenMP layer, calls omp_set_num_threads(NUMBA_NUM_THREADS);     *)
(*     NUMBA_NUM_THREADS = size of the affinity mask at import;            *)
(*     set_num_threads(n) raises ValueError outside 1..NUMBA_NUM_THREADS;  *)
(*     a parallel kernel in a forked child whose parent had launched the   *)
(*     layer terminates the child (SIGTERM, state "dead")                  *)
(*                                                                         *)
(* Processes: the parent "P" (the interpreter the user starts) and at most *)
(* one multiprocessing child "C".  Every operation is one step of ONE      *)
(* process; TLC interleaves them freely (fork, the child's import and each *)
(* set / kernel are separate steps).                                       *)
(*                                                                         *)
(* Variables                                                               *)
(*   env   [cores, slurm, omp]: size of the cpu affinity mask, the values  *)
(*         of SLURM_CPUS_PER_TASK (nothing in the module reads it) and of  *)
(*         OMP_NUM_THREADS when the parent starts (0 = unset)              *)
(*   pr    process -> record                                               *)
(*         st      "none" (child not launched) "alive" "stuck" "dead"      *)
(*         loaded  ImageD11.cImageD11 is in sys.modules                    *)
(*         reg     OpenMP nthreads-var (cimaged11_omp_get_max_threads)     *)
(*         gs      multiprocessing.get_start_method(allow_none=True)       *)
(*         eomp    os.environ["OMP_NUM_THREADS"], 0 = not present          *)
(*         pool    this process created OpenMP worker threads              *)
(*         ipool   fork child: the parent's pool existed at the fork       *)
(*         nbl / inbl  numba's threading layer launched / launched in the  *)
(*                 parent before the fork                                  *)
(*         nbreg   numba.get_num_threads()                                 *)
(*         stop    ImageD11.ImageD11_thread.stop_now                       *)
(*         touched the child changed a thread count itself (set, numba)    *)
(*         warned  number of fork warnings raised in this process so far   *)
(*         pbp     ImageD11.sinograms.point_by_point is in sys.modules     *)
(*   wk    worker thread -> [pc, nwork, after, late]: pc "idle" "check"    *)
(*         "work" "done" "dead"; the loop is the idiom of peaksearcher.py  *)
(*         (while not self.ImageD11_stop_now(): one unit of work); after   *)
(*         counts units of work done while the flag was set, late = thread *)
(*         started after the flag was set                                  *)
(*   texc  worker threads that died with an exception                      *)
(*   hist  history <<op, ret, nw (fork warnings of the step), ns ("Got a   *)
(*         stop" lines of the step), projection of both processes>>;       *)
(*         the harness compares every field after every step               *)
(*                                                                         *)
(* Actions (x = the acting process)                                        *)
(*   PutEnv(v)        P: os.environ["OMP_NUM_THREADS"] = str(v)            *)
(*   SetStart(m)      P: multiprocessing.set_start_method(m)               *)
(*   Import(x)        import ImageD11.cImageD11: first import loads the    *)
(*                    OpenMP runtime (reg from the environment) and runs   *)
(*                    check_multiprocessing(); a no-op when the module was *)
(*                    inherited through fork                               *)
(*   SetThreads(x,n)  cimaged11_omp_set_num_threads(n)                     *)
(*   Kernel(x)        uint16_to_float_darksub + clean_mask + put_incr      *)
(*   CheckMP(x,patch) check_multiprocessing(patch)                         *)
(*   Launch(how)      P starts C: multiprocessing.Process (how = "default") *)
(*                    or get_context(how).Process                          *)
(*   NbGet(x) NbSet(x,n) NbKernel(x)  numba.get/set_num_threads,           *)
(*                    array_bin + array_lt                                 *)
(*   User(x,fail)     indexing.do_index (its indexing loop raises if fail) *)
(*   ImportPBP(x)     import ImageD11.sinograms.point_by_point (sets       *)
(*                    OMP_NUM_THREADS=1, imports the module, calls         *)
(*                    check_multiprocessing(patch=True); a second call     *)
(*                    comes from sinograms/properties.py:18)               *)
(*   TStart(w) TCheck(w) TWork(w) TRaise(w) StopSet  worker threads of P   *)
(*                                                                         *)
(* Laws (what a user relies on; decided from code, docstrings, comments    *)
(* and test/test_forking.py)                                               *)
(*   TypeOK                                                                *)
(*   RegPositive     a loaded process never reports fewer than 1 thread    *)
(*   SetGet          set(n); get() = n for n >= 1, and 1 for n <= 0        *)
(*   CoresOK         cores_available() = size of the affinity mask >= 1,   *)
(*                   whatever OMP_NUM_THREADS / SLURM_CPUS_PER_TASK / the  *)
(*                   thread count are (it is part of every projection)     *)
(*   WarnRule        a step raises the fork warning exactly when it runs   *)
(*                   check_multiprocessing (first import, explicit call)   *)
(*                   with start method fork, plus once more in a child     *)
(*                   whose method is fork (or None); never under spawn /   *)
(*                   forkserver (test_threads_in_child_no_warn)            *)
(*   PatchSafe       check_multiprocessing(patch=True) in the parent       *)
(*                   either leaves a spawn / forkserver start method or    *)
(*                   warns                                                 *)
(*   SafeNeverStuck  a child started by spawn / forkserver is never stuck  *)
(*   OneThreadNeverStuck  a process whose OpenMP (numba) thread count is 1 *)
(*                   does not get stuck in an OpenMP (numba) kernel        *)
(*   ChildThreadsOne ("child processes -> oversubscribe -> we will set num *)
(*                   threads to 1"; test_forking: "failed to set omp       *)
(*                   threads == 1 for child"): after `import               *)
(*                   ImageD11.cImageD11` in a child that did not change    *)
(*                   the count itself, OMP_NUM_THREADS absent => 1 thread. *)
(*                   VIOLATED by the tree (BUG_INHERIT): a fork child of a *)
(*                   parent that had imported the module keeps the         *)
(*                   parent's count, its import is a no-op                 *)
(*   DefaultNoHang   a child that did not touch thread counts, with        *)
(*                   OMP_NUM_THREADS absent and no fork warning raised in  *)
(*                   either process, never hangs in an OpenMP kernel.      *)
(*                   VIOLATED by the tree (BUG_INHERIT): import, kernel,   *)
(*                   Process().start(), kernel in the child                *)
(*   RegFrame        the OpenMP thread count of a process changes only by  *)
(*                   cimaged11_omp_set_num_threads / the module's own      *)
(*                   import and check_multiprocessing in that process (and *)
(*                   the copy at fork).  VIOLATED by the tree with numba's *)
(*                   OpenMP layer (BUG_NBRESET): the first numba call      *)
(*                   (array_bin, array_lt, numba.set_num_threads in        *)
(*                   point_by_point) overrides OMP_NUM_THREADS and any     *)
(*                   earlier cimaged11_omp_set_num_threads                 *)
(*   PbpOneThread    importing point_by_point before anything else of      *)
(*                   ImageD11 leaves the process with one OpenMP thread    *)
(*   Restore         do_index leaves the thread count as it found it, also *)
(*                   when the indexing loop raises; inside the loop it is 1*)
(*   StopSticky      nothing modelled clears stop_now                      *)
(*   StopBound       a worker does at most one unit of work after the flag *)
(*                   was set (the one whose check came before), and none   *)
(*                   once one of its checks saw the flag                   *)
(*   LateNoWork      a worker started after the flag was set does no work  *)
(*   RaiseStops      a worker whose ImageD11_run raises sets the flag      *)
(*   FlagPerProcess  a fork child starts with the parent's flag value, a   *)
(*                   spawn / forkserver child with False; later changes    *)
(*                   never cross the process boundary                      *)
(* Laws weakened / dropped: "users restore the thread count" is promised   *)
(*   by do_index only (it saves the old value); the other users are        *)
(*   top-level drivers / pool workers that set and leave (table Users: the *)
(*   harness checks by an AST scan that the tree has exactly these).       *)
(*   "Stuck implies warned" is not promised: with OMP_NUM_THREADS present  *)
(*   a fork child keeps more than one thread by design.  Liveness of the   *)
(*   worker loop (stop ~> all done) is not checked (depth-bounded model).  *)
(*   Kernel results: the model's Kernel returns the reference value for    *)
(*   every thread count; that the real kernels do is established by the    *)
(*   replay (digests against numpy references).                            *)
(*                                                                         *)
(* BUG_INHERIT = TRUE : pinned tree.  FALSE: an os.register_at_fork hook   *)
(*   (after_in_child) applies the import-time rule (OMP_NUM_THREADS absent *)
(*   -> 1 thread) to fork children that inherit the module.                *)
(* BUG_NBRESET = TRUE : pinned tree with numba's OpenMP layer.  FALSE: the *)
(*   module launches numba's layer at import and puts the count back.      *)
(* Bounds: MaxDepth operations; alphabets in the configuration files.      *)
(***************************************************************************)
EXTENDS Integers, Sequences, FiniteSets, TLC, Json

CONSTANTS
    EnvOmp,         \* initial OMP_NUM_THREADS values (0 = not set)
    Cores,          \* sizes of the cpu affinity mask
    Slurm,          \* SLURM_CPUS_PER_TASK values (0 = not set)
    PutVals,        \* v of os.environ["OMP_NUM_THREADS"] = v
    SetVals,        \* n of cimaged11_omp_set_num_threads(n)
    NbVals,         \* n of numba.set_num_threads(n)
    Starts,         \* m of multiprocessing.set_start_method(m)
    Hows,           \* "default" "fork" "spawn" "forkserver"
    POps,           \* operation classes of the parent
    COps,           \* operation classes of the child
    NW,             \* worker threads
    MaxDepth,
    BUG_INHERIT, BUG_NBRESET,
    EmitMode        \* 0 none, 1 every transition, 2 behaviours of MaxDepth steps

VARIABLES env, pr, wk, texc, hist
vars == <<env, pr, wk, texc, hist>>

Procs == {"P", "C"}
SetValsNeg == {-1, 0, 1, 3}        \* configuration files cannot hold negative numbers: SetVals <- SetValsNeg
Methods == {"none", "fork", "spawn", "forkserver"}
Workers == 1..NW
Max(a, b) == IF a > b THEN a ELSE b

Fresh(st, gs, eomp) ==
    [st |-> st, loaded |-> FALSE, reg |-> 0, gs |-> gs, eomp |-> eomp, pool |-> FALSE, ipool |-> FALSE,
     nbl |-> FALSE, inbl |-> FALSE, nbreg |-> 0, stop |-> FALSE, touched |-> FALSE, warned |-> 0, pbp |-> FALSE]

Init == /\ env \in [cores : Cores, slurm : Slurm, omp : EnvOmp]
        /\ pr = [P |-> Fresh("alive", "none", env.omp), C |-> Fresh("none", "none", 0)]
        /\ wk = [w \in Workers |-> [pc |-> "idle", nwork |-> 0, after |-> 0, late |-> FALSE]]
        /\ texc = 0
        /\ hist = <<>>

\* ---- what the harness observes of a process -------------------------------------------------
Proj(r) == [st |-> r.st, loaded |-> r.loaded, reg |-> r.reg, cores |-> IF r.loaded THEN env.cores ELSE 0,
            gs |-> r.gs, eomp |-> r.eomp, nbl |-> r.nbl, nbreg |-> r.nbreg, stop |-> r.stop]
WProj(k) == [w \in Workers |-> [alive |-> k[w].pc \in {"check", "work"}, nwork |-> k[w].nwork]]

Log(op, ret, nw, ns) ==
    hist' = Append(hist, [op |-> op, ret |-> ret, nw |-> nw, ns |-> ns,
                          P |-> Proj(pr'.P), C |-> Proj(pr'.C), W |-> WProj(wk'), tx |-> texc'])

CanStep == Len(hist) < MaxDepth
Acts(x) == pr[x].st = "alive"
Allowed(x, cls) == CanStep /\ (IF x = "P" THEN cls \in POps ELSE cls \in COps)

\* ---- the module ------------------------------------------------------------------------------
\* check_multiprocessing(patch) executed in a process with record r
CheckEffect(r, ischild, patch) ==
    LET w1 == IF r.gs = "fork" THEN 1 ELSE 0                                     \* cImageD11.py:56-57
        w2 == IF ischild /\ r.gs \in {"fork", "none"} THEN 1 ELSE 0              \* :65, :70-72
        reg1 == IF ischild /\ r.eomp = 0 THEN 1 ELSE r.reg                       \* :66-69
        gs1 == IF r.gs = "none" /\ patch THEN "forkserver" ELSE r.gs             \* :73-81
    IN [rec |-> [r EXCEPT !.reg = reg1, !.gs = gs1, !.warned = @ + w1 + w2], nw |-> w1 + w2]

\* the OpenMP runtime is loaded with the extension module: nthreads-var from the environment
InitReg(r) == IF r.eomp # 0 THEN r.eomp ELSE env.cores

PutEnv(v) ==
    /\ Allowed("P", "putenv")
    /\ pr' = [pr EXCEPT !.P.eomp = v]
    /\ UNCHANGED <<env, wk, texc>>
    /\ Log(<<"putenv", "P", v>>, "ok", 0, 0)

SetStart(m) ==
    /\ Allowed("P", "setstart")
    /\ UNCHANGED <<env, wk, texc>>
    /\ IF pr.P.gs = "none"
         THEN /\ pr' = [pr EXCEPT !.P.gs = m]
              /\ Log(<<"setstart", "P", m>>, "ok", 0, 0)
         ELSE /\ pr' = pr
              /\ Log(<<"setstart", "P", m>>, "exc:RuntimeError", 0, 0)

Import(x) ==
    /\ Acts(x) /\ Allowed(x, "import")
    /\ UNCHANGED <<env, wk, texc>>
    /\ IF pr[x].loaded
         THEN /\ pr' = pr                                       \* already in sys.modules: nothing runs
              /\ Log(<<"import", x>>, "ok", 0, 0)
         ELSE LET r0 == [pr[x] EXCEPT !.loaded = TRUE, !.reg = InitReg(pr[x])]
                  e == CheckEffect(r0, x = "C", FALSE)          \* cImageD11.py:109-115 (OPENMP build)
              IN /\ pr' = [pr EXCEPT ![x] = e.rec]
                 /\ Log(<<"import", x>>, "ok", e.nw, 0)

SetThreads(x, n) ==
    /\ Acts(x) /\ Allowed(x, "set") /\ pr[x].loaded
    /\ pr' = [pr EXCEPT ![x].reg = IF n > 0 THEN n ELSE 1, ![x].touched = (x = "C") \/ @]
    /\ UNCHANGED <<env, wk, texc>>
    /\ Log(<<"set", x, n>>, "ok", 0, 0)

Kernel(x) ==
    /\ Acts(x) /\ Allowed(x, "kernel") /\ pr[x].loaded
    /\ UNCHANGED <<env, wk, texc>>
    /\ IF pr[x].ipool /\ pr[x].reg > 1
         THEN /\ pr' = [pr EXCEPT ![x].st = "stuck"]
              /\ Log(<<"kernel", x>>, "stuck", 0, 0)
         ELSE /\ pr' = [pr EXCEPT ![x].pool = @ \/ pr[x].reg > 1]
              /\ Log(<<"kernel", x>>, "kernel", 0, 0)           \* the reference digests, for every thread count

CheckMP(x, patch) ==
    /\ Acts(x) /\ Allowed(x, "checkmp") /\ pr[x].loaded
    /\ UNCHANGED <<env, wk, texc>>
    /\ LET e == CheckEffect(pr[x], x = "C", patch)
       IN /\ pr' = [pr EXCEPT ![x] = e.rec]
          /\ Log(<<"checkmp", x, patch>>, "ok", e.nw, 0)

\* the method a launch really uses, and what it does to the parent's global start method
Eff(how) == IF how = "default" THEN (IF pr.P.gs = "none" THEN "fork" ELSE pr.P.gs) ELSE how
ParentGsAfter(how) ==
    IF pr.P.gs # "none" THEN pr.P.gs
    ELSE IF how = "default" THEN "fork"                          \* DefaultContext.get_context fixes the default
    ELSE IF how \in {"spawn", "forkserver"} THEN "fork"          \* spawn.get_preparation_data: get_start_method()
    ELSE "none"                                                  \* explicit fork context: untouched

Launch(how) ==
    /\ Allowed("P", "launch") /\ pr.C.st = "none"
    /\ LET eff == Eff(how)
           p == pr.P
           forkchild ==
               [p EXCEPT !.st = "alive", !.gs = "fork", !.pool = FALSE, !.ipool = p.pool, !.inbl = p.nbl,
                         !.touched = FALSE, !.warned = 0,
                         !.reg = IF ~BUG_INHERIT /\ p.loaded /\ p.eomp = 0 THEN 1 ELSE p.reg]
           child == IF eff = "fork" THEN forkchild ELSE Fresh("alive", eff, p.eomp)
       IN pr' = [pr EXCEPT !.P.gs = ParentGsAfter(how), !.C = child]
    /\ UNCHANGED <<env, wk, texc>>
    /\ Log(<<"launch", "P", how>>, "ok", 0, 0)

\* numba: first use of the threading layer
NbLaunched(r) ==
    IF r.nbl THEN r
    ELSE [r EXCEPT !.nbl = TRUE, !.nbreg = env.cores,
                   !.gs = IF r.gs = "none" THEN "fork" ELSE r.gs,          \* parallel.py: multiprocessing.get_start_method()
                   !.reg = IF BUG_NBRESET THEN env.cores ELSE r.reg]       \* omppool: omp_set_num_threads(NUMBA_NUM_THREADS)

NbGet(x) ==
    /\ Acts(x) /\ Allowed(x, "nbget") /\ pr[x].loaded
    /\ UNCHANGED <<env, wk, texc>>
    /\ LET r == NbLaunched(pr[x])
       IN /\ pr' = [pr EXCEPT ![x] = [r EXCEPT !.touched = (x = "C") \/ @]]
          /\ Log(<<"nbget", x>>, ToString(r.nbreg), 0, 0)

NbSet(x, n) ==
    /\ Acts(x) /\ Allowed(x, "nbset") /\ pr[x].loaded
    /\ UNCHANGED <<env, wk, texc>>
    /\ LET r == NbLaunched(pr[x])
           ok == n >= 1 /\ n <= env.cores
       IN /\ pr' = [pr EXCEPT ![x] = [r EXCEPT !.nbreg = IF ok THEN n ELSE @, !.touched = (x = "C") \/ @]]
          /\ Log(<<"nbset", x, n>>, IF ok THEN "ok" ELSE "exc:ValueError", 0, 0)

NbKernel(x) ==
    /\ Acts(x) /\ Allowed(x, "nbkernel") /\ pr[x].loaded
    /\ UNCHANGED <<env, wk, texc>>
    /\ LET r == NbLaunched(pr[x])
       IN IF r.inbl
            THEN /\ pr' = [pr EXCEPT ![x] = [r EXCEPT !.st = "dead"]]       \* numba: "Terminating: fork() called ..."
                 /\ Log(<<"nbkernel", x>>, "dead", 0, 0)
            ELSE IF r.ipool /\ r.nbreg > 1
            THEN /\ pr' = [pr EXCEPT ![x] = [r EXCEPT !.st = "stuck"]]
                 /\ Log(<<"nbkernel", x>>, "stuck", 0, 0)
            ELSE /\ pr' = [pr EXCEPT ![x] = [r EXCEPT !.pool = @ \/ r.nbreg > 1]]
                 /\ Log(<<"nbkernel", x>>, "nbkernel", 0, 0)

\* indexing.do_index: threadb4 = get; set(1); loop (may raise); finally set(threadb4)
User(x, fail) ==
    /\ Acts(x) /\ Allowed(x, "user") /\ pr[x].loaded
    /\ pr' = pr
    /\ UNCHANGED <<env, wk, texc>>
    /\ Log(<<"user", x, "do_index", fail>>, IF fail THEN "exc:Boom" ELSE "seen:1", 0, 0)

\* import ImageD11.sinograms.point_by_point (point_by_point.py:7-15): os.environ["OMP_NUM_THREADS"] = "1", then
\* `from ImageD11 import cImageD11`, then cImageD11.check_multiprocessing(patch=True); its import of
\* ImageD11.sinograms.dataset brings in sinograms/properties.py, whose line 18 calls check_multiprocessing(patch=True)
\* once more; nothing on a second import
ImportPBP(x) ==
    /\ Acts(x) /\ Allowed(x, "pbp")
    /\ UNCHANGED <<env, wk, texc>>
    /\ IF pr[x].pbp
         THEN /\ pr' = pr
              /\ Log(<<"pbp", x>>, "ok", 0, 0)
         ELSE LET r0 == [pr[x] EXCEPT !.eomp = 1, !.pbp = TRUE]
                  e1 == IF r0.loaded THEN [rec |-> r0, nw |-> 0]
                        ELSE CheckEffect([r0 EXCEPT !.loaded = TRUE, !.reg = InitReg(r0)], x = "C", FALSE)
                  e2 == CheckEffect(e1.rec, x = "C", TRUE)          \* point_by_point.py:15
                  e3 == CheckEffect(e2.rec, x = "C", TRUE)          \* sinograms/properties.py:18
              IN /\ pr' = [pr EXCEPT ![x] = e3.rec]
                 /\ Log(<<"pbp", x>>, "ok", e1.nw + e2.nw + e3.nw, 0)

\* ---- worker threads of the parent (ImageD11_thread.py) ---------------------------------------
TStart(w) ==
    /\ Allowed("P", "thread") /\ wk[w].pc = "idle"
    /\ wk' = [wk EXCEPT ![w].pc = "check", ![w].late = pr.P.stop]
    /\ UNCHANGED <<env, pr, texc>>
    /\ Log(<<"tstart", "P", w>>, "ok", 0, 0)

TCheck(w) ==                                    \* ImageD11_stop_now(): prints when the flag is set, returns it
    /\ Allowed("P", "thread") /\ wk[w].pc = "check"
    /\ wk' = [wk EXCEPT ![w].pc = IF pr.P.stop THEN "done" ELSE "work"]
    /\ UNCHANGED <<env, pr, texc>>
    /\ Log(<<"tcheck", "P", w>>, IF pr.P.stop THEN "TRUE" ELSE "FALSE", 0, IF pr.P.stop THEN 1 ELSE 0)

TWork(w) ==
    /\ Allowed("P", "thread") /\ wk[w].pc = "work"
    /\ wk' = [wk EXCEPT ![w].pc = "check", ![w].nwork = @ + 1, ![w].after = @ + (IF pr.P.stop THEN 1 ELSE 0)]
    /\ UNCHANGED <<env, pr, texc>>
    /\ Log(<<"twork", "P", w>>, ToString(wk[w].nwork + 1), 0, 0)

TRaise(w) ==                                    \* ImageD11_run raises: run() sets stop_now and re-raises
    /\ Allowed("P", "thread") /\ wk[w].pc = "work"
    /\ wk' = [wk EXCEPT ![w].pc = "dead"]
    /\ pr' = [pr EXCEPT !.P.stop = TRUE]
    /\ texc' = texc + 1
    /\ UNCHANGED env
    /\ Log(<<"traise", "P", w>>, "raise", 0, 0)

StopSet(x) ==                                   \* peaksearcher.py:534,549: ImageD11_thread.stop_now = True
    /\ Acts(x) /\ Allowed(x, "stopset")
    /\ pr' = [pr EXCEPT ![x].stop = TRUE]
    /\ UNCHANGED <<env, wk, texc>>
    /\ Log(<<"stopset", x>>, "ok", 0, 0)

\* every action is guarded by CanStep (through Allowed): at most MaxDepth operations
Next ==
    \/ \E v \in PutVals : PutEnv(v)
    \/ \E m \in Starts : SetStart(m)
    \/ \E x \in Procs : Import(x) \/ Kernel(x) \/ NbGet(x) \/ NbKernel(x) \/ StopSet(x) \/ ImportPBP(x)
    \/ \E x \in Procs, n \in SetVals : SetThreads(x, n)
    \/ \E x \in Procs, n \in NbVals : NbSet(x, n)
    \/ \E x \in Procs, b \in BOOLEAN : CheckMP(x, b) \/ User(x, b)
    \/ \E h \in Hows : Launch(h)
    \/ \E w \in Workers : TStart(w) \/ TCheck(w) \/ TWork(w) \/ TRaise(w)

Spec == Init /\ [][Next]_vars

\* ---- laws --------------------------------------------------------------------------------------
RecOK(r) == /\ r.st \in {"none", "alive", "stuck", "dead"} /\ r.loaded \in BOOLEAN /\ r.reg \in Nat
            /\ r.gs \in Methods /\ r.eomp \in Nat /\ r.pool \in BOOLEAN /\ r.ipool \in BOOLEAN
            /\ r.nbl \in BOOLEAN /\ r.inbl \in BOOLEAN /\ r.nbreg \in Nat /\ r.stop \in BOOLEAN
            /\ r.touched \in BOOLEAN /\ r.warned \in Nat /\ r.pbp \in BOOLEAN
TypeOK == /\ RecOK(pr.P) /\ RecOK(pr.C) /\ pr.P.st = "alive" /\ texc \in Nat
          /\ \A w \in Workers : wk[w].pc \in {"idle", "check", "work", "done", "dead"}
          /\ (pr.C.st = "none" => ~pr.C.loaded) /\ (~pr.P.loaded => pr.P.reg = 0)

RegPositive == \A x \in Procs : pr[x].loaded => pr[x].reg >= 1

Last == hist'[Len(hist')]
LastOp == Last.op
Stepped == hist' # hist

SetGet == [][Stepped /\ LastOp[1] = "set" => pr'[LastOp[2]].reg = Max(LastOp[3], 1)]_vars

\* the fork warning: exactly the situations of cImageD11.py:56-57 and :70-72
RunsCheck == LastOp[1] = "checkmp" \/ (LastOp[1] = "import" /\ ~pr[LastOp[2]].loaded)
PbpWarns(x) == LET g == pr[x].gs                \* two explicit checks, three when the module was not loaded yet
                   one == (IF g = "fork" THEN 1 ELSE 0) + (IF x = "C" /\ g \in {"fork", "none"} THEN 1 ELSE 0)
               IN IF pr[x].pbp THEN 0 ELSE IF pr[x].loaded THEN 2 * one ELSE 3 * one
WarnRule ==
    [][Stepped =>
        IF RunsCheck
          THEN LET x == LastOp[2]
                   g == pr[x].gs
               IN /\ (g \in {"spawn", "forkserver"} => Last.nw = 0)
                  /\ (g = "fork" => Last.nw = IF x = "C" THEN 2 ELSE 1)
                  /\ (g = "none" => Last.nw = 0 /\ x = "P")
          ELSE IF LastOp[1] = "pbp" THEN Last.nw = PbpWarns(LastOp[2])
          ELSE Last.nw = 0]_vars

PatchSafe ==
    [][Stepped /\ ((LastOp[1] = "checkmp" /\ LastOp[2] = "P" /\ LastOp[3] = TRUE) \/ (LastOp[1] = "pbp" /\ LastOp[2] = "P" /\ ~pr.P.pbp))
         => Last.nw > 0 \/ pr'.P.gs \in {"spawn", "forkserver"}]_vars

SafeNeverStuck == pr.C.st = "stuck" => pr.C.gs = "fork"
OneThreadNeverStuck ==
    [][Stepped /\ pr'[LastOp[2]].st = "stuck" /\ pr[LastOp[2]].st = "alive" =>
         \/ LastOp[1] = "kernel" /\ pr[LastOp[2]].reg > 1
         \/ LastOp[1] = "nbkernel" /\ (pr[LastOp[2]].nbreg > 1 \/ ~pr[LastOp[2]].nbl)]_vars

ChildThreadsOne ==
    [][Stepped /\ LastOp[1] = "import" /\ LastOp[2] = "C" /\ ~pr'.C.touched /\ pr'.C.eomp = 0 => pr'.C.reg = 1]_vars
\* importing point_by_point announces one thread per process (OMP_NUM_THREADS = 1 before the runtime loads); it holds
\* when that import is the first one of ImageD11.cImageD11 in the process, or in a child
PbpOneThread ==
    [][Stepped /\ LastOp[1] = "pbp" /\ ~pr[LastOp[2]].pbp /\ (~pr[LastOp[2]].loaded) => pr'[LastOp[2]].reg = 1]_vars

DefaultNoHang ==
    [][Stepped /\ LastOp[1] = "kernel" /\ LastOp[2] = "C" /\ pr'.C.st = "stuck"
         => pr.C.touched \/ pr.C.eomp # 0 \/ pr.P.warned + pr.C.warned > 0]_vars

RegFrame ==
    [][Stepped => \A x \in Procs :
         pr'[x].reg # pr[x].reg =>
            \/ LastOp[1] \in {"set", "import", "checkmp", "pbp"} /\ LastOp[2] = x
            \/ LastOp[1] = "launch" /\ x = "C"]_vars

Restore == [][Stepped /\ LastOp[1] = "user" => pr'[LastOp[2]].reg = pr[LastOp[2]].reg]_vars

StopSticky == [][\A x \in Procs : pr[x].stop /\ pr[x].st = pr'[x].st => pr'[x].stop]_vars
StopBound == \A w \in Workers : wk[w].after <= 1
DoneIsFinal == [][\A w \in Workers : wk[w].pc \in {"done", "dead"} => wk'[w] = wk[w]]_vars
LateNoWork == \A w \in Workers : wk[w].late => wk[w].nwork = 0
RaiseStops == [][Stepped /\ LastOp[1] = "traise" => pr'.P.stop]_vars
FlagPerProcess ==
    [][Stepped =>
         /\ (LastOp[1] = "launch" => pr'.C.stop = (pr'.C.gs = "fork" /\ pr.P.stop))
         /\ (LastOp[1] # "launch" => \A x \in Procs :
                pr'[x].stop # pr[x].stop => (LastOp[1] = "traise" /\ x = "P") \/ (LastOp[1] = "stopset" /\ LastOp[2] = x))]_vars

\* ---- table of the users that change a thread count (bound by the harness with an AST scan) ----
\* kind: "restore" = saves the old value and restores it in a finally clause; "leave" = sets and returns
Users == { [file |-> "ImageD11/indexing.py", func |-> "do_index", api |-> "omp", kind |-> "restore"],
           [file |-> "ImageD11/grid_index_parallel.py", func |-> "grid_index_parallel", api |-> "omp", kind |-> "leave"],
           [file |-> "ImageD11/sinograms/point_by_point.py", func |-> "idxpoint", api |-> "omp", kind |-> "leave"],
           [file |-> "ImageD11/sinograms/point_by_point.py", func |-> "<module>", api |-> "omp", kind |-> "leave"],
           [file |-> "ImageD11/sinograms/point_by_point.py", func |-> "PBPRefine.get_origins", api |-> "numba", kind |-> "leave"],
           [file |-> "ImageD11/sinograms/point_by_point.py", func |-> "PBPRefine.run_refine", api |-> "numba", kind |-> "leave"],
           [file |-> "ImageD11/nbGui/S3DXRD/run_pbp_recon.py", func |-> "<module>", api |-> "omp", kind |-> "leave"] }

\* ---- emission --------------------------------------------------------------------------------
EmitTransition == EmitMode # 1 \/ PrintT("@@" \o ToJson([env |-> env, hist |-> hist']))
EmitFinal == EmitMode # 2 \/ Len(hist) < MaxDepth \/ PrintT("@@" \o ToJson([env |-> env, hist |-> hist]))
EmitUsers == Len(hist) > 0 \/ PrintT("@@" \o ToJson([users |-> Users]))
View == <<env, pr, wk, texc, Len(hist)>>
\* state constraint of ProcState_nbk_q.cfg (each behaviour compiles two numba kernels per process: keep them few):
\* the parent imports first and the child is launched last
NbkShape == /\ (Len(hist) >= 1 => hist[1].op[1] = "import")
            /\ (pr.C.st # "none" => pr.P.nbl \/ Len(hist) = 2)
=============================================================================

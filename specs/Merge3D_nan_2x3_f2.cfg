SPECIFICATION Spec
CONSTANTS
  NS = 2
  NF = 3
  MAXFR = 2
  VALS = {2, 3}
  THR = 1
  PATTERN = FALSE
  OM0 = 1
  OMSTEP = 1
  OMSEQ <- NoSeq
  VSHIFT = 0
  MAXFIX = FALSE
  NANV = 3
  EMITSTEPS = TRUE
INVARIANT NoBad
INVARIANT ShapeOK
INVARIANT LinkOK
INVARIANT NoSame1
INVARIANT ScanLive
INVARIANT Conserved
INVARIANT KernelPost
INVARIANT PrefixOK
INVARIANT DoneOK
INVARIANT EmitDone
INVARIANT EmitStep
CHECK_DEADLOCK FALSE

SPECIFICATION Spec
CONSTANTS
  MS <- MS_q
  DS <- DS_q
  TOLS <- TOLS_std
  POOL <- POOL_std
  MAXPK = 3
  SCALES <- SCALES_unit
  LABS <- LABS_q
  NBAD = 0
  UBADS <- UBADS_none
INVARIANT HSym
INVARIANT CountOK
INVARIANT CauchyBinet
INVARIANT StrictBoundary
INVARIANT ScoreDef
INVARIANT Covariant
INVARIANT FixedPoint
INVARIANT SubList
INVARIANT Emit
CHECK_DEADLOCK FALSE

SPECIFICATION Spec
CONSTANTS
  MS <- MS_q
  DS <- DS_q
  TOLS <- TOLS_std
  POOL <- POOL_std
  MAXPK = 3
  LABS <- LABS_q
INVARIANT HSym
INVARIANT CountOK
INVARIANT CauchyBinet
INVARIANT StrictBoundary
INVARIANT ScoreDef
INVARIANT Emit
CHECK_DEADLOCK FALSE

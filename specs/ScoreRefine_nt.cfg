SPECIFICATION Spec
CONSTANTS
  MS <- MS_q
  DS <- DS_s
  TOLS <- TOLS_s
  POOL <- POOL_n
  MAXPK = 4
  SCALES <- SCALES_unit
  LABS <- LABS_nt
  NBAD = 5
  UBADS <- UBADS_all
INVARIANT HSym
INVARIANT CountOK
INVARIANT CauchyBinet
INVARIANT StrictBoundary
INVARIANT ScoreDef
INVARIANT Covariant
INVARIANT FixedPoint
INVARIANT SubList
INVARIANT Emit
CHECK_DEADLOCK FALSE

\* two threads, any thread grabs any unstarted prange index (= every partition, order and interleaving);
\* one edge list per multiset of edges over <= 4 nodes, <= 3 positions (1228 instances)
SPECIFICATION Spec
CONSTANTS
  NSet = {1,2,3,4}
  ESet = {0,1,2,3}
  Threads = {t1, t2}
  Static = FALSE
  OrdSet = {0}
  History = TRUE
  DoEmit = FALSE
  Bug = "none"
  Hist = 0
  DsHist = 0
  DsOps = {}
  NMon = 0
  Neg = TRUE
  Shape = "sorted"
SYMMETRY Sym
INVARIANT TypeOK
INVARIANT InComp
INVARIANT MinFixed
INVARIANT LocalsOK
INVARIANT ZeroAgree
INVARIANT Fixpoint
INVARIANT FixReadsRoot
INVARIANT CleanOK
INVARIANT MergeOK
INVARIANT SweepLegal
INVARIANT SeqExact
INVARIANT EmitInv
CHECK_DEADLOCK FALSE

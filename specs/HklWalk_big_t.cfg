\* BIG instances, thorough tier: every form of BigTable with all seven centrings
SPECIFICATION SpecBig
CONSTANTS
  HMAX = 200
  Forms = {}
  Limits = {}
  Centrings = {}
  Outif <- OutifPinned
  TIE = FALSE
  ORACLE = TRUE
  BigCases <- BigThorough
INVARIANT TypeOK
INVARIANT BigBoxInv
INVARIANT EmitBig
CHECK_DEADLOCK FALSE

INIT InitWalk
NEXT NextWalk
CONSTANTS
  Depth = 4
  WAng <- AngQuick
  WCombo <- ComboQuick
  WStart <- Frames
  WRepeat = FALSE
  RNy <- RNyAll
  ROffH <- ROffAll
  RPosQ <- RPosSet
  RYstep <- YstepAll
  RScan <- RScanAll
  RPadMode <- RPadModes
  RYminMode <- RYminModes
  PMaxN = 12
  PMaxW = 16
  PMaxP = 16
INVARIANT TypeWalk
INVARIANT CycleIdentity
INVARIANT RefAgree
INVARIANT CompositesEqualCompositions
INVARIANT InBeamZero
INVARIANT SnapResidual
INVARIANT MaskAgree
INVARIANT RoundTripI
INVARIANT VoxelHasRow
INVARIANT FunctionOfCurrentValues
INVARIANT RepeatWellFormed
INVARIANT EmitWalk
CHECK_DEADLOCK FALSE

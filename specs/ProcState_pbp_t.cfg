\* X07 thorough: importing ImageD11.sinograms.point_by_point (environment write, import, check_multiprocessing(patch=True))
SPECIFICATION Spec
CONSTANTS
  EnvOmp = {0, 2}
  Cores = {2}
  Slurm = {0}
  PutVals = {}
  SetVals = {}
  NbVals = {}
  Starts = {"fork"}
  Hows = {"default"}
  POps = {"setstart", "import", "pbp", "launch"}
  COps = {"pbp"}
  NW = 0
  MaxDepth = 3
  BUG_INHERIT = TRUE
  BUG_NBRESET = TRUE
  EmitMode = 1
INVARIANT TypeOK
INVARIANT RegPositive
INVARIANT SafeNeverStuck
INVARIANT StopBound
INVARIANT LateNoWork
PROPERTY SetGet
PROPERTY WarnRule
PROPERTY PatchSafe
PROPERTY OneThreadNeverStuck
PROPERTY Restore
PROPERTY StopSticky
PROPERTY DoneIsFinal
PROPERTY RaiseStops
PROPERTY FlagPerProcess
PROPERTY PbpOneThread
ACTION_CONSTRAINT EmitTransition
VIEW View
CHECK_DEADLOCK FALSE

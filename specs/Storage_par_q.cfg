\* quick: parameter files, depth 4
SPECIFICATION Spec
CONSTANTS
  Family = "pars"
  Paths = {"p1", "p2"}
  Groups = {"none"}
  SeedTuples <- SeedsPar
  OpNames = {"SavePars", "LoadFresh", "LoadInto"}
  MaxDepth = 4
  EmitOn = TRUE
INVARIANT TypeOK
INVARIANT InvFixed
INVARIANT InvAsIs
INVARIANT Emit
VIEW View
CHECK_DEADLOCK FALSE

\* quick: proper kernels (the closed forms of the proposed repair); u1, u2 in the 40 rational rotations
\* with quaternion components -1..1 (the 24 cubic rotations + 16 with denominator 3) and the 9 products
\* Rz(a).Rx(b) of three Pythagorean angles: 49 x 49 pairs
SPECIFICATION Spec
CONSTANTS
  QMax1 = 1
  EAng1 <- EA_q
  QMax2 = 1
  EAng2 <- EA_q
  Kernels = "proper"
INVARIANT TypeOK
INVARIANT ROk
INVARIANT ScanLoopInv
INVARIANT ScanIsMax
INVARIANT Symmetric
INVARIANT GroupInvariant
INVARIANT FrameInvariant
INVARIANT ZeroIffOrbit
INVARIANT Chain
INVARIANT FundZone
INVARIANT CubicAgrees
INVARIANT TetraAgrees
INVARIANT OrthoAgrees
INVARIANT MonoAgrees
INVARIANT PinnedExplained
INVARIANT Emit
CHECK_DEADLOCK FALSE

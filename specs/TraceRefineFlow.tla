-------------------------- MODULE TraceRefineFlow --------------------------
(***************************************************************************)
(* Trace validation (code -> spec) of refinegrains / makemap runs, C09.    *)
(* Each line of TRACE_FILE is one recorded run on simulated data:          *)
(*   id, NG, utol (user tolerance as an integer id), ev[], and the final   *)
(*   fixed-point errors with their bounds.                                 *)
(* Translations are logged as small integer ids (identical float triples   *)
(* get the same id), grains as 1..NG.  Events (harness wrappers around     *)
(* the real methods, no source hooks):                                     *)
(*   settrans  g, gt (translation held by grain g), pt (parameter object   *)
(*             after the call)                                             *)
(*   kernelgv  t  : cImageD11.compute_gv called with translation t          *)
(*   assign    label, reset (labels all -1 and errors all initial before),  *)
(*             tol                                                         *)
(*   computegv g, pt (translation in the parameter object), tol, upd        *)
(*   gof       g, pt                                                       *)
(*   refine    gts[] : translations of all grains at a refine() call made   *)
(*             outside gof                                                 *)
(*   rpbegin / rpend  tol                                                   *)
(* The rules are the invariants of RefineFlow.tla evaluated on the real     *)
(* call sequence (see the why strings), plus the outcome clause:           *)
(* logged errors within their bounds, every simulated peak carries the      *)
(* generating grain's label and integer hkl.                                *)
(***************************************************************************)
EXTENDS Integers, Sequences, FiniteSets, TLC, Json, IOUtils

Trace == ndJsonDeserialize(IOEnv.TRACE_FILE)

VARIABLES t, e, gt, pt, cur, sim, inrp, presented, why
vars == <<t, e, gt, pt, cur, sim, inrp, presented, why>>

Rec == Trace[t]
Ev == Rec.ev[e + 1]
Start(r) == /\ gt' = r.gt0 /\ pt' = r.pt0 /\ cur' = 0 /\ sim' = 0 /\ inrp' = FALSE /\ presented' = {}

Init == /\ t = 1 /\ e = 0 /\ why = "ok"
        /\ gt = IF Len(Trace) > 0 THEN Trace[1].gt0 ELSE <<>>
        /\ pt = IF Len(Trace) > 0 THEN Trace[1].pt0 ELSE 0
        /\ cur = 0 /\ sim = 0 /\ inrp = FALSE /\ presented = {}

Live == t <= Len(Trace) /\ e < Len(Rec.ev) /\ why = "ok"
Consume == e' = e + 1 /\ t' = t

SetTrans == /\ Live /\ Ev.k = "settrans"
            /\ why' = IF Ev.gt # gt[Ev.g] THEN "a grain's translation changed outside its own position refinement"
                      ELSE IF Ev.pt # Ev.gt THEN "set_translation did not put the grain's translation into the parameter object" ELSE "ok"
            /\ pt' = Ev.pt /\ cur' = Ev.g
            /\ UNCHANGED <<gt, sim, inrp, presented>> /\ Consume

KernelGv == /\ Live /\ Ev.k = "kernelgv"
            /\ why' = IF cur = 0 THEN "compute_gv before any set_translation"
                      ELSE IF Ev.t # gt[cur] THEN "g-vectors for assignment computed with a translation that is not the grain's own" ELSE "ok"
            /\ UNCHANGED <<gt, pt, cur, sim, inrp, presented>> /\ Consume

Assign == /\ Live /\ Ev.k = "assign"
          /\ why' = IF presented = {} /\ ~Ev.reset THEN "first score_and_assign of a pass without reset labels / errors"
                    ELSE IF Ev.label # cur THEN "score_and_assign label is not the grain whose g-vectors were just computed"
                    ELSE IF Ev.label \in presented THEN "a grain was presented twice in one assignment pass"
                    ELSE IF Ev.tol # Rec.utol THEN "assignment did not use the user's tolerance" ELSE "ok"
          /\ presented' = IF presented \cup {Ev.label} = 1..Rec.NG THEN {} ELSE presented \cup {Ev.label}
          /\ UNCHANGED <<gt, pt, cur, sim, inrp>> /\ Consume

ComputeGv == /\ Live /\ Ev.k = "computegv"
             /\ why' = IF sim # 0 /\ Ev.g = sim THEN "ok"                      \* simplex trial: any translation
                       ELSE IF Ev.pt # gt[Ev.g] THEN "compute_gv for a grain with a translation that is not its own"
                       ELSE IF inrp /\ Ev.tol # 0 THEN "inside refinepositions the tolerance is not 1.0"
                       ELSE IF ~inrp /\ Ev.tol # Rec.utol THEN "tolerance not restored after refinepositions" ELSE "ok"
             /\ UNCHANGED <<gt, pt, cur, sim, inrp, presented>> /\ Consume

Gof == /\ Live /\ Ev.k = "gof"
       /\ why' = IF ~inrp THEN "ok"
                 ELSE IF sim # 0 /\ Ev.g # sim THEN "simplex evaluated another grain than the one being refined"
                 ELSE IF sim = 0 /\ Ev.g # cur THEN "position refinement started without set_translation for that grain" ELSE "ok"
       /\ sim' = Ev.g /\ pt' = Ev.pt
       /\ UNCHANGED <<gt, cur, inrp, presented>> /\ Consume

\* refine() outside gof: translations may have been stored just before (only for the grain under refinement)
Refine == /\ Live /\ Ev.k = "refine"
          /\ why' = IF \E g \in 1..Rec.NG : Ev.gts[g] # gt[g] /\ g # sim
                    THEN "the translation of a grain that is not being refined changed"
                    ELSE IF sim # 0 /\ Ev.gts[sim] # pt THEN "stored translation is not the one in the parameter object" ELSE "ok"
          /\ gt' = Ev.gts /\ sim' = 0
          /\ UNCHANGED <<pt, cur, inrp, presented>> /\ Consume

RpBegin == /\ Live /\ Ev.k = "rpbegin" /\ why' = "ok" /\ inrp' = TRUE
           /\ UNCHANGED <<gt, pt, cur, sim, presented>> /\ Consume
RpEnd == /\ Live /\ Ev.k = "rpend"
         /\ why' = IF Ev.tol # Rec.utol THEN "refinepositions did not restore the tolerance" ELSE "ok"
         /\ inrp' = FALSE /\ sim' = 0
         /\ UNCHANGED <<gt, pt, cur, presented>> /\ Consume

FinalWhy(r) ==
  IF \E g \in 1..r.NG : r.dubi[g] > r.bubi[g] THEN "refined UBI further from the generating UBI than the bound"
  ELSE IF \E g \in 1..r.NG : r.dt[g] > r.bt THEN "refined translation further from the generating position than the bound"
  ELSE IF ~r.labels_ok THEN "a simulated peak does not carry the label of the grain that produced it"
  ELSE IF ~r.hkl_ok THEN "a saved peak does not carry the integer hkl it was simulated from"
  ELSE IF ~r.files_ok THEN "saved grain file does not carry the refined values"
  ELSE "ok"

Finish == /\ t <= Len(Trace) /\ (e = Len(Rec.ev) \/ why # "ok")
          /\ LET w == IF why # "ok" THEN why ELSE FinalWhy(Rec)
             IN PrintT("@@" \o ToJson([id |-> Rec.id, ok |-> (w = "ok"), why |-> w, consumed |-> e]))
          /\ t' = t + 1 /\ e' = 0 /\ why' = "ok"
          /\ IF t + 1 <= Len(Trace) THEN Start(Trace[t + 1])
             ELSE gt' = <<>> /\ pt' = 0 /\ cur' = 0 /\ sim' = 0 /\ inrp' = FALSE /\ presented' = {}

Next == SetTrans \/ KernelGv \/ Assign \/ ComputeGv \/ Gof \/ Refine \/ RpBegin \/ RpEnd \/ Finish
Spec == Init /\ [][Next]_vars
=============================================================================

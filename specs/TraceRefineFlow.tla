-------------------------- MODULE TraceRefineFlow --------------------------
(***************************************************************************)
(* Trace validation (code -> spec) of refinegrains / makemap runs, C09.    *)
(* Each line of TRACE_FILE is one recorded run on simulated data:          *)
(*   id, NG, utol (user tolerance as an integer id), ev[], and the final   *)
(*   fixed-point errors with their bounds.                                 *)
(* Translations are logged as small integer ids (identical float triples   *)
(* get the same id whatever python / numpy type holds them: a start grain  *)
(* built in memory from integers, float32 or a tuple is the same start as   *)
(* the one read from a file), grains as 1..NG.  Events (harness wrappers around     *)
(* the real methods, no source hooks):                                     *)
(*   settrans  g, gt (translation held by grain g), pt (parameter object   *)
(*             after the call)                                             *)
(*   kernelgv  t  : cImageD11.compute_gv called with translation t          *)
(*   assign    label, reset (labels all -1 and errors all initial before),  *)
(*             tol, n (rows of the g-vector / label / error arrays handed   *)
(*             to the kernel: must be nrows, the rows of the peak file) ;   *)
(*             and for the NT tracked peaks of the run (every peak          *)
(*             inside the tolerance of two grains, capped, plus a sample of *)
(*             uncontested peaks and strays, plus - peak files longer than  *)
(*             4096 rows - the first and last row and the rows on both      *)
(*             sides of every multiple of 4096, RefineFlow!BLOCK):          *)
(*             rk[k]  rank of THIS grain's error on peak k among the errors *)
(*                    of all grains of the pass that are inside the         *)
(*                    tolerance (0 = smallest), 99 = outside, -1 = the peak *)
(*                    is not judged in this pass (binary64 cannot tell the  *)
(*                    order apart).  Errors come from the harness's own     *)
(*                    forward model applied to the ubi / translation the    *)
(*                    call was made with, never from the kernel.            *)
(*             lab[k] label held by the peak AFTER the real call (0 = none, *)
(*                    else position of the grain in the ubi file)           *)
(*             dr[k]  rank of the error stored for the peak after the call  *)
(*                    (99 = still the initial value, -2 = matches no grain) *)
(*   usertol   tol : the driving script set o.tolerance                      *)
(*   computegv g, pt (translation in the parameter object), tol, upd        *)
(*   gof       g, pt                                                       *)
(*   refine    gts[] : translations of all grains at a refine() call made   *)
(*             outside gof                                                 *)
(*   rpbegin / rpend  tol                                                   *)
(*   savebegin sort (the sort_npks argument), npks[] (peaks held by the     *)
(*             grain of every place when savegrains starts)                 *)
(*   saveend   written[] : places of the grains in the order the saved      *)
(*             grain file lists them (from its #name lines)                 *)
(* THE SAVE STEP (RefineFlow!SaveGrains .. PGUse): between savebegin and    *)
(* saveend the loop of savegrains visits (grain object, key) pairs: the     *)
(* settrans event carries the KEY whose translation was loaded, the         *)
(* computegv event (upd = TRUE: it fills tth / eta / omegacalc per grain    *)
(* and is followed by the numpy.put of gx..l at that grain's rows) carries  *)
(* the grain OBJECT, from its name.  Per-grain state while the columns are  *)
(* filled: cur (key loaded), pt (translation in the parameter object),      *)
(* filled (objects done so far).  Rules: key = object ; translation = the   *)
(* object's own ; every grain exactly once ; the file lists the grains by   *)
(* non-increasing npks when sort, else by place.                            *)
(* The rules are the invariants of RefineFlow.tla evaluated on the real     *)
(* call sequence (see the why strings); the ASSIGNMENT action of           *)
(* RefineFlow.tla (the competing-owner rule of score_and_assign, as         *)
(* ScoreAssign.tla states it for C07) replayed call by call on the tracked  *)
(* peaks: after each real call the labels and stored errors must be the     *)
(* ones the rule gives; at the end of each pass every tracked peak is owned *)
(* by the grain with the strictly smallest error inside the tolerance (by   *)
(* nobody if there is none), a simulated peak by the grain that produced it *)
(* (gen[k], 0 = stray), and - for a run whose ubi file lists the same grains *)
(* in another order (ident = position -> grain, peer[pass][k] = owner in the *)
(* other run) - by the same grain as in the other run.  Then the outcome    *)
(* clause: logged errors within their bounds, every simulated peak carries  *)
(* the generating grain's label and integer hkl in the saved files, the     *)
(* saved label column / per-grain counts / unindexed file agree with the    *)
(* last assignment, and the same rule holds for the untracked peaks         *)
(* (judged by the harness with the same definitions, reported as py_bad).   *)
(* Per-peak columns: cols[] names ("file:h" .. "mem:drlv2") and cratio[] =  *)
(* 1000 x (largest deviation of the column from the harness's forward model *)
(* of the owning grain with its refined ubi and translation) / (bound:      *)
(* resolution of the representation + model tolerance); > 1000 is rejected. *)
(***************************************************************************)
EXTENDS Integers, Sequences, FiniteSets, TLC, Json, IOUtils

Trace == ndJsonDeserialize(IOEnv.TRACE_FILE)

VARIABLES t, e, gt, pt, cur, sim, inrp, presented, why,
          utol,      \* tolerance the user has set (changes with usertol events)
          own, drl,  \* tracked peak -> label / rank of the stored error, as the assignment rule gives them
          tab,       \* label -> rk of the calls of the running pass
          npass,     \* completed assignment passes
          insave,    \* inside savegrains ; sv = <<sort flag, npks by place>> of the running / last savegrains
          sv, filled \* grain objects whose per-peak columns were filled so far by the running savegrains (a sequence)
savevars == <<insave, sv, filled>>
vars == <<t, e, gt, pt, cur, sim, inrp, presented, why, utol, own, drl, tab, npass, savevars>>
EOUT == 99

Rec == Trace[t]
Ev == Rec.ev[e + 1]
Start(r) == /\ gt' = r.gt0 /\ pt' = r.pt0 /\ cur' = 0 /\ sim' = 0 /\ inrp' = FALSE /\ presented' = {}
            /\ utol' = r.utol /\ own' = <<>> /\ drl' = <<>> /\ tab' = <<>> /\ npass' = 0
            /\ insave' = FALSE /\ sv' = <<>> /\ filled' = <<>>

Init == /\ t = 1 /\ e = 0 /\ why = "ok"
        /\ gt = IF Len(Trace) > 0 THEN Trace[1].gt0 ELSE <<>>
        /\ pt = IF Len(Trace) > 0 THEN Trace[1].pt0 ELSE 0
        /\ cur = 0 /\ sim = 0 /\ inrp = FALSE /\ presented = {}
        /\ utol = IF Len(Trace) > 0 THEN Trace[1].utol ELSE 0
        /\ own = <<>> /\ drl = <<>> /\ tab = <<>> /\ npass = 0
        /\ insave = FALSE /\ sv = <<>> /\ filled = <<>>

Live == t <= Len(Trace) /\ e < Len(Rec.ev) /\ why = "ok"
Consume == e' = e + 1 /\ t' = t

SetTrans == /\ Live /\ Ev.k = "settrans"
            /\ why' = IF Ev.gt # gt[Ev.g] THEN "a grain's translation changed outside its own position refinement"
                      ELSE IF Ev.pt # Ev.gt THEN "set_translation did not put the grain's translation into the parameter object" ELSE "ok"
            /\ pt' = Ev.pt /\ cur' = Ev.g
            /\ UNCHANGED <<gt, sim, inrp, presented, utol, own, drl, tab, npass, savevars>> /\ Consume

KernelGv == /\ Live /\ Ev.k = "kernelgv"
            /\ why' = IF cur = 0 THEN "compute_gv before any set_translation"
                      ELSE IF Ev.t # gt[cur] THEN "g-vectors for assignment computed with a translation that is not the grain's own" ELSE "ok"
            /\ UNCHANGED <<gt, pt, cur, sim, inrp, presented, utol, own, drl, tab, npass, savevars>> /\ Consume

\* ---- the assignment action (RefineFlow!AssignScore / ScoreAssign!Chunk) on the tracked peaks -------------------
\* score_and_assign(ubi of grain `label`): if (err < tol^2 && err < drlv2[k]) take ; else if (labels[k] == label) release
Tracked == 1..Rec.NT
Own0 == IF presented = {} THEN [k \in Tracked |-> 0] ELSE own         \* a pass starts from reset labels / errors
Drl0 == IF presented = {} THEN [k \in Tracked |-> EOUT] ELSE drl
Take(k) == Ev.rk[k] < EOUT /\ Ev.rk[k] < Drl0[k]
Judged(k) == Ev.rk[k] >= 0
OwnAfter == [k \in Tracked |-> IF ~Judged(k) THEN Ev.lab[k]
                                ELSE IF Take(k) THEN Ev.label
                                ELSE IF Own0[k] = Ev.label THEN 0 ELSE Own0[k]]
DrlAfter == [k \in Tracked |-> IF ~Judged(k) THEN Ev.dr[k] ELSE IF Take(k) THEN Ev.rk[k] ELSE Drl0[k]]
TabAfter == IF presented = {} THEN [g \in 1..Rec.NG |-> IF g = Ev.label THEN Ev.rk ELSE <<>>]
            ELSE [tab EXCEPT ![Ev.label] = Ev.rk]
PassEnds == presented \cup {Ev.label} = 1..Rec.NG
\* the independent statement: the owner is the grain whose error is the strictly smallest inside the tolerance
Best(k) == LET c == {g \in 1..Rec.NG : TabAfter[g][k] = 0} IN IF c = {} THEN 0 ELSE CHOOSE g \in c : TRUE
Identity(l) == IF l = 0 THEN 0 ELSE Rec.ident[l]
AssignWhy ==
   IF presented = {} /\ ~Ev.reset THEN "first score_and_assign of a pass without reset labels / errors"
   ELSE IF Ev.label # cur THEN "score_and_assign label is not the grain whose g-vectors were just computed"
   ELSE IF Ev.label \in presented THEN "a grain was presented twice in one assignment pass"
   ELSE IF Ev.tol # utol THEN "assignment did not use the user's tolerance"
   ELSE IF Ev.n # Rec.nrows THEN "score_and_assign was not handed every row of the peak file"
   ELSE IF \E k \in Tracked : Judged(k) /\ Ev.lab[k] # OwnAfter[k] /\ Ev.lab[k] = Ev.label
        THEN "score_and_assign gave a peak to a grain that does not fit it better than its owner (or not within the tolerance)"
   ELSE IF \E k \in Tracked : Judged(k) /\ Ev.lab[k] # OwnAfter[k]
        THEN "score_and_assign did not give a peak to the grain that fits it better than its owner"
   ELSE IF \E k \in Tracked : Judged(k) /\ Ev.dr[k] # DrlAfter[k]
        THEN "the error stored for a peak is not the error of its owner"
   ELSE IF ~PassEnds THEN "ok"
   ELSE IF \E k \in Tracked : Judged(k) /\ OwnAfter[k] # Best(k)
        THEN "a peak is not owned by the grain with the strictly smallest error inside the tolerance"
   ELSE IF \E k \in Tracked : Judged(k) /\ Rec.gen[k] # 0 /\ OwnAfter[k] # Rec.gen[k]
        THEN "a simulated peak is not assigned to the grain that produced it"
   ELSE IF \E k \in Tracked : Judged(k) /\ Rec.gen[k] = 0 /\ OwnAfter[k] # 0
        THEN "a stray peak that no grain indexes was assigned to a grain"
   ELSE IF Len(Rec.peer) > npass /\ \E k \in Tracked : Judged(k) /\ Rec.peer[npass + 1][k] >= 0
                                                        /\ Identity(OwnAfter[k]) # Rec.peer[npass + 1][k]
        THEN "the assignment of a peak changed when the grains were listed in another order in the ubi file"
   ELSE "ok"
Assign == /\ Live /\ Ev.k = "assign"
          /\ why' = AssignWhy
          /\ presented' = IF PassEnds THEN {} ELSE presented \cup {Ev.label}
          /\ own' = OwnAfter /\ drl' = DrlAfter /\ tab' = TabAfter
          /\ npass' = IF PassEnds THEN npass + 1 ELSE npass
          /\ UNCHANGED <<gt, pt, cur, sim, inrp, utol, savevars>> /\ Consume

UserTol == /\ Live /\ Ev.k = "usertol" /\ why' = "ok" /\ utol' = Ev.tol
           /\ UNCHANGED <<gt, pt, cur, sim, inrp, presented, own, drl, tab, npass, savevars>> /\ Consume

ComputeGv == /\ Live /\ Ev.k = "computegv"
             /\ why' = IF sim # 0 /\ Ev.g = sim THEN "ok"                      \* simplex trial: any translation
                       ELSE IF insave /\ Ev.upd /\ Ev.g # cur
                            THEN "savegrains filled the per-peak columns of a grain after loading the translation of another grain's key"
                       ELSE IF Ev.pt # gt[Ev.g] THEN "compute_gv for a grain with a translation that is not its own"
                       ELSE IF insave /\ Ev.upd /\ \E i \in 1..Len(filled) : filled[i] = Ev.g
                            THEN "savegrains filled the per-peak columns of a grain twice"
                       ELSE IF inrp /\ Ev.tol # 0 THEN "inside refinepositions the tolerance is not 1.0"
                       ELSE IF ~inrp /\ Ev.tol # utol THEN "tolerance not restored after refinepositions" ELSE "ok"
             /\ filled' = IF insave /\ Ev.upd THEN Append(filled, Ev.g) ELSE filled
             /\ UNCHANGED <<gt, pt, cur, sim, inrp, presented, utol, own, drl, tab, npass, insave, sv>> /\ Consume

\* ---- the save step ------------------------------------------------------------------------------------------------
SaveBegin == /\ Live /\ Ev.k = "savebegin"
             /\ why' = IF presented # {} THEN "savegrains inside an assignment pass" ELSE "ok"
             /\ insave' = TRUE /\ sv' = <<Ev.sort, Ev.npks>> /\ filled' = <<>>
             /\ UNCHANGED <<gt, pt, cur, sim, inrp, presented, utol, own, drl, tab, npass>> /\ Consume
IsPerm(q) == Len(q) = Rec.NG /\ \A g \in 1..Rec.NG : \E i \in 1..Len(q) : q[i] = g
SaveEnd == /\ Live /\ Ev.k = "saveend"
           /\ why' = IF ~insave THEN "saveend without savebegin"
                     ELSE IF ~IsPerm(filled) THEN "savegrains did not fill the per-peak columns of every grain exactly once"
                     ELSE IF ~IsPerm(Ev.written) THEN "the saved grain file does not list every grain exactly once"
                     ELSE IF sv[1] /\ \E i, j \in 1..Rec.NG : i < j /\ sv[2][Ev.written[i]] < sv[2][Ev.written[j]]
                          THEN "sort_npks: the saved grain file does not list the grains by decreasing number of peaks"
                     ELSE IF ~sv[1] /\ \E i \in 1..Rec.NG : Ev.written[i] # i
                          THEN "sort_npks off: the saved grain file does not list the grains in the order of the input file"
                     ELSE "ok"
           /\ insave' = FALSE
           /\ UNCHANGED <<gt, pt, cur, sim, inrp, presented, utol, own, drl, tab, npass, sv, filled>> /\ Consume

Gof == /\ Live /\ Ev.k = "gof"
       /\ why' = IF ~inrp THEN "ok"
                 ELSE IF sim # 0 /\ Ev.g # sim THEN "simplex evaluated another grain than the one being refined"
                 ELSE IF sim = 0 /\ Ev.g # cur THEN "position refinement started without set_translation for that grain" ELSE "ok"
       /\ sim' = Ev.g /\ pt' = Ev.pt
       /\ UNCHANGED <<gt, cur, inrp, presented, utol, own, drl, tab, npass, savevars>> /\ Consume

\* refine() outside gof: translations may have been stored just before (only for the grain under refinement)
Refine == /\ Live /\ Ev.k = "refine"
          /\ why' = IF \E g \in 1..Rec.NG : Ev.gts[g] # gt[g] /\ g # sim
                    THEN "the translation of a grain that is not being refined changed"
                    ELSE IF sim # 0 /\ Ev.gts[sim] # pt THEN "stored translation is not the one in the parameter object" ELSE "ok"
          /\ gt' = Ev.gts /\ sim' = 0
          /\ UNCHANGED <<pt, cur, inrp, presented, utol, own, drl, tab, npass, savevars>> /\ Consume

RpBegin == /\ Live /\ Ev.k = "rpbegin" /\ why' = "ok" /\ inrp' = TRUE
           /\ UNCHANGED <<gt, pt, cur, sim, presented, utol, own, drl, tab, npass, savevars>> /\ Consume
RpEnd == /\ Live /\ Ev.k = "rpend"
         /\ why' = IF Ev.tol # utol THEN "refinepositions did not restore the tolerance" ELSE "ok"
         /\ inrp' = FALSE /\ sim' = 0
         /\ UNCHANGED <<gt, pt, cur, presented, utol, own, drl, tab, npass, savevars>> /\ Consume

FinalWhy(r) ==
  IF \E g \in 1..r.NG : r.dubi[g] > r.bubi[g] THEN "refined UBI further from the generating UBI than the bound"
  ELSE IF \E g \in 1..r.NG : r.dt[g] > r.bt THEN "refined translation further from the generating position than the bound"
  ELSE IF r.py_bad > 0 THEN "a peak outside the tracked sample is not owned by the grain with the strictly smallest error inside the tolerance (or not by the grain that produced it, or changed owner with the grain order)"
  ELSE IF ~r.labels_ok THEN "a simulated peak does not carry the label of the grain that produced it"
  ELSE IF ~r.hkl_ok THEN "a saved peak does not carry the integer hkl it was simulated from"
  ELSE IF \E c \in 1..Len(r.cols) : r.cratio[c] > 1000
       THEN "a per-peak column of the saved peak table is not the value the refined ubi and translation of the owning grain give"
  ELSE IF ~r.files_ok THEN "saved grain file does not carry the refined values"
  ELSE IF ~r.saved_ok THEN "the saved label column is not the result of the last assignment before saving"
  ELSE IF ~r.npks_ok THEN "a saved grain's peak count / peak list is not the set of peaks it produced"
  ELSE IF ~r.unindexed_ok THEN "the file of unindexed peaks is not the set of peaks no grain owns"
  ELSE "ok"

Finish == /\ t <= Len(Trace) /\ (e = Len(Rec.ev) \/ why # "ok")
          /\ LET w == IF why # "ok" THEN why ELSE FinalWhy(Rec)
             IN PrintT("@@" \o ToJson([id |-> Rec.id, ok |-> (w = "ok"), why |-> w, consumed |-> e]))
          /\ t' = t + 1 /\ e' = 0 /\ why' = "ok"
          /\ IF t + 1 <= Len(Trace) THEN Start(Trace[t + 1])
             ELSE /\ gt' = <<>> /\ pt' = 0 /\ cur' = 0 /\ sim' = 0 /\ inrp' = FALSE /\ presented' = {}
                  /\ utol' = 0 /\ own' = <<>> /\ drl' = <<>> /\ tab' = <<>> /\ npass' = 0
                  /\ insave' = FALSE /\ sv' = <<>> /\ filled' = <<>>

Next == SetTrans \/ KernelGv \/ Assign \/ UserTol \/ ComputeGv \/ Gof \/ Refine \/ RpBegin \/ RpEnd \/ SaveBegin \/ SaveEnd \/ Finish
Spec == Init /\ [][Next]_vars
=============================================================================

---------------------------- MODULE LocalMaxCalls ----------------------------
(***************************************************************************)
(* Histories of calls of the Python wrappers around the sparse             *)
(* local-maximum kernels (ImageD11/sparseframe.py): the clause "repeated   *)
(* runs / any previous content of the output and work buffers" of C13 at   *)
(* the level of the OBJECTS a user holds.                                  *)
(*                                                                         *)
(*   sparse_localmax(frame)          sparseframe.py:605-615  op "lm"       *)
(*   sparse_smooth(frame)            sparseframe.py:618-624  op "sm"       *)
(*   sparse_smooth + set_pixels + sparse_localmax(frame, "lmsm",            *)
(*       "smoothed") (the segmenter's composition)           op "lms"      *)
(*   sparse_connected_pixels(frame)  sparseframe.py:585-602  op "cp"       *)
(*       (sibling wrapper; only its memory / standing is judged here)       *)
(*   SparseScan.lmlabel(smooth=False / True)  :318-363  ops "slm0" "slm1"   *)
(*                                                                         *)
(* What one call computes is the business of LocalMax.tla / SparseScan.tla; *)
(* here a result is a BUFFER (a numpy array) holding a content tag          *)
(* <<op, object>> = "the labelling / smoothing of that object's data".      *)
(*                                                                         *)
(* Constants                                                               *)
(*   NNZ       sequence: NNZ[f] = number of pixels of frame f (frames are   *)
(*             1..Len(NNZ)); equal entries = frames of equal nnz            *)
(*   SCANS     set of scan object ids (disjoint from the frames; all scans  *)
(*             of a pool have equal frame sizes)                            *)
(*   MAXCALLS  length of the histories                                      *)
(*   WORKSPACE "fresh": every call allocates the arrays it hands out (the   *)
(*             code: np.zeros(frame.nnz) per call);                         *)
(*             "class": variant in which sparse_localmax takes its labels   *)
(*             array from a class-level workspace that is re-allocated only *)
(*             when nnz changes - TLC: Stand and NoAlias violated by two    *)
(*             consecutive "lm" calls on frames of equal nnz (vacuity       *)
(*             configuration LocalMaxCalls_ws.cfg)                          *)
(* Variables                                                               *)
(*   heap   buffer id -> content tag of what was last written into it       *)
(*   held   sequence of the results handed out so far, in call order:       *)
(*          [op, obj, part, buf] (a user keeps every frame / scan / array)  *)
(*   ws     the cached workspace of the "class" variant: [nnz, buf]         *)
(*   hist   the calls so far: << <<op, obj>>, ... >>                        *)
(* Actions  Call(op, obj) for every op applicable to the object.            *)
(* Invariants                                                              *)
(*   Stand    every result ever handed out still holds the content it had   *)
(*            when it was returned (judged AFTER every later call)          *)
(*   NoAlias  results of different calls, and different parts of one call,  *)
(*            never share a buffer                                          *)
(*   Emit     prints every history of length MAXCALLS for the harness,      *)
(*            which binds frame / scan ids to real objects (several seeded  *)
(*            instance families per pool: same mask with other values,      *)
(*            different masks of equal nnz, larger frames), executes the    *)
(*            calls on the real wrappers keeping every result, and after    *)
(*            EVERY call re-judges ALL results held so far against the      *)
(*            steepest-ascent / smoothing definitions (Stand) and requires  *)
(*            np.shares_memory to be false between them (NoAlias).          *)
(* Bounds: 3 frames (two of equal nnz), 2 scans, histories of 3 (quick) or  *)
(* 4 (thorough) calls: all 16^3 / 16^4 sequences.                           *)
(***************************************************************************)
EXTENDS Integers, Sequences, FiniteSets, TLC, Json
CONSTANTS NNZ, SCANS, MAXCALLS, WORKSPACE, EmitOn
ASSUME WORKSPACE \in {"fresh", "class"}
\* pools (a .cfg cannot hold a tuple: NNZ <- NNZ_223): frames 1 and 2 have equal nnz, frame 3 another
NNZ_223 == <<2, 2, 3>>

Frames == 1..Len(NNZ)
FrameOps == {"lm", "sm", "lms", "cp"}
ScanOps == {"slm0", "slm1"}
\* the arrays one call hands out
Parts(op) == CASE op = "lm" -> <<"labels">>
               [] op = "sm" -> <<"smoothed">>
               [] op = "lms" -> <<"smoothed", "labels">>
               [] op = "cp" -> <<"labels">>
               [] OTHER -> <<"labels", "nlabels", "signal">>

VARIABLES heap, held, ws, hist
vars == <<heap, held, ws, hist>>

NoWs == [nnz |-> -1, buf |-> 0]
Init == heap = <<>> /\ held = <<>> /\ ws = NoWs /\ hist = <<>>

\* buffers are numbered in allocation order: Len(heap) + 1 is a fresh one
Call(op, obj) ==
    /\ Len(hist) < MAXCALLS
    /\ LET parts == Parts(op)
           \* the labels array of sparse_localmax may come from the cached workspace
           cached == WORKSPACE = "class" /\ op \in {"lm", "lms"} /\ ws.nnz = NNZ[obj]
           nfresh == IF cached THEN Len(parts) - 1 ELSE Len(parts)
           bufof(p) == IF cached /\ parts[p] = "labels" THEN ws.buf
                       ELSE Len(heap) + (IF cached /\ p > 1 THEN p - 1 ELSE p)
           tag(p) == <<op, obj, parts[p]>>
           grown == heap \o [n \in 1..nfresh |-> <<>>]
       IN /\ heap' = [b \in 1..Len(grown) |->
                        IF \E p \in 1..Len(parts) : bufof(p) = b
                        THEN tag(CHOOSE p \in 1..Len(parts) : bufof(p) = b) ELSE grown[b]]
          /\ held' = held \o [p \in 1..Len(parts) |-> [op |-> op, obj |-> obj, part |-> parts[p], buf |-> bufof(p),
                                                        call |-> Len(hist) + 1]]
          /\ ws' = IF WORKSPACE = "class" /\ op \in {"lm", "lms"} /\ ~cached
                   THEN [nnz |-> NNZ[obj], buf |-> bufof(Len(parts))]      \* "labels" is the last part of lm / lms
                   ELSE ws
    /\ hist' = Append(hist, <<op, obj>>)

Next == \/ \E op \in FrameOps, f \in Frames : Call(op, f)
        \/ \E op \in ScanOps, s \in SCANS : Call(op, s)
Spec == Init /\ [][Next]_vars

Stand == \A k \in DOMAIN held : heap[held[k].buf] = <<held[k].op, held[k].obj, held[k].part>>
NoAlias == \A j, k \in DOMAIN held : j # k => held[j].buf # held[k].buf
Emit == (EmitOn /\ Len(hist) = MAXCALLS) => PrintT("@@" \o ToJson([hist |-> hist, nresults |-> Len(held)]))
=============================================================================

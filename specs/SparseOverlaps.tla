--------------------------- MODULE SparseOverlaps ---------------------------
(***************************************************************************)
(* Property C14, second half (and the index bounds of C20):                *)
(*   for two labelled sparse frames the reported overlaps list every pair  *)
(*   of labels that share pixels exactly once with the exact number of     *)
(*   shared pixels, identically for the linear and the matrix algorithm.   *)
(*                                                                         *)
(* Code modelled (pinned tree /repo), one action per loop-body branch or   *)
(* per Python statement:                                                   *)
(*   src/sparse_image.c:684-724  sparse_overlaps (two-pointer merge, zero  *)
(*                               fill of the tails of k1 / k2)             *)
(*   src/sparse_image.c:744-818  compress_duplicates (max, two counting    *)
(*                               sorts through tmp/oi/oj, run lengths)     *)
(*   src/sparse_image.c:847-886  coverlaps (zero mat, merge on the packed  *)
(*                               key (row<<16)+col, scan of mat)           *)
(*   ImageD11/sparseframe.py:462-506  overlaps_linear (buffers, realloc)   *)
(*   ImageD11/sparseframe.py:509-545  overlaps_matrix                      *)
(*   ImageD11/sparseframe.py:549-577  overlaps (function)                  *)
(* Declared extents (src/_cImageD11.pyf:353-409):                          *)
(*   sparse_overlaps     i1,j1,k1 (nnz1)   i2,j2,k2 (nnz2)                 *)
(*   compress_duplicates i,j,oi,oj (n)     tmp (nt)                        *)
(*   coverlaps           row1,col1,labels1 (nnz1) row2,col2,labels2 (nnz2) *)
(*                       mat (npk1,npk2)   results ( * ) = what the caller *)
(*                       allocated: 3*npkmax*npkmax                        *)
(* Callers' buffers: overlaps_linear passes ki[:len1], kj[:len2],          *)
(*   ect[:npx], tj[:npx], tmp of nnzmax+1 cells; overlaps() passes arrays  *)
(*   of exactly nnz1, nnz2, npx, npx and tmp of max(n1,n2)+1 cells.  The   *)
(*   kernels do not look at the extents, so ONE run with the tighter       *)
(*   extent of each buffer (tmp: max(n1,n2)+1 <= nnzmax+1) serves both     *)
(*   callers.                                                              *)
(* The packed 32-bit key comparison of coverlaps is modelled as the        *)
(*   lexicographic comparison of (row, col); they agree because col is a   *)
(*   uint16 (< 2^16) and row < 2^16 cannot overflow the uint32.            *)
(*                                                                         *)
(* Programs:                                                               *)
(*   "pipe"  two labelled sorted frames on a grid ->                       *)
(*             overlaps_linear.__call__  (check/realloc, sparse_overlaps,  *)
(*                  npx == 0 -> (0, None) | gather labels,                 *)
(*                  compress_duplicates, rcl)                              *)
(*             overlaps()   (same kernels on the same data; coo matrix)    *)
(*             overlaps_matrix.__call__ (check/realloc, coverlaps, result) *)
(*   "cd"    compress_duplicates alone on every sequence of label pairs    *)
(*   "hist"  ONE overlaps_linear and ONE overlaps_matrix object called     *)
(*           HistLen times with DIFFERENT frame pairs (action Hist_Next    *)
(*           picks the next pair: any pair, or - chained - the previous    *)
(*           second frame with a new one, which is what                    *)
(*           sinograms/properties.py:132-160 pairrow does with the         *)
(*           consecutive frames of a scan, and pairscans :163-195 with     *)
(*           arbitrary pairs).  The objects' work arrays ki kj ect tj tmp  *)
(*           matmem results live in `obj` and keep what earlier calls left *)
(*           (np.empty / realloc(): Poison); every call works on numpy     *)
(*           views of them (View / Overlay), tmp at its full extent        *)
(*           nnzmax+1.  LinExact / MatExact / LinEqMat / SoExact / CdExact *)
(*           / InBounds are checked at the end of EVERY call: the answers  *)
(*           of a re-used object do not depend on its history.             *)
(*           hist = the records of the finished calls (emitted).           *)
(*                                                                         *)
(* Variables: prog, pc, inp (frames / inputs of the current call), S       *)
(*   (kernel scalars), k1 k2 (hit lists), ai aj (i, j of                   *)
(*   compress_duplicates = gathered labels r, c), oi oj tmp, mat results,  *)
(*   obj (nnzmax / npkmax of the caching objects; program "hist": their    *)
(*   buffers, the call counter and the chain flag), out (results per       *)
(*   route), raised, acc, hist.                                            *)
(*                                                                         *)
(* Invariants:                                                             *)
(*   InBounds   every index within the declared extent                     *)
(*   SoExact    at return of sparse_overlaps: k1/k2 list exactly the       *)
(*              common pixels, in order, each once; tails zeroed           *)
(*   CdExact    at return of compress_duplicates: (i,j,oi)[0..c-1] is the  *)
(*              brute-force count of every distinct pair, each pair once,  *)
(*              lexicographically increasing                               *)
(*   LinExact / MatExact / OvlExact   each route's answer = Brute, the     *)
(*              set {(a,b,n) : n = |{px : lab1 = a /\ lab2 = b}| > 0}      *)
(*   LinEqMat   linear = matrix as sets                                    *)
(*   OvlTotal   overlaps() returns (FIXED = FALSE models the tree, which   *)
(*              hands zero-length arrays to compress_duplicates when the   *)
(*              frames share no pixel: f2py raises ValueError)             *)
(*   Emit       one JSON case per finished behaviour                       *)
(* Labels off the intersection are never read by any kernel (every read of *)
(* labels1/labels2 is at an index stored in k1/k2 or at a hit of the       *)
(* merge), which is why restricting the *number of labels* in a scope      *)
(* loses nothing about pixels outside the intersection.                    *)
(* Bounds / configurations (Surj: labels used are exactly 1..max):         *)
(*   _q22  2x2, <= 2 labels, all pairs; cd: all pair sequences len <= 3    *)
(*   _q13  1x3, <= 3 labels, nlabel = max or max+1                         *)
(*   _t22  2x2, <= 3 labels     _t14  1x4 and 4x1, <= 3 labels             *)
(*   _t23  2x3, every pair of coordinate sets (one label, nlabel 1 or 2)   *)
(*   _t13n 1x3, labels any non-empty subset of 1..3 (not surjective)       *)
(*   _tcd5 cd: every pair sequence of length <= 5 over 3 labels            *)
(*   _tcd6 cd: length <= 6 over 2 labels, nt = vmax+1 and vmax+2           *)
(*   _asis FIXED = FALSE: TLC must report OvlTotal violated                *)
(*   _qh   histories: EVERY two calls on 1x2 with <= 2 labels, free and    *)
(*         chained, objects starting at nnzmax = npkmax = 1 (grow, then    *)
(*         re-use)          _th2 the same with nlabel slack 0 / 1          *)
(*   _th3  histories: every three calls on 1x2, <= 2 labels                *)
(*   _hsim (_hsim_t: larger sample) histories of 6 calls on 1x3 and 2x2,   *)
(*         <= 3 labels, nlabel slack                                       *)
(*         0 / 2, sampled: HistPickInit / HistPickNext frames per choice   *)
(*         drawn with RandomSubset (TLC -seed = VERIF_SEED + 14); all      *)
(*         invariants are still checked on every state of the sample       *)
(* The product "all 2x3 frames with 3 labels" (7.6e6 pairs) is covered by  *)
(* decomposition: _t23 (every coordinate pair on 2x3) x _tcd5/_tcd6 (every *)
(* gathered label sequence) and the composition on the smaller grids.      *)
(***************************************************************************)
EXTENDS Integers, Sequences, FiniteSets, TLC, Json, Randomization

CONSTANTS
    PipeGrids,      \* set of grid codes 10*ns+nf for program "pipe" ({} disables)
    NLab,           \* labels 1..NLab
    Surj,           \* TRUE: the labels used in a frame are exactly 1..max (like a labelling kernel)
    NExtra,         \* n = max label + extra, extra \in NExtra  (nlabel larger than the labels used)
    NnzMax0,        \* initial nnzmax of the overlaps_linear object (small: exercises realloc)
    NpkMax0,        \* initial npkmax of the overlaps_matrix object
    CdLen,          \* program "cd": pair sequences of length 1..CdLen (0 disables)
    CdLab,          \* labels 1..CdLab
    CdSlack,        \* nt = vmax + 1 + slack, slack \in CdSlack
    FIXED,          \* TRUE: overlaps() returns an empty matrix when no pixel is shared
    HistGrids,      \* grid codes for program "hist" ({} disables): ONE overlaps_linear and ONE overlaps_matrix
                    \* object called HistLen times with different frame pairs, work arrays kept
    HistLen,        \* calls per object (>= 1)
    Chains,         \* subset of BOOLEAN; TRUE: the first frame of a call is the second frame of the call
                    \* before (what sinograms.properties.pairrow does with consecutive frames of a scan)
    HistPickInit,   \* 0: every frame is tried for the first call; k > 0: k random frames for each of f1, f2
    HistPickNext    \* 0: every frame pair is tried for a later call; k > 0: k random frames for each of f1, f2
                    \* (sampled long histories; the random generator is TLC's, seeded with -seed)

VARIABLES prog, pc, inp, S, k1, k2, ai, aj, oi, oj, tmp, mat, results, obj, out, raised, acc, hist

vars == <<prog, pc, inp, S, k1, k2, ai, aj, oi, oj, tmp, mat, results, obj, out, raised, acc, hist>>

Poison == -1
None == <<>>
IsNone(x) == DOMAIN x = {}
Sh(code) == <<code \div 10, code % 10>>

Arr(n, v) == [x \in 0..(n - 1) |-> v]
Size(a) == Cardinality(DOMAIN a)
Rd(a, x) == IF x \in DOMAIN a THEN a[x] ELSE Poison
Wr(a, x, v) == IF x \in DOMAIN a THEN [a EXCEPT ![x] = v] ELSE a
Acc(name, x, ext) == [arr |-> name, ix |-> x, ext |-> ext]
AsSeq(a) == [x \in 1..Size(a) |-> a[x - 1]]
Max2(a, b) == IF a > b THEN a ELSE b
MaxOf(a) == CHOOSE m \in {a[x] : x \in DOMAIN a} : \A x \in DOMAIN a : a[x] <= m
Before(r1, c1, r2, c2) == r1 < r2 \/ (r1 = r2 /\ c1 < c2)
\* numpy views of the caching objects' buffers: buf[:n], and writing a view back into its buffer
View(buf, n) == [x \in 0..(n - 1) |-> buf[x]]
Overlay(buf, v) == [x \in DOMAIN buf |-> IF x \in DOMAIN v THEN v[x] ELSE buf[x]]
Hist == prog = "hist"

S0 == [p1 |-> 0, p2 |-> 0, nhit |-> 0, k |-> 0, vmax |-> 0, c |-> 0, t |-> 0, ik |-> 0, jk |-> 0,
       n |-> 0, nt |-> 0, i1 |-> 0, i2 |-> 0, npk |-> 0, ret |-> Poison]

RECURSIVE SelIdx(_, _)
SelIdx(b, n) == IF n = 0 THEN <<>> ELSE IF b[n - 1] THEN Append(SelIdx(b, n - 1), n - 1) ELSE SelIdx(b, n - 1)

\* a labelled frame from lab : pixel -> 0..NLab (0 = not in the frame), sorted row-major
Frame(sh, lab, extra) ==
    LET s == SelIdx([p \in DOMAIN lab |-> lab[p] > 0], Size(lab))
        m == Size(s)
    IN [nnz |-> m,
        row |-> [x \in 0..(m - 1) |-> s[x + 1] \div sh[2]],
        col |-> [x \in 0..(m - 1) |-> s[x + 1] % sh[2]],
        lab |-> [x \in 0..(m - 1) |-> lab[s[x + 1]]],
        n   |-> MaxOf(lab) + extra]

\* a frame as it is emitted (JSON, 1-based sequences)
FrameJson(f) == [nnz |-> f.nnz, row |-> AsSeq(f.row), col |-> AsSeq(f.col), lab |-> AsSeq(f.lab), n |-> f.n]

Used(lab) == {lab[p] : p \in DOMAIN lab} \ {0}
GoodLab(lab) == /\ Used(lab) # {}
                /\ Surj => Used(lab) = 1..MaxOf(lab)

InitPipe ==
    \E g \in PipeGrids : LET sh == Sh(g) IN
    \E l1 \in [0..(sh[1] * sh[2] - 1) -> 0..NLab] : \E l2 \in [0..(sh[1] * sh[2] - 1) -> 0..NLab] :
    \E e1 \in NExtra : \E e2 \in NExtra :
        /\ GoodLab(l1) /\ GoodLab(l2)
        /\ prog = "pipe" /\ pc = "lin_chk"
        /\ inp = [ns |-> sh[1], nf |-> sh[2], lab1 |-> l1, lab2 |-> l2,
                  f1 |-> Frame(sh, l1, e1), f2 |-> Frame(sh, l2, e2)]
        /\ S = S0 /\ k1 = None /\ k2 = None /\ ai = None /\ aj = None /\ oi = None /\ oj = None
        /\ tmp = None /\ mat = None /\ results = None
        /\ obj = [nnzmax |-> NnzMax0, npkmax |-> NpkMax0, realloc_lin |-> FALSE, realloc_mat |-> FALSE]
        /\ out = [x \in {} |-> 0] /\ raised = FALSE /\ acc = {} /\ hist = <<>>

InitCd ==
    /\ CdLen > 0
    /\ \E n \in 1..CdLen : \E i \in [0..(n - 1) -> 1..CdLab] : \E j \in [0..(n - 1) -> 1..CdLab] :
       \E slack \in CdSlack :
        LET vm == Max2(MaxOf(i), MaxOf(j)) IN
        /\ prog = "cd" /\ pc = "cd_start"
        /\ inp = [i |-> i, j |-> j, n |-> n, nt |-> vm + 1 + slack]
        /\ S = [S0 EXCEPT !.n = n, !.nt = vm + 1 + slack]
        /\ ai = i /\ aj = j /\ oi = Arr(n, Poison) /\ oj = Arr(n, Poison)
        /\ tmp = Arr(vm + 1 + slack, Poison)
        /\ k1 = None /\ k2 = None /\ mat = None /\ results = None
        /\ obj = [x \in {} |-> 0] /\ out = [x \in {} |-> 0] /\ raised = FALSE /\ acc = {} /\ hist = <<>>

LabSets(sh) == [0..(sh[1] * sh[2] - 1) -> 0..NLab]
GoodLabs(sh) == {l \in LabSets(sh) : GoodLab(l)}
Pick(k, T) == IF k = 0 \/ k >= Cardinality(T) THEN T ELSE RandomSubset(k, T)

\* program "hist": the objects are created once (np.empty buffers: Poison) and then called HistLen times
InitHist ==
    \E g \in HistGrids : LET sh == Sh(g) IN
    \E l1 \in Pick(HistPickInit, GoodLabs(sh)) : \E l2 \in Pick(HistPickInit, GoodLabs(sh)) :
    \E e1 \in NExtra : \E e2 \in NExtra : \E ch \in Chains :
        /\ prog = "hist" /\ pc = "lin_chk"
        /\ inp = [ns |-> sh[1], nf |-> sh[2], lab1 |-> l1, lab2 |-> l2,
                  f1 |-> Frame(sh, l1, e1), f2 |-> Frame(sh, l2, e2)]
        /\ S = S0 /\ k1 = None /\ k2 = None /\ ai = None /\ aj = None /\ oi = None /\ oj = None
        /\ tmp = None /\ mat = None /\ results = None
        /\ obj = [nnzmax |-> NnzMax0, npkmax |-> NpkMax0, realloc_lin |-> FALSE, realloc_mat |-> FALSE,
                  ki |-> Arr(NnzMax0, Poison), kj |-> Arr(NnzMax0, Poison), ect |-> Arr(NnzMax0, Poison),
                  tj |-> Arr(NnzMax0, Poison), tmp |-> Arr(NnzMax0 + 1, Poison),
                  matmem |-> Arr(NpkMax0 * NpkMax0, Poison), results |-> Arr(3 * NpkMax0 * NpkMax0, Poison),
                  chain |-> ch, ncall |-> 1]
        /\ out = [x \in {} |-> 0] /\ raised = FALSE /\ acc = {} /\ hist = <<>>

Init == InitPipe \/ InitCd \/ InitHist

F1 == inp.f1
F2 == inp.f2

-----------------------------------------------------------------------------
(* overlaps_linear.__call__, sparseframe.py:484-495 : checkmem *)

Lin_Check ==
    /\ pc = "lin_chk"
    /\ LET nnz == Max2(Max2(F1.nnz, F2.nnz), Max2(F1.n, F2.n))
           grow == nnz > obj.nnzmax
           o1 == IF grow THEN [obj EXCEPT !.nnzmax = nnz, !.realloc_lin = TRUE] ELSE obj
           \* realloc(): five fresh np.empty arrays; otherwise the arrays keep what earlier calls left
           o2 == IF Hist /\ grow
                 THEN [o1 EXCEPT !.ki = Arr(nnz, Poison), !.kj = Arr(nnz, Poison), !.ect = Arr(nnz, Poison),
                                 !.tj = Arr(nnz, Poison), !.tmp = Arr(nnz + 1, Poison)]
                 ELSE o1
       IN /\ obj' = o2
          \* ki[:len(row1)], kj[:len(row2)] : whatever the buffers held (first call: Poison)
          /\ k1' = IF Hist THEN View(o2.ki, F1.nnz) ELSE Arr(F1.nnz, Poison)
          /\ k2' = IF Hist THEN View(o2.kj, F2.nnz) ELSE Arr(F2.nnz, Poison)
    /\ S' = [S0 EXCEPT !.p1 = 0, !.p2 = 0, !.nhit = 0]
    /\ pc' = "so_loop" /\ acc' = {}
    /\ UNCHANGED <<prog, inp, ai, aj, oi, oj, tmp, mat, results, out, raised, hist>>

(* sparse_overlaps, sparse_image.c:684-724 *)
SoAcc(withj) == {Acc("i1", S.p1, F1.nnz), Acc("i2", S.p2, F2.nnz)} \cup
                (IF withj THEN {Acc("j1", S.p1, F1.nnz), Acc("j2", S.p2, F2.nnz)} ELSE {})
SoMore == S.p1 < F1.nnz /\ S.p2 < F2.nnz

SO_RowAhead1 ==     \* i1[p1] > i2[p2] : p2++
    /\ pc = "so_loop" /\ SoMore
    /\ Rd(F1.row, S.p1) > Rd(F2.row, S.p2)
    /\ S' = [S EXCEPT !.p2 = S.p2 + 1] /\ acc' = SoAcc(FALSE)
    /\ UNCHANGED <<prog, pc, inp, k1, k2, ai, aj, oi, oj, tmp, mat, results, obj, out, raised, hist>>

SO_RowAhead2 ==     \* i1[p1] < i2[p2] : p1++
    /\ pc = "so_loop" /\ SoMore
    /\ Rd(F1.row, S.p1) < Rd(F2.row, S.p2)
    /\ S' = [S EXCEPT !.p1 = S.p1 + 1] /\ acc' = SoAcc(FALSE)
    /\ UNCHANGED <<prog, pc, inp, k1, k2, ai, aj, oi, oj, tmp, mat, results, obj, out, raised, hist>>

SO_ColAhead1 ==     \* same row, j1[p1] > j2[p2] : p2++
    /\ pc = "so_loop" /\ SoMore
    /\ Rd(F1.row, S.p1) = Rd(F2.row, S.p2) /\ Rd(F1.col, S.p1) > Rd(F2.col, S.p2)
    /\ S' = [S EXCEPT !.p2 = S.p2 + 1] /\ acc' = SoAcc(TRUE)
    /\ UNCHANGED <<prog, pc, inp, k1, k2, ai, aj, oi, oj, tmp, mat, results, obj, out, raised, hist>>

SO_ColAhead2 ==     \* same row, j1[p1] < j2[p2] : p1++
    /\ pc = "so_loop" /\ SoMore
    /\ Rd(F1.row, S.p1) = Rd(F2.row, S.p2) /\ Rd(F1.col, S.p1) < Rd(F2.col, S.p2)
    /\ S' = [S EXCEPT !.p1 = S.p1 + 1] /\ acc' = SoAcc(TRUE)
    /\ UNCHANGED <<prog, pc, inp, k1, k2, ai, aj, oi, oj, tmp, mat, results, obj, out, raised, hist>>

SO_Hit ==           \* same pixel
    /\ pc = "so_loop" /\ SoMore
    /\ Rd(F1.row, S.p1) = Rd(F2.row, S.p2) /\ Rd(F1.col, S.p1) = Rd(F2.col, S.p2)
    /\ k1' = Wr(k1, S.nhit, S.p1) /\ k2' = Wr(k2, S.nhit, S.p2)
    /\ S' = [S EXCEPT !.p1 = S.p1 + 1, !.p2 = S.p2 + 1, !.nhit = S.nhit + 1]
    /\ acc' = SoAcc(TRUE) \cup {Acc("k1", S.nhit, F1.nnz), Acc("k2", S.nhit, F2.nnz)}
    /\ UNCHANGED <<prog, pc, inp, ai, aj, oi, oj, tmp, mat, results, obj, out, raised, hist>>

SO_EndMerge ==      \* for (p1 = nhit; ...
    /\ pc = "so_loop" /\ ~SoMore
    /\ S' = [S EXCEPT !.p1 = S.nhit] /\ pc' = "so_fill1" /\ acc' = {}
    /\ UNCHANGED <<prog, inp, k1, k2, ai, aj, oi, oj, tmp, mat, results, obj, out, raised, hist>>

SO_Fill1 ==
    /\ pc = "so_fill1" /\ S.p1 < F1.nnz
    /\ k1' = Wr(k1, S.p1, 0) /\ S' = [S EXCEPT !.p1 = S.p1 + 1] /\ acc' = {Acc("k1", S.p1, F1.nnz)}
    /\ UNCHANGED <<prog, pc, inp, k2, ai, aj, oi, oj, tmp, mat, results, obj, out, raised, hist>>

SO_Fill1End ==
    /\ pc = "so_fill1" /\ S.p1 >= F1.nnz
    /\ S' = [S EXCEPT !.p2 = S.nhit] /\ pc' = "so_fill2" /\ acc' = {}
    /\ UNCHANGED <<prog, inp, k1, k2, ai, aj, oi, oj, tmp, mat, results, obj, out, raised, hist>>

SO_Fill2 ==
    /\ pc = "so_fill2" /\ S.p2 < F2.nnz
    /\ k2' = Wr(k2, S.p2, 0) /\ S' = [S EXCEPT !.p2 = S.p2 + 1] /\ acc' = {Acc("k2", S.p2, F2.nnz)}
    /\ UNCHANGED <<prog, pc, inp, k1, ai, aj, oi, oj, tmp, mat, results, obj, out, raised, hist>>

SO_Return ==
    /\ pc = "so_fill2" /\ S.p2 >= F2.nnz
    /\ S' = [S0 EXCEPT !.ret = S.nhit, !.nhit = S.nhit] /\ pc' = "so_ret" /\ acc' = {}
    /\ out' = [so |-> [k1 |-> AsSeq(k1), k2 |-> AsSeq(k2), npx |-> S.nhit]]
    /\ UNCHANGED <<prog, inp, k1, k2, ai, aj, oi, oj, tmp, mat, results, obj, raised, hist>>

\* sparseframe.py:496-497  npx == 0 -> return 0, None.   overlaps() has no such test: it goes on
\* with zero-length arrays and the f2py wrapper of compress_duplicates raises ValueError.
Lin_NoOverlap ==
    /\ pc = "so_ret" /\ S.ret = 0
    /\ out' = out @@ [lin |-> [nedge |-> 0, rcl |-> <<>>, none |-> TRUE],
                      ovl |-> IF FIXED THEN [ok |-> TRUE, dense |-> Arr(F1.n * F2.n, 0)]
                                       ELSE [ok |-> FALSE, dense |-> <<>>]]
    /\ raised' = ~FIXED
    /\ obj' = IF Hist THEN [obj EXCEPT !.ki = Overlay(obj.ki, k1), !.kj = Overlay(obj.kj, k2)] ELSE obj
    /\ pc' = "mat_chk" /\ acc' = {}
    /\ UNCHANGED <<prog, inp, S, k1, k2, ai, aj, oi, oj, tmp, mat, results, hist>>

\* sparseframe.py:498-500  r = labels1[ki[:npx]] ; c = labels2[kj[:npx]] ; then the call
Lin_Gather ==
    /\ pc = "so_ret" /\ S.ret > 0
    /\ ai' = [x \in 0..(S.ret - 1) |-> Rd(F1.lab, k1[x])]
    /\ aj' = [x \in 0..(S.ret - 1) |-> Rd(F2.lab, k2[x])]
    \* ect[:npx], tj[:npx], tmp: fresh arrays in overlaps(); in the object whatever earlier calls left,
    \* with tmp at its full extent nnzmax + 1
    /\ oi' = IF Hist THEN View(obj.ect, S.ret) ELSE Arr(S.ret, Poison)
    /\ oj' = IF Hist THEN View(obj.tj, S.ret) ELSE Arr(S.ret, Poison)
    /\ tmp' = IF Hist THEN obj.tmp ELSE Arr(Max2(F1.n, F2.n) + 1, Poison)
    /\ obj' = IF Hist THEN [obj EXCEPT !.ki = Overlay(obj.ki, k1), !.kj = Overlay(obj.kj, k2)] ELSE obj
    /\ S' = [S0 EXCEPT !.n = S.ret, !.nt = IF Hist THEN obj.nnzmax + 1 ELSE Max2(F1.n, F2.n) + 1, !.nhit = S.ret]
    /\ out' = out @@ [gather |-> [r |-> [x \in 1..S.ret |-> Rd(F1.lab, k1[x - 1])],
                                  c |-> [x \in 1..S.ret |-> Rd(F2.lab, k2[x - 1])]]]
    /\ pc' = "cd_start"
    /\ acc' = {Acc("labels1", k1[x], F1.nnz) : x \in 0..(S.ret - 1)} \cup
              {Acc("labels2", k2[x], F2.nnz) : x \in 0..(S.ret - 1)}
    /\ UNCHANGED <<prog, inp, k1, k2, mat, results, raised, hist>>

-----------------------------------------------------------------------------
(* compress_duplicates, sparse_image.c:744-818 ; i = ai, j = aj ; n = S.n, nt = S.nt *)

CdUn == <<prog, inp, k1, k2, mat, results, obj, out, raised, hist>>

CD_Start ==         \* vmax = i[0]; k = 0
    /\ pc = "cd_start"
    /\ S' = [S EXCEPT !.vmax = Rd(ai, 0), !.k = 0]
    /\ pc' = "cd_max" /\ acc' = {Acc("i", 0, S.n)}
    /\ UNCHANGED <<ai, aj, oi, oj, tmp>> /\ UNCHANGED CdUn

CD_Max ==           \* lines 749-754
    /\ pc = "cd_max" /\ S.k < S.n
    /\ LET v1 == IF Rd(ai, S.k) > S.vmax THEN Rd(ai, S.k) ELSE S.vmax
           v2 == IF Rd(aj, S.k) > v1 THEN Rd(aj, S.k) ELSE v1
       IN S' = [S EXCEPT !.vmax = v2, !.k = S.k + 1]
    /\ acc' = {Acc("i", S.k, S.n), Acc("j", S.k, S.n)}
    /\ UNCHANGED <<pc, ai, aj, oi, oj, tmp>> /\ UNCHANGED CdUn

CD_MaxEnd ==        \* assert(vmax < nt) ; k = 0
    /\ pc = "cd_max" /\ S.k >= S.n
    /\ S' = [S EXCEPT !.k = 0] /\ pc' = "cd_zero1"
    /\ acc' = {Acc("tmp", S.vmax, S.nt)}          \* the assertion, as a bound on the histogram
    /\ UNCHANGED <<ai, aj, oi, oj, tmp>> /\ UNCHANGED CdUn

\* the two passes share their zero / cumsum loops; pass 1 sorts on j, pass 2 on i
Pass == IF pc \in {"cd_zero1", "cd_hist1", "cd_cum1", "cd_scat1"} THEN 1 ELSE 2

CD_Zero ==          \* lines 756-758, 774-776
    /\ pc \in {"cd_zero1", "cd_zero2"} /\ S.k <= S.vmax
    /\ tmp' = Wr(tmp, S.k, 0) /\ S' = [S EXCEPT !.k = S.k + 1] /\ acc' = {Acc("tmp", S.k, S.nt)}
    /\ UNCHANGED <<pc, ai, aj, oi, oj>> /\ UNCHANGED CdUn

CD_ZeroEnd ==
    /\ pc \in {"cd_zero1", "cd_zero2"} /\ S.k > S.vmax
    /\ S' = [S EXCEPT !.k = 0] /\ pc' = (IF Pass = 1 THEN "cd_hist1" ELSE "cd_hist2") /\ acc' = {}
    /\ UNCHANGED <<ai, aj, oi, oj, tmp>> /\ UNCHANGED CdUn

CD_Hist1 ==         \* tmp[j[k]] = tmp[j[k]] + 1
    /\ pc = "cd_hist1" /\ S.k < S.n
    /\ tmp' = Wr(tmp, Rd(aj, S.k), Rd(tmp, Rd(aj, S.k)) + 1)
    /\ S' = [S EXCEPT !.k = S.k + 1]
    /\ acc' = {Acc("j", S.k, S.n), Acc("tmp", Rd(aj, S.k), S.nt)}
    /\ UNCHANGED <<pc, ai, aj, oi, oj>> /\ UNCHANGED CdUn

CD_Hist2 ==         \* tmp[i[k]]++
    /\ pc = "cd_hist2" /\ S.k < S.n
    /\ tmp' = Wr(tmp, Rd(ai, S.k), Rd(tmp, Rd(ai, S.k)) + 1)
    /\ S' = [S EXCEPT !.k = S.k + 1]
    /\ acc' = {Acc("i", S.k, S.n), Acc("tmp", Rd(ai, S.k), S.nt)}
    /\ UNCHANGED <<pc, ai, aj, oi, oj>> /\ UNCHANGED CdUn

CD_HistEnd ==       \* c = 0 ; k = 0
    /\ pc \in {"cd_hist1", "cd_hist2"} /\ S.k >= S.n
    /\ S' = [S EXCEPT !.k = 0, !.c = 0] /\ pc' = (IF pc = "cd_hist1" THEN "cd_cum1" ELSE "cd_cum2")
    /\ acc' = {}
    /\ UNCHANGED <<ai, aj, oi, oj, tmp>> /\ UNCHANGED CdUn

CD_Cumsum ==        \* t = tmp[k]; tmp[k] = c; c = c + t
    /\ pc \in {"cd_cum1", "cd_cum2"} /\ S.k <= S.vmax
    /\ tmp' = Wr(tmp, S.k, S.c)
    /\ S' = [S EXCEPT !.t = Rd(tmp, S.k), !.c = S.c + Rd(tmp, S.k), !.k = S.k + 1]
    /\ acc' = {Acc("tmp", S.k, S.nt)}
    /\ UNCHANGED <<pc, ai, aj, oi, oj>> /\ UNCHANGED CdUn

CD_CumsumEnd ==
    /\ pc \in {"cd_cum1", "cd_cum2"} /\ S.k > S.vmax
    /\ S' = [S EXCEPT !.k = 0] /\ pc' = (IF pc = "cd_cum1" THEN "cd_scat1" ELSE "cd_scat2") /\ acc' = {}
    /\ UNCHANGED <<ai, aj, oi, oj, tmp>> /\ UNCHANGED CdUn

CD_Scatter1 ==      \* oi[tmp[j[k]]] = i[k]; oj[tmp[j[k]]] = j[k]; tmp[j[k]]++
    /\ pc = "cd_scat1" /\ S.k < S.n
    /\ LET jk == Rd(aj, S.k)
           d == Rd(tmp, jk)
       IN /\ oi' = Wr(oi, d, Rd(ai, S.k))
          /\ oj' = Wr(oj, d, jk)
          /\ tmp' = Wr(tmp, jk, d + 1)
          /\ acc' = {Acc("i", S.k, S.n), Acc("j", S.k, S.n), Acc("tmp", jk, S.nt),
                     Acc("oi", d, S.n), Acc("oj", d, S.n)}
    /\ S' = [S EXCEPT !.k = S.k + 1]
    /\ UNCHANGED <<pc, ai, aj>> /\ UNCHANGED CdUn

CD_Scatter1End ==
    /\ pc = "cd_scat1" /\ S.k >= S.n
    /\ S' = [S EXCEPT !.k = 0] /\ pc' = "cd_zero2" /\ acc' = {}
    /\ UNCHANGED <<ai, aj, oi, oj, tmp>> /\ UNCHANGED CdUn

CD_Scatter2 ==      \* j[tmp[oi[k]]] = oj[k]; i[tmp[oi[k]]] = oi[k]; tmp[oi[k]]++
    /\ pc = "cd_scat2" /\ S.k < S.n
    /\ LET ok == Rd(oi, S.k)
           d == Rd(tmp, ok)
       IN /\ aj' = Wr(aj, d, Rd(oj, S.k))
          /\ ai' = Wr(ai, d, ok)
          /\ tmp' = Wr(tmp, ok, d + 1)
          /\ acc' = {Acc("oi", S.k, S.n), Acc("oj", S.k, S.n), Acc("tmp", ok, S.nt),
                     Acc("i", d, S.n), Acc("j", d, S.n)}
    /\ S' = [S EXCEPT !.k = S.k + 1]
    /\ UNCHANGED <<pc, oi, oj>> /\ UNCHANGED CdUn

CD_RunInit ==       \* ik = i[0]; jk = j[0]; t = 1; c = 0; k = 1
    /\ pc = "cd_scat2" /\ S.k >= S.n
    /\ S' = [S EXCEPT !.ik = Rd(ai, 0), !.jk = Rd(aj, 0), !.t = 1, !.c = 0, !.k = 1]
    /\ pc' = "cd_run" /\ acc' = {Acc("i", 0, S.n), Acc("j", 0, S.n)}
    /\ UNCHANGED <<ai, aj, oi, oj, tmp>> /\ UNCHANGED CdUn

CD_RunSame ==       \* (ik == i[k]) && (jk == j[k]) : t++
    /\ pc = "cd_run" /\ S.k < S.n
    /\ S.ik = Rd(ai, S.k) /\ S.jk = Rd(aj, S.k)
    /\ S' = [S EXCEPT !.t = S.t + 1, !.k = S.k + 1]
    /\ acc' = {Acc("i", S.k, S.n), Acc("j", S.k, S.n)}
    /\ UNCHANGED <<pc, ai, aj, oi, oj, tmp>> /\ UNCHANGED CdUn

CD_RunNew ==        \* write prev, start the next run
    /\ pc = "cd_run" /\ S.k < S.n
    /\ ~(S.ik = Rd(ai, S.k) /\ S.jk = Rd(aj, S.k))
    \* i[c] = ik; j[c] = jk; oi[c] = t;  then ik = i[k]; jk = j[k]  (c < k: the writes do not touch cell k)
    /\ LET ai1 == Wr(ai, S.c, S.ik)
           aj1 == Wr(aj, S.c, S.jk)
       IN /\ ai' = ai1 /\ aj' = aj1 /\ oi' = Wr(oi, S.c, S.t)
          /\ S' = [S EXCEPT !.c = S.c + 1, !.t = 1, !.ik = Rd(ai1, S.k), !.jk = Rd(aj1, S.k), !.k = S.k + 1]
    /\ acc' = {Acc("i", S.k, S.n), Acc("j", S.k, S.n), Acc("i", S.c, S.n), Acc("j", S.c, S.n),
               Acc("oi", S.c, S.n)}
    /\ UNCHANGED <<pc, oj, tmp>> /\ UNCHANGED CdUn

CD_Return ==        \* write last ; return c + 1
    /\ pc = "cd_run" /\ S.k >= S.n
    /\ ai' = Wr(ai, S.c, S.ik) /\ aj' = Wr(aj, S.c, S.jk) /\ oi' = Wr(oi, S.c, S.t)
    /\ S' = [S0 EXCEPT !.ret = S.c + 1, !.n = S.n, !.nt = S.nt, !.nhit = S.nhit]
    /\ pc' = "cd_ret"
    /\ acc' = {Acc("i", S.c, S.n), Acc("j", S.c, S.n), Acc("oi", S.c, S.n)}
    /\ UNCHANGED <<oj, tmp>> /\ UNCHANGED CdUn

CdOut == [i |-> AsSeq(ai), j |-> AsSeq(aj), oi |-> AsSeq(oi), oj |-> AsSeq(oj), tmp |-> AsSeq(tmp),
          ret |-> S.ret]

Cd_Done ==          \* program "cd" ends here
    /\ pc = "cd_ret" /\ prog = "cd"
    /\ out' = [cd |-> CdOut] /\ pc' = "done" /\ acc' = {}
    /\ UNCHANGED <<prog, inp, S, k1, k2, ai, aj, oi, oj, tmp, mat, results, obj, raised, hist>>

\* sparseframe.py:501-506  rcl[:,0] = r[:nedge] ...   and  sparseframe.py:571-577 (overlaps):
\* coo_matrix((ect[:nedge], (row[:nedge]-1, col[:nedge]-1)), shape=(n1, n2))
Lin_Result ==
    /\ pc = "cd_ret" /\ prog \in {"pipe", "hist"}
    /\ obj' = IF Hist THEN [obj EXCEPT !.ect = Overlay(obj.ect, oi), !.tj = Overlay(obj.tj, oj), !.tmp = tmp]
                      ELSE obj
    /\ LET ne == S.ret
           rows == [x \in 1..ne |-> <<ai[x - 1], aj[x - 1], oi[x - 1]>>]
           dm == [q \in 0..(F1.n * F2.n - 1) |->
                    LET hits == {x \in 1..ne : (rows[x][1] - 1) * F2.n + (rows[x][2] - 1) = q}
                    IN IF hits = {} THEN 0 ELSE rows[CHOOSE x \in hits : TRUE][3]]
       IN /\ out' = out @@ [cd |-> CdOut,
                            lin |-> [nedge |-> ne, rcl |-> rows, none |-> FALSE],
                            ovl |-> [ok |-> TRUE, dense |-> dm]]
          /\ acc' = {Acc("ovl_row", rows[x][1] - 1, F1.n) : x \in 1..ne} \cup
                    {Acc("ovl_col", rows[x][2] - 1, F2.n) : x \in 1..ne}
    /\ pc' = "mat_chk"
    /\ UNCHANGED <<prog, inp, S, k1, k2, ai, aj, oi, oj, tmp, mat, results, raised, hist>>

-----------------------------------------------------------------------------
(* overlaps_matrix.__call__, sparseframe.py:529-545 *)

Mat_Check ==        \* asserts labels.max()-1 < n ; realloc ; mat = matmem[:n1*n2]
    /\ pc = "mat_chk"
    /\ MaxOf(F1.lab) - 1 < F1.n /\ MaxOf(F2.lab) - 1 < F2.n
    /\ LET mx == Max2(F1.n, F2.n)
           grow == mx > obj.npkmax
           npkmax == IF grow THEN mx ELSE obj.npkmax
           o1 == IF grow THEN [obj EXCEPT !.npkmax = mx, !.realloc_mat = TRUE] ELSE obj
           o2 == IF Hist /\ grow THEN [o1 EXCEPT !.matmem = Arr(mx * mx, Poison),
                                                 !.results = Arr(3 * mx * mx, Poison)]
                 ELSE o1
       IN /\ obj' = o2
          /\ results' = IF Hist THEN o2.results ELSE Arr(3 * npkmax * npkmax, Poison)
          \* mat = self.matmem[:n1*n2]
          /\ mat' = IF Hist THEN View(o2.matmem, F1.n * F2.n) ELSE Arr(F1.n * F2.n, Poison)
    /\ S' = [S0 EXCEPT !.i1 = 0]
    /\ pc' = "cov_zero" /\ acc' = {}
    /\ UNCHANGED <<prog, inp, k1, k2, ai, aj, oi, oj, tmp, out, raised, hist>>

(* coverlaps, sparse_image.c:847-886 ; npk1 = F1.n, npk2 = F2.n *)
CovUn == <<prog, inp, k1, k2, ai, aj, oi, oj, tmp, obj, out, raised, hist>>
MatExt == F1.n * F2.n
ResExt == Size(results)

COV_Zero ==
    /\ pc = "cov_zero" /\ S.i1 < F1.n * F2.n
    /\ mat' = Wr(mat, S.i1, 0) /\ S' = [S EXCEPT !.i1 = S.i1 + 1] /\ acc' = {Acc("mat", S.i1, MatExt)}
    /\ UNCHANGED <<pc, results>> /\ UNCHANGED CovUn

COV_ZeroEnd ==
    /\ pc = "cov_zero" /\ S.i1 >= F1.n * F2.n
    /\ S' = [S EXCEPT !.i1 = 0, !.i2 = 0] /\ pc' = "cov_merge" /\ acc' = {}
    /\ UNCHANGED <<mat, results>> /\ UNCHANGED CovUn

CovMore == S.i1 < F1.nnz /\ S.i2 < F2.nnz
CovAcc == {Acc("row1", S.i1, F1.nnz), Acc("col1", S.i1, F1.nnz), Acc("row2", S.i2, F2.nnz),
           Acc("col2", S.i2, F2.nnz)}
CovEq == Rd(F1.row, S.i1) = Rd(F2.row, S.i2) /\ Rd(F1.col, S.i1) = Rd(F2.col, S.i2)
CovGt == Before(Rd(F2.row, S.i2), Rd(F2.col, S.i2), Rd(F1.row, S.i1), Rd(F1.col, S.i1))   \* p1 > p2

COV_Hit ==          \* p1 == p2 : mat[(labels1[i1]-1)*npk2 + labels2[i2]-1] += 1
    /\ pc = "cov_merge" /\ CovMore /\ CovEq
    /\ LET a == (Rd(F1.lab, S.i1) - 1) * F2.n + Rd(F2.lab, S.i2) - 1 IN
        /\ mat' = Wr(mat, a, Rd(mat, a) + 1)
        /\ acc' = CovAcc \cup {Acc("labels1", S.i1, F1.nnz), Acc("labels2", S.i2, F2.nnz),
                               Acc("mat", a, MatExt), Acc("matcol", Rd(F2.lab, S.i2) - 1, F2.n)}
    /\ S' = [S EXCEPT !.i1 = S.i1 + 1, !.i2 = S.i2 + 1]
    /\ UNCHANGED <<pc, results>> /\ UNCHANGED CovUn

COV_Ahead1 ==       \* p1 > p2 : i2++
    /\ pc = "cov_merge" /\ CovMore /\ ~CovEq /\ CovGt
    /\ S' = [S EXCEPT !.i2 = S.i2 + 1] /\ acc' = CovAcc
    /\ UNCHANGED <<pc, mat, results>> /\ UNCHANGED CovUn

COV_Ahead2 ==       \* p1 < p2 : i1++
    /\ pc = "cov_merge" /\ CovMore /\ ~CovEq /\ ~CovGt
    /\ S' = [S EXCEPT !.i1 = S.i1 + 1] /\ acc' = CovAcc
    /\ UNCHANGED <<pc, mat, results>> /\ UNCHANGED CovUn

COV_MergeEnd ==
    /\ pc = "cov_merge" /\ ~CovMore
    /\ S' = [S EXCEPT !.npk = 0, !.i1 = 0, !.i2 = 0] /\ pc' = "cov_scan" /\ acc' = {}
    /\ UNCHANGED <<mat, results>> /\ UNCHANGED CovUn

ScanNext(s) == IF s.i2 + 1 < F2.n THEN [s EXCEPT !.i2 = s.i2 + 1] ELSE [s EXCEPT !.i1 = s.i1 + 1, !.i2 = 0]

COV_ScanHit ==      \* mat[i1*npk2+i2] > 0 : results[npk*3 ..] = i1+1, i2+1, count
    /\ pc = "cov_scan" /\ S.i1 < F1.n
    /\ Rd(mat, S.i1 * F2.n + S.i2) > 0
    /\ results' = Wr(Wr(Wr(results, S.npk * 3, S.i1 + 1), S.npk * 3 + 1, S.i2 + 1),
                     S.npk * 3 + 2, Rd(mat, S.i1 * F2.n + S.i2))
    /\ S' = ScanNext([S EXCEPT !.npk = S.npk + 1])
    /\ acc' = {Acc("mat", S.i1 * F2.n + S.i2, MatExt), Acc("results", S.npk * 3, ResExt),
               Acc("results", S.npk * 3 + 1, ResExt), Acc("results", S.npk * 3 + 2, ResExt)}
    /\ UNCHANGED <<pc, mat>> /\ UNCHANGED CovUn

COV_ScanZero ==
    /\ pc = "cov_scan" /\ S.i1 < F1.n
    /\ ~(Rd(mat, S.i1 * F2.n + S.i2) > 0)
    /\ S' = ScanNext(S) /\ acc' = {Acc("mat", S.i1 * F2.n + S.i2, MatExt)}
    /\ UNCHANGED <<pc, mat, results>> /\ UNCHANGED CovUn

\* return npk ; sparseframe.py:545  return nov, self.results[:nov*3].reshape((nov,3))
Mat_Result ==
    /\ pc = "cov_scan" /\ S.i1 >= F1.n
    /\ LET res == [x \in 1..S.npk |-> <<results[3 * (x - 1)], results[3 * (x - 1) + 1], results[3 * (x - 1) + 2]>>]
       IN /\ out' = out @@ [mat |-> [nov |-> S.npk, res |-> res,
                                      matmem |-> AsSeq(mat), results |-> AsSeq(results)]]
          \* program "hist": the call is over; the record of the call goes to the history
          /\ hist' = IF Hist
                     THEN Append(hist, [ns |-> inp.ns, nf |-> inp.nf, f1 |-> FrameJson(F1), f2 |-> FrameJson(F2),
                                        lin |-> out.lin, mat |-> [nov |-> S.npk, res |-> res],
                                        nnzmax |-> obj.nnzmax, npkmax |-> obj.npkmax])
                     ELSE hist
    /\ obj' = IF Hist THEN [obj EXCEPT !.matmem = Overlay(obj.matmem, mat), !.results = results] ELSE obj
    /\ S' = [S0 EXCEPT !.ret = S.npk]
    /\ pc' = IF Hist /\ obj.ncall < HistLen THEN "next" ELSE "done"
    /\ acc' = {}
    /\ UNCHANGED <<prog, inp, k1, k2, ai, aj, oi, oj, tmp, mat, results, raised>>

\* program "hist": the next call on the same two objects.  Any pair of frames (the objects do not know the
\* image shape), or - chained - the previous second frame with a new one (consecutive frames of one scan).
Hist_Next ==
    /\ pc = "next"
    /\ \E g \in (IF obj.chain THEN {10 * inp.ns + inp.nf} ELSE Pick(IF HistPickNext = 0 THEN 0 ELSE 1, HistGrids)) :
       LET sh == Sh(g) IN
       \E l1 \in (IF obj.chain THEN {inp.lab2} ELSE Pick(HistPickNext, GoodLabs(sh))) :
       \E l2 \in Pick(HistPickNext, GoodLabs(sh)) :
       \E e1 \in (IF obj.chain THEN {F2.n - MaxOf(inp.lab2)} ELSE Pick(HistPickNext, NExtra)) :
       \E e2 \in Pick(HistPickNext, NExtra) :
           /\ inp' = [ns |-> sh[1], nf |-> sh[2], lab1 |-> l1, lab2 |-> l2,
                      f1 |-> Frame(sh, l1, e1), f2 |-> Frame(sh, l2, e2)]
    /\ obj' = [obj EXCEPT !.ncall = obj.ncall + 1]
    /\ S' = S0 /\ k1' = None /\ k2' = None /\ ai' = None /\ aj' = None /\ oi' = None /\ oj' = None
    /\ tmp' = None /\ mat' = None /\ results' = None
    /\ out' = [x \in {} |-> 0] /\ pc' = "lin_chk" /\ acc' = {}
    /\ UNCHANGED <<prog, raised, hist>>

-----------------------------------------------------------------------------
Next ==
    \/ Lin_Check \/ SO_RowAhead1 \/ SO_RowAhead2 \/ SO_ColAhead1 \/ SO_ColAhead2 \/ SO_Hit
    \/ SO_EndMerge \/ SO_Fill1 \/ SO_Fill1End \/ SO_Fill2 \/ SO_Return
    \/ Lin_NoOverlap \/ Lin_Gather
    \/ CD_Start \/ CD_Max \/ CD_MaxEnd \/ CD_Zero \/ CD_ZeroEnd \/ CD_Hist1 \/ CD_Hist2 \/ CD_HistEnd
    \/ CD_Cumsum \/ CD_CumsumEnd \/ CD_Scatter1 \/ CD_Scatter1End \/ CD_Scatter2
    \/ CD_RunInit \/ CD_RunSame \/ CD_RunNew \/ CD_Return \/ Cd_Done \/ Lin_Result
    \/ Mat_Check \/ COV_Zero \/ COV_ZeroEnd \/ COV_Hit \/ COV_Ahead1 \/ COV_Ahead2 \/ COV_MergeEnd
    \/ COV_ScanHit \/ COV_ScanZero \/ Mat_Result \/ Hist_Next

Spec == Init /\ [][Next]_vars

-----------------------------------------------------------------------------
(* Invariants *)

InBounds == \A a \in acc : a.ix >= 0 /\ a.ix < a.ext

Pix == 0..(inp.ns * inp.nf - 1)
\* the property's own definition of the answer: exact pair counts, each pair once
Brute == {t \in (1..NLab) \X (1..NLab) \X (1..Cardinality(Pix)) :
             t[3] = Cardinality({p \in Pix : inp.lab1[p] = t[1] /\ inp.lab2[p] = t[2]})}
Common == {p \in Pix : inp.lab1[p] > 0 /\ inp.lab2[p] > 0}
RowSet(rows) == {rows[x] : x \in DOMAIN rows}

SoExact ==
    (prog \in {"pipe", "hist"} /\ pc = "so_ret") =>
        /\ S.ret = Cardinality(Common)
        /\ \A h \in 0..(S.ret - 1) :
              /\ F1.row[k1[h]] = F2.row[k2[h]] /\ F1.col[k1[h]] = F2.col[k2[h]]
              /\ h > 0 => k1[h - 1] < k1[h] /\ k2[h - 1] < k2[h]
        /\ \A h \in DOMAIN k1 : h >= S.ret => k1[h] = 0
        /\ \A h \in DOMAIN k2 : h >= S.ret => k2[h] = 0

CdInI == IF prog = "cd" THEN inp.i ELSE [x \in 0..(S.n - 1) |-> F1.lab[k1[x]]]
CdInJ == IF prog = "cd" THEN inp.j ELSE [x \in 0..(S.n - 1) |-> F2.lab[k2[x]]]
CdExact ==
    pc = "cd_ret" =>
        LET I == CdInI
            J == CdInJ
            pairs == {<<I[x], J[x]>> : x \in DOMAIN I}
        IN /\ S.ret = Cardinality(pairs)
           /\ \A x \in 0..(S.ret - 1) :
                 /\ <<ai[x], aj[x]>> \in pairs
                 /\ oi[x] = Cardinality({y \in DOMAIN I : I[y] = ai[x] /\ J[y] = aj[x]})
                 /\ x > 0 => Before(ai[x - 1], aj[x - 1], ai[x], aj[x])

\* a call is over: `out` holds its answers, `inp` its frames.  In program "hist" this is the end of EVERY
\* call of the history, so LinExact / MatExact / LinEqMat say that the answers of a re-used object do not
\* depend on what its work arrays held (each call is judged by its own definition).
PipeDone == (prog = "pipe" /\ pc = "done") \/ (prog = "hist" /\ pc \in {"next", "done"})

LinExact ==
    PipeDone =>
        /\ RowSet(out.lin.rcl) = Brute
        /\ out.lin.nedge = Cardinality(Brute) /\ Len(out.lin.rcl) = out.lin.nedge
        /\ out.lin.none <=> (Common = {})

MatExact ==
    PipeDone =>
        /\ RowSet(out.mat.res) = Brute
        /\ out.mat.nov = Cardinality(Brute) /\ Len(out.mat.res) = out.mat.nov

LinEqMat == PipeDone => RowSet(out.lin.rcl) = RowSet(out.mat.res)

OvlTotal == ~raised

OvlExact ==
    (PipeDone /\ out.ovl.ok) =>
        out.ovl.dense = [q \in 0..(F1.n * F2.n - 1) |->
            Cardinality({p \in Pix : inp.lab1[p] = (q \div F2.n) + 1 /\ inp.lab2[p] = (q % F2.n) + 1})]

\* ---- emission ----------------------------------------------------------------------------

Case ==
    IF prog = "cd"
    THEN [prog |-> "cd", i |-> AsSeq(inp.i), j |-> AsSeq(inp.j), n |-> inp.n, nt |-> inp.nt, cd |-> out.cd]
    ELSE IF prog = "hist"
    THEN [prog |-> "hist", nnzmax0 |-> NnzMax0, npkmax0 |-> NpkMax0, chain |-> obj.chain, calls |-> hist]
    ELSE [prog |-> "pipe", ns |-> inp.ns, nf |-> inp.nf, f1 |-> FrameJson(F1), f2 |-> FrameJson(F2),
          nnzmax0 |-> NnzMax0, npkmax0 |-> NpkMax0, nnzmax |-> obj.nnzmax, npkmax |-> obj.npkmax,
          so |-> out.so,
          cd |-> IF "cd" \in DOMAIN out THEN <<[in |-> out.gather, out |-> out.cd]>> ELSE <<>>,
          lin |-> out.lin,
          ovl |-> [ok |-> out.ovl.ok, dense |-> IF out.ovl.ok THEN AsSeq(out.ovl.dense) ELSE <<>>],
          mat |-> out.mat]

Emit == pc = "done" => PrintT("@@" \o ToJson(Case))

=============================================================================

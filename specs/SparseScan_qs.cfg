SPECIFICATION Spec
CONSTANTS
  NS = 1
  NF = 2
  Vals = {2}
  MaxFrames = 3
  Cap1 = 3
  Cap2 = 3
  Cap3 = 3
  Thr = 1
  Stages = {1}
  BlobStages = {}
  SubRanges = TRUE
  MotorCfgs = {0, 36, 250}
  FIXED = TRUE
INVARIANT InBounds
INVARIANT PtrOK
INVARIANT LoadOK
INVARIANT GetOK
INVARIANT CpLabelsOK
INVARIANT SmoothOK
INVARIANT LmLabelsOK
INVARIANT CountsOK
INVARIANT MomentsTotal
INVARIANT MomentsOK
INVARIANT BlobOK
INVARIANT Emit
CHECK_DEADLOCK FALSE

\* theorems: with the textbook table the walk is complete and sound on right-angled cells with a <= b and on hexagonal metrics
SPECIFICATION Spec
CONSTANTS
  HMAX = 200
  Forms <- FormsOrth
  Limits = {3, 6, 10, 15, 21}
  Centrings = {"P", "A", "B", "C", "I", "F", "R"}
  Outif <- OutifTextbook
  TIE = FALSE
  ORACLE = TRUE
  BigCases <- BigNone
INVARIANT OrthComplete
CHECK_DEADLOCK FALSE

\* trace validation of recorded find_ND_labels runs (see LabelND_Trace.tla); run with -workers 1
INIT TInit
NEXT TNext
CONSTANTS
  NSet = {1}
  ESet = {0}
  Threads = {t1}
  Static = FALSE
  OrdSet = {0}
  History = TRUE
  DoEmit = FALSE
  Bug = "none"
  Hist = 0
  DsHist = 0
  DsOps = {}
  NMon = 0
  Neg = FALSE
  Shape = "any"
INVARIANT TraceInv
CHECK_DEADLOCK FALSE

SPECIFICATION Spec
CONSTANTS
  CELLS <- CELLS_cx
  SCR <- SCR_q
  SCRWV <- SCRWV_q
  CENTS <- CENTS_none
  PROBES <- PROBES_std
  TOLS <- TOLS_std
  TIES = "even"
  MODFIX = FALSE
  COLFIX = FALSE
  WVFIX = TRUE
  NTRYFIX = TRUE
  MAXIT = 10
INVARIANT IndexRow
INVARIANT IndexCol
CHECK_DEADLOCK FALSE

------------------------------ MODULE Geometry ------------------------------
(***************************************************************************)
(* Detector pixel -> laboratory -> scattering vector -> g-vector pipeline   *)
(* of ImageD11 and its inverse (properties C01 and C02), in exact integer / *)
(* rational arithmetic at rational-trigonometry points.                     *)
(*                                                                         *)
(* CODE MODELLED                                                           *)
(*   ImageD11/transform.py                                                 *)
(*      50-66  detector_rotation_matrix    Rx(tilt_x).Ry(tilt_y).Rz(tilt_z) *)
(*      69-118 compute_xyz_lab             Place, Flip, Tilt, Shift         *)
(*     158-191 compute_tth_eta_from_xyz    Diff (+ atan2 in the harness)    *)
(*     194-231 compute_sinsqth_from_xyz, sinth2_sqrt_deriv  (BraggLaw: the  *)
(*             arctan-free sin^2(theta) = (|d| - d_x)/(2|d|))               *)
(*     695-752 PixelLUT (per-pixel xyz, tth, eta, k, sinthsq)               *)
(*     234-305 compute_xyz_from_tth_eta    Project                          *)
(*     308-366 compute_grain_origins       Origin                           *)
(*     403-478 compute_k_vectors / compute_g_from_k   RotateG               *)
(*     481-517 uncompute_g_vectors         Uncompute                        *)
(*     605-693 Ctransform (packing of rmat / cen / distance_vec)            *)
(*   src/cdiffraction.c 31-224 compute_geometry, compute_gv, compute_xlylzl *)
(*      (matmat(cmat, wmat, mat) really forms wmat.cmat: wedge outermost)   *)
(*   ImageD11/gv_general.py 192-312 g_to_k, wedgechi, chiwedge, k_to_g      *)
(*   ImageD11/sinograms/point_by_point.py 84-280 numba copies               *)
(*   ImageD11/columnfile.py 439-541 updateGV / updateGeometry               *)
(*                                                                         *)
(* The model follows the *documented* reference (docstrings / comments of   *)
(* transform.py), not any implementation's formulas:                        *)
(*   v     = ((sc - z_center) z_size , (fc - y_center) y_size)     Place    *)
(*           (sc, fc given in thirds of a pixel: cfg.sc / PDEN)              *)
(*   fl    = [[o11,o12],[o21,o22]] v ;  vec = (0, fl[1], fl[0])    Flip     *)
(*   xyz   = Rx(tilt_x) Ry(tilt_y) Rz(tilt_z) vec                  Tilt     *)
(*   xyz_x = xyz_x + distance                                      Shift    *)
(*   o     = WI CI Rz(omega*omegasign) t , WI = Ry(-wedge), CI = Rx(chi)     *)
(*                                                                 Origin   *)
(*   d     = xyz - o                                               Diff     *)
(*   g     = G k ,  G = (WI CI Rz(omega*omegasign))^T ,                     *)
(*   k     = (d/|d| - e_x)/lambda ;  A = G d , Bx = G e_x          RotateG  *)
(*   (tth = atan2(sqrt(dy^2+dz^2), dx), eta = atan2(-dy, dz), ds = |g| and  *)
(*    g = (A/|d| - Bx)/lambda need a square root / arctangent: the harness  *)
(*    finishes them from the exact values emitted here.)                    *)
(*   Project: the ray o + s d meets the detector plane n.(p - O) = 0        *)
(*    (n = R e_x, O = distance e_x) at s = 1 and the pixel is recovered by  *)
(*    inverting Shift, Tilt, Flip, Place.                                   *)
(*   Uncompute: the omega values at which a given g diffracts solve         *)
(*      e_x . (WI CI Rz(x) g) = -lambda |g|^2 / 2        (Laue / Ewald)     *)
(*    i.e.  a sin x + b cos x = c  with r = first row of WI CI, gam = lambda g *)
(*      a = r_y gam_x - r_x gam_y ,  b = r_x gam_x + r_y gam_y ,            *)
(*      c = -|gam|^2/2 - r_z gam_z                                          *)
(*    solvable iff a^2 + b^2 > 0 and c^2 <= a^2 + b^2 : decided here by     *)
(*    integer comparison (SqCmp: continued-fraction comparison, no          *)
(*    overflow).                                                           *)
(*                                                                         *)
(* NUMBERS  angles are <<c,s,n>> of ExactLA.Ang; a scaled vector is          *)
(*   <<numerators, den>>, a scaled matrix <<rows, den>>.  At most three     *)
(*   Pythagorean angles with pairwise different denominators are active in  *)
(*   one configuration (all other switched-on angles are right angles), so  *)
(*   every denominator divides 5*13*25 = 1625 (1625^2 for A = G d).          *)
(*                                                                         *)
(* VARIABLES                                                               *)
(*   lat    the lattice point being picked (forward machine only)           *)
(*   cfg    the configuration: lattice point + every derived parameter      *)
(*   stage  "pick" "start" "placed" "flipped" "tilted" "shifted" "origin"   *)
(*          "diffed" "rotated" "projected" | "uncomputed" (terminal: last 2) *)
(*          SpecAx: "axis" "axrotated" (terminal); lat = <<axis, pre>> index *)
(*   pix    (slow, fast) detector-plane vector after Place (thirds)         *)
(*   xyz    scaled lab position of the spot                                 *)
(*   org    scaled grain origin o                                           *)
(*   d      scaled difference vector (reduced)                              *)
(*   G      scaled rotation taking lab scattering vectors to g-vectors      *)
(*   out    results of RotateG / Project / Uncompute                        *)
(*                                                                         *)
(* FOUR MACHINES (a .cfg selects SpecFwd / SpecInv / SpecRaw / SpecAx, or    *)
(* SpecRawAx = raw and axis machine in one run; Next is shared)             *)
(*   SpecFwd  lattice: SWITCHSETS (on/off of tilt_x tilt_y tilt_z wedge chi *)
(*            t_x t_y t_z) x FLIPS x SIGNS (omegasign) x SIZES (pixel-size  *)
(*            sign pairs) x PEAKS x OMEGAS, picked by PickSwitches,          *)
(*            PickDetector, PickPeak; angle values, wavelength, distance    *)
(*            and the non-zero translations are a fixed function of the     *)
(*            lattice point (Salt, AngleOf, OmegaOf).  Then Place Flip Tilt *)
(*            Shift Origin Diff RotateG Project.                            *)
(*            The distance runs over four classes (DistList): 60, 70        *)
(*            (forward), -60 (back-scattering detector) and 2 (near field:  *)
(*            tilted detector reaching behind the sample, grain translated  *)
(*            beyond the detector), so that lab vectors with d_x < 0, i.e.  *)
(*            two-theta > 90 degrees, occur in a quarter to a half of the   *)
(*            configurations of every switch set (the harness counts them). *)
(*            Geometry_fwd_t: whole lattice (262144 terminal states);       *)
(*            Geometry_fwd_corner: all switch sets x both omega signs at    *)
(*            the default flip; Geometry_fwd_sim: for `tlc -simulate`.      *)
(*   SpecInv  d = a Pythagorean quadruple (|d| integer, so k and g are      *)
(*            rational), t = 0, (wedge, chi, omega) in INVANG (at most two  *)
(*            Pythagorean angles: InvFits keeps every numerator < 2^30),    *)
(*            scale m: g = m G k.  Origin Diff RotateG Uncompute.  m = 1: g *)
(*            diffracts at the generating omega; m = 2: |g| > 2/lambda      *)
(*            when tth > 60 degrees.  The quadruples include d_x < 0        *)
(*            (two-theta > 90 degrees) and d = -e_x (two-theta = 180).       *)
(*   SpecRaw  lambda g = (sn/sd) q/|q| given directly (blind-cone vectors   *)
(*            along / near the axis, |g| = 2/lambda, |g| > 2/lambda).       *)
(*            Uncompute.                                                    *)
(*   SpecAx   the documented conventions of gv_general.py 40-188 (one more  *)
(*            machine, not a stage of the pipeline): a rotation by `omega`  *)
(*            about a unit axis n (AxisList: +-z, x, -y and three oblique   *)
(*            axes n/|n| with integer |n|) is                               *)
(*               rot(n, a) p = p cos a + n (n.p)(1 - cos a) + (n x p) sin a  *)
(*            (docstring of rotation_axis.rotate_vectors; right handed),    *)
(*            as a matrix  R = I cos a + [n]x sin a + n n^T (1 - cos a),    *)
(*            and  g = pre . rot(axis, angle) . post . k  (docstring of     *)
(*            k_to_g) with post = chiwedge = Rx(-chi).Ry(wedge) = (WI.CI)^T,*)
(*            pre from PreList, lambda k = d/|d| - e_x of a Pythagorean     *)
(*            quadruple.  One action RotateAx; the record carries R, R^-1,  *)
(*            post.k, R.post.k, g and the first row of WI.CI.  Non-unit     *)
(*            axis directions are outside the model (every caller of the    *)
(*            pipeline passes +-z).                                         *)
(*                                                                         *)
(* INSTANCE FAMILIES OF THE HARNESS ONLY (the model is covariant under      *)
(* them, the expectation stays the record's): batch length / thread count, *)
(* how a columnfile names and stores its columns (sc,fc / xc,yc titles,     *)
(* list of arrays / one 2-D array, copy, filter), caller-supplied output    *)
(* buffers, histories of one object (all parameters, or only a subset of    *)
(* them - only the wavelength, only the wedge, only the detector, ... -     *)
(* edited between two updates: the model is a function of the current       *)
(* configuration alone), the Python type of a parameter (float              *)
(* / int / text through dumbtypecheck), a shift of the diffraction origin   *)
(* along the beam by a rational (compute_gve xpos, get_local_gv grids:      *)
(* d = xyz - x e_x - o from the record's exact xyz, o and G), a rotation A  *)
(* of g paired with g_to_k's pre = A, the default axis +z of g_to_k, the     *)
(* per-pixel table transform.PixelLUT (the record's xyz at a whole pixel,   *)
(* t = 0: tth, eta, k, sin^2(theta) of the lab vector xyz alone),          *)
(* calls that are alive at the same time (C01, harness/c01_alive.py): a     *)
(* record is a function of its OWN lattice point, so what a call returns    *)
(* may depend neither on a call another user has in flight (3-4 Python      *)
(* threads, each looping over its own configuration - other wedge / chi /   *)
(* omegasign / translation / flip - on tables of 1e5..3e5 rows through      *)
(* Ctransform, columnfile fast / slow and the raw kernels;                  *)
(* compute_geometry is `threadsafe` in _cImageD11.pyf: no GIL) nor on a     *)
(* later call (every history of two allocating calls by two users with      *)
(* tables of equal length: the first result is judged again after the       *)
(* second call and the two may not share memory).                           *)
(*                                                                         *)
(* INVARIANTS                                                              *)
(*   TypeOK                                                                *)
(*   StackOrtho   tilt stack, WI.CI and G orthogonal, det = +den^3          *)
(*   NormLaw      |G d|^2 = den^2 |d|^2 (formed where it fits 32 bits;      *)
(*                follows from StackOrtho everywhere) : |g| depends on d    *)
(*                only, not on omega / wedge / chi / omegasign              *)
(*   OmegaLaw     G(omega2) = Rz(omega2 - omega1)^T G(omega1) for all omega *)
(*                of the configuration's omega list                         *)
(*   OriginLaw    the grain origin is the lab image of t : G o = den^2 t    *)
(*   Roundtrip    Project returns s = 1 and the pixel (sc, fc) it started   *)
(*                from; for m = 1 the generating omega solves               *)
(*                a sin x + b cos x = c exactly and the vector is valid     *)
(*                (or the geometry is degenerate: a = b = c = 0, beam along *)
(*                the rotation axis - found by TLC, not anticipated)        *)
(*   EwaldBound   valid => |lambda g| <= 2                                  *)
(*   BraggLaw     (SpecInv) |lambda g|^2 = m^2 4 sin^2(theta) with the       *)
(*                half-angle form sin^2(theta) = (|d| - d_x) / (2 |d|),       *)
(*                rational because |d| is an integer: Bragg's law in exact   *)
(*                arithmetic on both sides of two-theta = 90 degrees, for    *)
(*                every wedge / chi / omega of INVANG; the record carries    *)
(*                sin^2(theta) as `ssq`                                      *)
(*   AxisLaw      (SpecAx) R is a rotation that fixes n; rot(n,-a) is its   *)
(*                inverse; matrix form = vector form of the docstring;      *)
(*                rot(+-z, a) = Rz(+-a); with axis -z and pre = I the       *)
(*                vector g is the pipeline's G k (G of RotateG at omega)    *)
(*   UnitLaw      (SpecFwd) the LENGTH UNIT is free: the configuration with  *)
(*                every length (z_size, y_size, distance, t_x, t_y, t_z)     *)
(*                multiplied by u (UnitList: 2, 10, 1000 = microns per mm,   *)
(*                1024; formed where the products fit 32 bits: the record    *)
(*                counts them as `unitlaw`) has xyz, o and d                 *)
(*                multiplied by u - hence the same d/|d|, two-theta, eta, k, *)
(*                g (G and lambda hold no length) - and Project gives the    *)
(*                same ray parameter and a detector-plane vector u times as  *)
(*                long, i.e. the same pixel.  Homogeneity of degree one, so  *)
(*                it composes: the harness replays every forward record in   *)
(*                the units u^-1 and u^-2 (mm and metres when the record is  *)
(*                read in microns; 2^-10, 2^-20) and expects the record's    *)
(*                angles, g-vectors and pixels, and u^-k times its lengths.  *)
(*                The staged pipeline is also compared with its closed form  *)
(*                (XyzOf, OrgOf) here.                                       *)
(*   Emit         prints one JSON record per terminal state                 *)
(***************************************************************************)
EXTENDS ExactLA, Json

CONSTANTS SWITCHSETS,   \* set of subsets of SwNames
          FLIPS,        \* subset of 1..8 (index into FlipList)
          SIGNS,        \* subset of {-1, 1}     omegasign
          SIZES,        \* set of <<z_size, y_size>>
          PEAKS,        \* subset of 1..Len(PeakList)
          OMEGAS,       \* subset of 1..4
          INVANG,       \* set of <<wedge, chi, omega>> angle triples for InitInv
          RAWANG,       \* set of <<wedge, chi>> for InitRaw
          QUADS,        \* subset of 1..Len(QuadList)
          SCALES,       \* set of <<sn, sd>> for InitRaw
          AXQUADS       \* subset of 1..Len(QuadList): the k-vectors of InitAx (its angle triples come from INVANG)

VARIABLES lat, cfg, stage, pix, xyz, org, d, G, out
vars == <<lat, cfg, stage, pix, xyz, org, d, G, out>>

\* ---------------------------------------------------------------------------------------
\* overflow-free exact comparisons
\* p/q vs r/s  (p, r >= 0 ; q, s > 0)  ->  -1, 0, 1   (Euclid: only \div and %)
RECURSIVE FracCmp(_, _, _, _)
FracCmp(p, q, r, s) ==
   LET ip == p \div q   ir == r \div s IN
   IF ip < ir THEN -1 ELSE IF ip > ir THEN 1
   ELSE LET rp == p % q   rr == r % s IN
        IF rp = 0 /\ rr = 0 THEN 0
        ELSE IF rp = 0 THEN -1 ELSE IF rr = 0 THEN 1
        ELSE FracCmp(s, rr, q, rp)
\* sign of c^2 - (a^2 + b^2) without forming a square
SqCmp(c, a, b) ==
   LET C == Abs(c)  A == Abs(a)  B == Abs(b) IN
   IF C <= A THEN (IF C = A /\ B = 0 THEN 0 ELSE -1)
   ELSE IF B = 0 THEN 1 ELSE FracCmp(C - A, B, B, C + A)
\* a*b = c*e without forming a product
MulEq(a, b, c, e) ==
   IF a = 0 \/ b = 0 THEN (c = 0 \/ e = 0)
   ELSE /\ c # 0 /\ e # 0 /\ Sgn(a) * Sgn(b) = Sgn(c) * Sgn(e)
        /\ FracCmp(Abs(a), Abs(e), Abs(c), Abs(b)) = 0
ASSUME \A c, a, b \in -5..5 : SqCmp(c, a, b) = Sgn(c*c - a*a - b*b)
ASSUME \A a, b, c, e \in -4..4 : MulEq(a, b, c, e) = (a*b = c*e)
ASSUME SqCmp(1000000007, 1000000007, 0) = 0 /\ SqCmp(1000000006, 1000000007, 1) = -1
       /\ SqCmp(5 * 100000000, 3 * 100000000, 4 * 100000000) = 0
       /\ SqCmp(5 * 100000000 + 1, 3 * 100000000, 4 * 100000000) = 1

\* ---------------------------------------------------------------------------------------
\* scaled vectors
GCD3(v) == GCD(GCD(Abs(v[1]), Abs(v[2])), Abs(v[3]))
Red(sv) == LET g == GCD(GCD3(sv[1]), sv[2]) IN
           IF g <= 1 THEN sv ELSE << << sv[1][1] \div g, sv[1][2] \div g, sv[1][3] \div g >>, sv[2] \div g >>
Zv == << <<0,0,0>>, 1 >>
Ex == <<1,0,0>>

\* ---------------------------------------------------------------------------------------
\* the configuration lattice
Switches == << "tilt_x", "tilt_y", "tilt_z", "wedge", "chi", "t_x", "t_y", "t_z" >>
SwNames  == { Switches[i] : i \in 1..8 }
AngleSw  == << "tilt_x", "tilt_y", "tilt_z", "wedge", "chi" >>
SwBit(S, i) == IF Switches[i] \in S THEN 1 ELSE 0
SwIdx(S) == SwBit(S,1) + 2*SwBit(S,2) + 4*SwBit(S,3) + 8*SwBit(S,4) + 16*SwBit(S,5)
            + 32*SwBit(S,6) + 64*SwBit(S,7) + 128*SwBit(S,8)

\* o11 o12 o21 o22 : the 8 signed 2x2 permutation matrices (1 = ImageD11's default)
FlipList == << <<1,0,0,-1>>, <<1,0,0,1>>, <<-1,0,0,1>>, <<-1,0,0,-1>>,
               <<0,1,1,0>>, <<0,1,-1,0>>, <<0,-1,1,0>>, <<0,-1,-1,0>> >>
\* peak positions (sc, fc) in thirds of a pixel (centroids are not integers; k/3 is not a binary32 number, so
\* single-precision temporaries are visible): the beam centre, an integer pixel, two fractional positions
PDEN     == 3
PeakList == << <<21,33>>, <<57,9>>, <<7,76>>, <<89,92>> >>
ZC == 7
YC == 11
\* distance classes: two ordinary forward set-ups, a back-scattering detector (distance < 0: every pixel of the untilted
\* detector has two-theta > 90 degrees) and a near-field detector (distance 2, smaller than the pixel offsets and than the
\* grain translations: tilted it reaches behind the sample, and a translated grain sits beyond it) - in the last two
\* classes the lab vectors with d_x < 0 (two-theta > 90 degrees) are the rule, not the exception
DistList == << 60, 70, -60, 2 >>
WLList   == << <<1,4>>, <<3,10>>, <<7,8>> >>                   \* wavelength num/den
TList    == << <<3,-4,5>>, <<-2,6,-1>>, <<3,6,-1>>, <<-2,-4,5>> >>
Py       == << << <<4,3,5>>, <<3,-4,5>> >>, << <<12,5,13>>, <<5,-12,13>> >>, << <<24,7,25>>, <<-7,24,25>> >> >>
RightNZ  == << <<0,1,1>>, <<-1,0,1>>, <<0,-1,1>> >>

SizeIdx(sz) == (IF sz[1] < 0 THEN 1 ELSE 0) + 2 * (IF sz[2] < 0 THEN 1 ELSE 0)
Salt(S, f, g, sz) == SwIdx(S) + 37 * (f - 1) + 101 * (IF g = 1 THEN 0 ELSE 1) + 211 * SizeIdx(sz)

\* Angle value of a switch: off -> 0.  The on switches (in the order of AngleSw) form a ring; `q`
\* consecutive ring positions starting at `rot` are Pythagorean, the rest are non-zero right angles.
\* omega owns denominator class omc; the (at most two) Pythagorean parameter angles take the two
\* other classes, so no denominator is repeated.
OnSeq(S) == SelectSeq(AngleSw, LAMBDA a : a \in S)
AngleOf(S, s, name) ==
   IF name \notin S THEN AngZero
   ELSE LET on   == OnSeq(S)
            m    == Len(on)
            j    == CHOOSE k \in 1..m : on[k] = name
            q    == (s \div 3) % 3
            slot == (j - 1 + (s \div 9)) % m
            omc  == s % 3
            swp  == (s \div 27) % 2
            cls  == IF slot = 0 THEN (omc + 1 + swp) % 3 ELSE (omc + 2 - swp) % 3
            var  == ((s \div 54) + slot) % 2
        IN IF slot < q /\ slot < 2 THEN Py[cls + 1][var + 1] ELSE RightNZ[((j + (s \div 5)) % 3) + 1]
OmegaOf(s, om) ==
   CASE om = 1 -> AngZero
     [] om = 2 -> RightNZ[(s % 3) + 1]
     [] om = 3 -> Py[(s % 3) + 1][1 + ((s \div 2) % 2)]
     [] om = 4 -> Py[(s % 3) + 1][2 - ((s \div 2) % 2)]

AngSigned(a, g) == IF g = 1 THEN a ELSE AngNeg(a)

FwdCfg(S, f, g, sz, pk, om) ==
   LET s  == Salt(S, f, g, sz)
       tl == TList[((s \div 11) % 4) + 1] IN
   [ mode |-> "fwd", salt |-> s,
     sw |-> [i \in 1..8 |-> SwBit(S, i)], flip |-> f, om |-> om, pk |-> pk,
     o |-> FlipList[f], sgn |-> g, zs |-> sz[1], ys |-> sz[2], zc |-> ZC, yc |-> YC,
     sc |-> PeakList[pk][1], fc |-> PeakList[pk][2],
     dist |-> DistList[((s \div 7) % 4) + 1], wl |-> WLList[((s \div 4) % 3) + 1],
     tilt_x |-> AngleOf(S, s, "tilt_x"), tilt_y |-> AngleOf(S, s, "tilt_y"), tilt_z |-> AngleOf(S, s, "tilt_z"),
     wedge |-> AngleOf(S, s, "wedge"), chi |-> AngleOf(S, s, "chi"),
     omega |-> OmegaOf(s, om),
     omegas |-> [k \in 1..4 |-> OmegaOf(s, k)],
     t |-> << IF "t_x" \in S THEN tl[1] ELSE 0, IF "t_y" \in S THEN tl[2] ELSE 0, IF "t_z" \in S THEN tl[3] ELSE 0 >>,
     q |-> 0, m |-> 1, scale |-> <<1,1>> ]

\* Pythagorean quadruples (and axis vectors): d = QuadList[q][1], |d| = QuadList[q][2]
QuadList == << << <<2,3,6>>, 7 >>,    << <<3,-6,2>>, 7 >>,   << <<-6,2,3>>, 7 >>,   << <<1,4,8>>, 9 >>,
               << <<4,-8,1>>, 9 >>,   << <<4,4,7>>, 9 >>,    << <<-7,4,-4>>, 9 >>,  << <<2,6,9>>, 11 >>,
               << <<6,-7,6>>, 11 >>,  << <<3,4,12>>, 13 >>,  << <<12,4,3>>, 13 >>,  << <<-12,3,-4>>, 13 >>,
               << <<1,2,2>>, 3 >>,    << <<2,-2,1>>, 3 >>,   << <<-2,1,2>>, 3 >>,   << <<0,3,4>>, 5 >>,
               << <<0,0,1>>, 1 >>,    << <<0,-1,0>>, 1 >>,   << <<-1,0,0>>, 1 >>,   << <<0,0,-1>>, 1 >> >>
ASSUME \A i \in 1..Len(QuadList) : Norm2(QuadList[i][1]) = QuadList[i][2] * QuadList[i][2]

BaseCfg == FwdCfg({}, 1, 1, <<2,3>>, 1, 1)
InvCfg(a, qi, mm) ==
   [ BaseCfg EXCEPT !.mode = "inv", !.wedge = a[1], !.chi = a[2], !.omega = a[3],
                    !.omegas = [k \in 1..4 |-> a[3]], !.q = qi, !.m = mm,
                    !.wl = WLList[(qi % 3) + 1], !.salt = qi ]
RawCfg(a, qi, sc) ==
   [ BaseCfg EXCEPT !.mode = "raw", !.wedge = a[1], !.chi = a[2], !.q = qi, !.scale = sc,
                    !.wl = WLList[(qi % 3) + 1], !.salt = qi ]

\* numerators formed by Uncompute stay below 2^30 :  4 m^2 np (|d| dg)^2 < 2^30
InvFits(a, qi, mm) == LET np == a[1][3] * a[2][3]
                          dg == QuadList[qi][2] * np * a[3][3]
                      IN dg < 32768 /\ dg * dg < 1073741824 \div (4 * mm * mm * np)
NPyth(a) == Cardinality({ i \in 1..3 : a[i][3] > 1 })
Dens(a)  == { a[i][3] : i \in { k \in 1..3 : a[k][3] > 1 } }
\* constant sets for the .cfg files (cfg syntax has no tuples)
SW_all     == SUBSET SwNames
SW_none    == { {} }
SIZES_all  == { <<2,3>>, <<-2,3>>, <<2,-3>>, <<-2,-3>> }
SIZES_pos  == { <<2,3>> }
SIGNS_all  == { -1, 1 }
SIGNS_pos  == { 1 }
\* at most two Pythagorean angles, different denominators (three would overflow the Ewald inequality)
INVANG_all == { a \in Ang \X Ang \X Ang : NPyth(a) <= 2 /\ Cardinality(Dens(a)) = NPyth(a) }
INVANG_q   == { a \in INVANG_all : NPyth(a) = 2 \/ (a[1] = AngZero /\ a[2] = AngZero) \/ a[3] = <<0,1,1>> }
RAWANG_all == { a \in Ang \X Ang : a[1][3] = 1 \/ a[2][3] = 1 \/ a[1][3] # a[2][3] }
RAWANG_q   == { a \in RAWANG_all : a[1] \in {AngZero, <<0,1,1>>, <<4,3,5>>, <<5,-12,13>>} /\
                                   a[2] \in {AngZero, <<0,-1,1>>, <<-7,24,25>>, <<3,-4,5>>} }
SCALES_all == { <<1,2>>, <<1,1>>, <<3,2>>, <<2,1>>, <<5,2>> }
\* angle triples <<wedge, chi, angle of the axis rotation>> of SpecAx (assigned to INVANG in Geometry_raw_*.cfg)
AXANG_all  == INVANG_all
AXANG_q    == { a \in INVANG_all : a[1] \in {AngZero, <<0,1,1>>, <<4,3,5>>} /\ a[2] \in {AngZero, <<-1,0,1>>, <<5,-12,13>>} }
NONE == {}

\* ---------------------------------------------------------------------------------------
\* axis / angle rotations (SpecAx).  An axis is <<N, nd>> with |N| = nd (unit vector N/nd).
AxisList == << << <<0,0,1>>, 1 >>,  << <<0,0,-1>>, 1 >>, << <<1,0,0>>, 1 >>, << <<0,-1,0>>, 1 >>,
               << <<2,3,6>>, 7 >>,  << <<-6,2,3>>, 7 >>, << <<1,-2,2>>, 3 >> >>
ASSUME \A i \in 1..Len(AxisList) : Norm2(AxisList[i][1]) = AxisList[i][2] * AxisList[i][2]
\* pre-rotations: identity, a quarter turn, a Pythagorean turn about z, a product of two right-angle turns
PreList  == << <<M2T(I3), 1>>, <<Rx(<<0,1,1>>), 1>>, <<Rz(<<3,-4,5>>), 5>>,
               <<M2T(MM(Ry(<<0,-1,1>>), Rz(<<-1,0,1>>))), 1>> >>
Hat(n) == << <<0, 0 - n[3], n[2]>>, <<n[3], 0, 0 - n[1]>>, <<0 - n[2], n[1], 0>> >>
\* matrix form, scaled by nd^2 a[3]
AxisRot(ax, a) ==
   LET N == ax[1]   nd == ax[2] IN
   << M2T(MAdd(MAdd(MScale(nd * nd * a[1], I3), MScale(nd * a[2], Hat(N))), MScale(a[3] - a[1], Outer(N, N)))),
      nd * nd * a[3] >>
\* vector form (the formula of the docstring), same scale
AxisRotVec(ax, a, p) ==
   LET N == ax[1]   nd == ax[2] IN
   VAdd(VAdd(VScale(nd * nd * a[1], p), VScale((a[3] - a[1]) * Dot(N, p), N)), VScale(nd * a[2], Cross(N, p)))

\* ---------------------------------------------------------------------------------------
\* matrices of a configuration (all scaled: <<rows, den>>)
TiltStack(c) == << M2T(MM(MM(Rx(c.tilt_x), Ry(c.tilt_y)), Rz(c.tilt_z))), c.tilt_x[3] * c.tilt_y[3] * c.tilt_z[3] >>
\* WI . CI : wedge is the outermost rotation (applied last to the translation)
WC(c)  == << M2T(MM(Ry(AngNeg(c.wedge)), Rx(c.chi))), c.wedge[3] * c.chi[3] >>
Oms(c) == AngSigned(c.omega, c.sgn)
LabOf(c, om) == LET W == WC(c) IN << M2T(MM(W[1], Rz(om))), W[2] * om[3] >>      \* sample -> lab at rotation om
GOf(c, om)   == LET L == LabOf(c, om) IN << M2T(Transpose(L[1])), L[2] >>       \* lab -> sample (g = G k)

\* closed forms of the stages (functions of the configuration alone: UnitLaw compares configurations)
XyzOf(c) == LET pv == << (c.sc - PDEN * c.zc) * c.zs, (c.fc - PDEN * c.yc) * c.ys >>
                fl == << c.o[1] * pv[1] + c.o[2] * pv[2], c.o[3] * pv[1] + c.o[4] * pv[2] >>
                T  == TiltStack(c)
                dn == T[2] * PDEN
            IN << VAdd(MV(T[1], <<0, fl[2], fl[1]>>), <<c.dist * dn, 0, 0>>), dn >>
OrgOf(c) == LET L == LabOf(c, Oms(c)) IN << MV(L[1], c.t), L[2] >>
DiffOf(x, o) == Red(<< VSub(VScale(o[2], x[1]), VScale(x[2], o[1])), x[2] * o[2] >>)
\* detector-plane vector (slow, fast; a length) of the lab point x, den R[2] * x[2]: inverse of Shift, Tilt, Flip
PlaneVecOf(c, x) ==
   LET R  == TiltStack(c)
       pl == MV(Transpose(R[1]), VSub(x[1], <<c.dist * x[2], 0, 0>>))
       fl == << pl[3], pl[2] >>
   IN << c.o[1] * fl[1] + c.o[3] * fl[2], c.o[2] * fl[1] + c.o[4] * fl[2] >>      \* inverse of a signed permutation = transpose
\* ray parameter s = n.(O - o) / n.d as <<numerator, denominator>> over the dens R[2] o[2], R[2] dd[2]
RayOf(c, o, dd) == LET R == TiltStack(c)   n == Col(R[1], 1)
                   IN << Dot(n, VSub(<<c.dist * o[2], 0, 0>>, o[1])), Dot(n, dd[1]) >>
\* the same set-up written in a length unit u times smaller (every length of the configuration times u)
UnitList == << 2, 10, 1000, 1024 >>
InUnit(c, u) == [ c EXCEPT !.zs = u * c.zs, !.ys = u * c.ys, !.dist = u * c.dist, !.t = VScale(u, c.t) ]

\* ---------------------------------------------------------------------------------------
InitCommon == /\ pix = <<0,0>> /\ xyz = Zv /\ org = Zv /\ d = Zv
              /\ G = <<M2T(I3), 1>> /\ out = [none |-> 0]
\* The forward machine picks its lattice point in three small steps (so that `tlc -simulate` draws a
\* configuration with a few hundred cheap successor states instead of enumerating 262144 initial states).
InitFwd == /\ lat = <<>> /\ cfg = BaseCfg /\ stage = "pick" /\ InitCommon
PickSwitches == /\ stage = "pick" /\ Len(lat) = 0
                /\ \E S \in SWITCHSETS : lat' = << S >>
                /\ UNCHANGED <<cfg, stage, pix, xyz, org, d, G, out>>
PickDetector == /\ stage = "pick" /\ Len(lat) = 1
                /\ \E f \in FLIPS, g \in SIGNS, sz \in SIZES : lat' = << lat[1], f, g, sz >>
                /\ UNCHANGED <<cfg, stage, pix, xyz, org, d, G, out>>
PickPeak == /\ stage = "pick" /\ Len(lat) = 4
            /\ \E pk \in PEAKS, om \in OMEGAS : cfg' = FwdCfg(lat[1], lat[2], lat[3], lat[4], pk, om)
            /\ stage' = "start" /\ UNCHANGED <<lat, pix, xyz, org, d, G, out>>
\* inverse machines enter the pipeline after Shift (the lab vector is given, t = 0)
InitInv == /\ \E a \in INVANG, qi \in QUADS, mm \in {1, 2} :
                 /\ InvFits(a, qi, mm) /\ QuadList[qi][1] # <<QuadList[qi][2], 0, 0>>
                 /\ cfg = InvCfg(a, qi, mm)
                 /\ xyz = << QuadList[qi][1], 1 >>
           /\ lat = <<>> /\ stage = "shifted" /\ pix = <<0,0>> /\ org = Zv /\ d = Zv /\ G = <<M2T(I3), 1>> /\ out = [none |-> 0]
InitRaw == /\ \E a \in RAWANG, qi \in QUADS, sc \in SCALES :
                 /\ cfg = RawCfg(<<a[1], a[2], AngZero>>, qi, sc)
                 /\ G = GOf(cfg, AngZero)
           /\ lat = <<>> /\ stage = "rotated" /\ pix = <<0,0>> /\ xyz = Zv /\ org = Zv /\ d = Zv /\ out = [none |-> 0]

\* the axis machine: configuration = angle triple x quadruple x axis x pre-rotation
AxCfg(a, qi) ==
   [ BaseCfg EXCEPT !.mode = "ax", !.wedge = a[1], !.chi = a[2], !.omega = a[3],
                    !.omegas = [k \in 1..4 |-> a[3]], !.q = qi, !.wl = WLList[(qi % 3) + 1], !.salt = qi ]
InitAx == /\ \E a \in INVANG, qi \in AXQUADS, ai \in 1..Len(AxisList), pi \in 1..Len(PreList) :
                /\ cfg = AxCfg(a, qi)
                /\ lat = << ai, pi >>
          /\ stage = "axis" /\ InitCommon

\* ---------------------------------------------------------------------------------------
\* the pipeline, one action per documented stage
Place == /\ stage = "start" /\ cfg.mode = "fwd"
         /\ pix' = << (cfg.sc - PDEN * cfg.zc) * cfg.zs, (cfg.fc - PDEN * cfg.yc) * cfg.ys >>     \* den PDEN
         /\ stage' = "placed" /\ UNCHANGED <<lat, cfg, xyz, org, d, G, out>>

Flip == /\ stage = "placed"
        /\ LET fl == << cfg.o[1] * pix[1] + cfg.o[2] * pix[2], cfg.o[3] * pix[1] + cfg.o[4] * pix[2] >>
           IN xyz' = << <<0, fl[2], fl[1]>>, PDEN >>
        /\ stage' = "flipped" /\ UNCHANGED <<lat, cfg, pix, org, d, G, out>>

Tilt == /\ stage = "flipped"
        /\ xyz' = << MV(TiltStack(cfg)[1], xyz[1]), TiltStack(cfg)[2] * xyz[2] >>
        /\ stage' = "tilted" /\ UNCHANGED <<lat, cfg, pix, org, d, G, out>>

Shift == /\ stage = "tilted"
         /\ xyz' = << VAdd(xyz[1], <<cfg.dist * xyz[2], 0, 0>>), xyz[2] >>
         /\ stage' = "shifted" /\ UNCHANGED <<lat, cfg, pix, org, d, G, out>>

Origin == /\ stage = "shifted"
          /\ LET L == LabOf(cfg, Oms(cfg)) IN org' = << MV(L[1], cfg.t), L[2] >>
          /\ stage' = "origin" /\ UNCHANGED <<lat, cfg, pix, xyz, d, G, out>>

Diff == /\ stage = "origin"
        /\ d' = Red(<< VSub(VScale(org[2], xyz[1]), VScale(xyz[2], org[1])), xyz[2] * org[2] >>)
        /\ stage' = "diffed" /\ UNCHANGED <<lat, cfg, pix, xyz, org, G, out>>

RotateG == /\ stage = "diffed"
           /\ G' = GOf(cfg, Oms(cfg))
           /\ out' = [ A  |-> << MV(G'[1], d[1]), G'[2] * d[2] >>,
                       Bx |-> << MV(G'[1], Ex), G'[2] >> ]
           /\ stage' = "rotated" /\ UNCHANGED <<lat, cfg, pix, xyz, org, d>>

\* ray / detector-plane intersection and inversion of Shift, Tilt, Flip, Place
Project == /\ stage = "rotated" /\ cfg.mode = "fwd"
           /\ LET R   == TiltStack(cfg)
                  \* s = n.(O - o) / n.d   with n = R e_x, O = dist e_x; left symbolic: the harness sees num, nd and dens
                  ray == RayOf(cfg, org, d)
                  \* hit point p = o + s d = xyz (s = 1), taken back to the detector plane
                  v   == PlaneVecOf(cfg, xyz)
              IN out' = [ A |-> out.A, Bx |-> out.Bx,
                          snum |-> ray[1], sden |-> ray[2], snd |-> <<R[2] * org[2], R[2] * d[2]>>,
                          pixnum |-> v, pixden |-> R[2] * xyz[2] ]
           /\ stage' = "projected" /\ UNCHANGED <<lat, cfg, pix, xyz, org, d, G>>

\* lambda g  as a reduced scaled vector
Gamma == IF cfg.mode = "raw"
         THEN Red(<< VScale(cfg.scale[1], QuadList[cfg.q][1]), cfg.scale[2] * QuadList[cfg.q][2] >>)
         ELSE LET nq == QuadList[cfg.q][2]
                  \* A/|d| - Bx  over the common denominator nq * den(A); den(A) = den(Bx) * d[2]
              IN Red(<< VScale(cfg.m, VSub(out.A[1], VScale(nq * d[2], out.Bx[1]))), nq * out.A[2] >>)

Uncompute == /\ stage = "rotated" /\ cfg.mode \in {"inv", "raw"}
             /\ LET gm == Gamma
                    N  == gm[1]
                    D  == gm[2]
                    W  == WC(cfg)
                    r  == W[1][1]                     \* first row of WI.CI, den np
                    np == W[2]
                    \* a, b, c over the common denominator 2 np D^2
                    al == r[2] * N[1] - r[1] * N[2]
                    be == r[1] * N[1] + r[2] * N[2]
                    an == 2 * D * al
                    bn == 2 * D * be
                    cn == 0 - np * Norm2(N) - 2 * D * r[3] * N[3]
                    cmp == SqCmp(cn, an, bn)
                IN out' = [ gam |-> gm, al |-> al, be |-> be, an |-> an, bn |-> bn, cn |-> cn,
                            nonzero |-> (an # 0 \/ bn # 0),
                            valid |-> ((an # 0 \/ bn # 0) /\ cmp <= 0),
                            tangent |-> ((an # 0 \/ bn # 0) /\ cmp = 0),
                            degenerate |-> (an = 0 /\ bn = 0 /\ cn = 0) ]
             /\ stage' = "uncomputed" /\ UNCHANGED <<lat, cfg, pix, xyz, org, d, G>>

\* g = pre . rot(axis, angle) . post . k   (all numerators stay below 2^25: den <= 13 * 325 * 49*25 * 5)
RotateAx == /\ stage = "axis"
            /\ LET ax   == AxisList[lat[1]]
                   pre  == PreList[lat[2]]
                   R    == AxisRot(ax, cfg.omega)
                   W    == WC(cfg)
                   post == << M2T(Transpose(W[1])), W[2] >>          \* chiwedge = Rx(-chi).Ry(wedge) = (WI.CI)^T
                   nq   == QuadList[cfg.q][2]
                   lk   == VSub(QuadList[cfg.q][1], <<nq, 0, 0>>)    \* lambda k = d/|d| - e_x , den nq
                   pk   == MV(post[1], lk)
                   rpk  == MV(R[1], pk)
                   gg   == MV(pre[1], rpk)
               IN out' = [ R |-> R, Rinv |-> AxisRot(ax, AngNeg(cfg.omega)),
                           lk |-> << lk, nq >>, pk |-> << pk, nq * post[2] >>,
                           rpk |-> << rpk, nq * post[2] * R[2] >>,
                           rpkvec |-> AxisRotVec(ax, cfg.omega, pk),
                           g |-> << gg, nq * post[2] * R[2] * pre[2] >> ]
            /\ stage' = "axrotated" /\ UNCHANGED <<lat, cfg, pix, xyz, org, d, G>>

Next == PickSwitches \/ PickDetector \/ PickPeak \/ Place \/ Flip \/ Tilt \/ Shift \/ Origin \/ Diff \/ RotateG \/ Project \/ Uncompute
        \/ RotateAx
SpecFwd == InitFwd /\ [][Next]_vars
SpecAx  == InitAx /\ [][Next]_vars
\* the raw-vector machine and the axis machine share no state and no action: one TLC run checks both (Geometry_raw_*.cfg)
SpecRawAx == (InitRaw \/ InitAx) /\ [][Next]_vars
SpecInv == InitInv /\ [][Next]_vars
SpecRaw == InitRaw /\ [][Next]_vars

\* ---------------------------------------------------------------------------------------
\* laws
\* orthogonal with det = +den^3 : for M M^T = n^2 I, det M = +n^3 <=> row1 x row2 = n row3 (no cube is formed)
IsRot(sm) == IsOrthoScaled(sm[1], sm[2]) /\ Cross(sm[1][1], sm[1][2]) = VScale(sm[2], sm[1][3])
ASSUME \A a \in Ang : IsRot(<<Rz(a), a[3]>>) /\ ~IsRot(<<M2T(MScale(-1, Rz(a))), a[3]>>) /\ Det(Ry(a)) = a[3] * a[3] * a[3]
IsSVec(sv) == sv[2] > 0 /\ \A i \in 1..3 : sv[1][i] \in Int
TypeOK == /\ stage \in {"pick", "start", "placed", "flipped", "tilted", "shifted", "origin", "diffed", "rotated",
                        "projected", "uncomputed", "axis", "axrotated"}
          /\ IsSVec(xyz) /\ IsSVec(org) /\ IsSVec(d) /\ G[2] > 0
          /\ cfg.mode \in {"fwd", "inv", "raw", "ax"}
          /\ \A a \in {cfg.tilt_x, cfg.tilt_y, cfg.tilt_z, cfg.wedge, cfg.chi, cfg.omega} : a \in Ang
          /\ 1625 % (cfg.tilt_x[3] * cfg.tilt_y[3] * cfg.tilt_z[3] * cfg.wedge[3] * cfg.chi[3] * cfg.omega[3]) = 0

\* the stacks depend on cfg only: checked where a machine starts (and at Shift), G where it is formed
StackOrtho == /\ (stage \in {"start", "shifted"}) =>
                    IsRot(TiltStack(cfg)) /\ IsRot(WC(cfg)) /\ IsRot(LabOf(cfg, Oms(cfg)))
              /\ (stage = "rotated") => IsRot(G)

Small(v, b) == \A i \in 1..3 : Abs(v[i]) < b
NormFits == Small(out.A[1], 26000) /\ Small(d[1], 26000) /\ G[2] < 1700
           /\ Norm2(d[1]) < 2147483647 \div (G[2] * G[2])
NormLaw == (stage \in {"rotated", "projected"} /\ cfg.mode # "raw" /\ NormFits)
              => Norm2(out.A[1]) = G[2] * G[2] * Norm2(d[1])

\* G of the state's omega against G of every omega of the configuration's list
OmegaLaw == (stage = "rotated" /\ cfg.mode = "fwd") =>
   \A k2 \in 1..4 :
      LET a1 == Oms(cfg)
          a2 == AngSigned(cfg.omegas[k2], cfg.sgn)
          dl == AngAdd(a2, AngNeg(a1))                   \* omega2 - omega1, den n1 n2
      IN M2T(MM(Transpose(Rz(dl)), G[1])) = M2T(MScale(a1[3] * a1[3], GOf(cfg, a2)[1]))

OriginLaw == stage \in {"origin", "diffed"} =>
   LET Gm == GOf(cfg, Oms(cfg)) IN MV(Gm[1], org[1]) = VScale(Gm[2] * Gm[2], cfg.t)

Roundtrip ==
   /\ stage = "projected" =>
        /\ out.sden # 0 => MulEq(out.snum, out.snd[2], out.sden, out.snd[1])       \* s = 1
        /\ PDEN * out.pixnum[1] = out.pixden * (cfg.sc - PDEN * cfg.zc) * cfg.zs
        /\ PDEN * out.pixnum[2] = out.pixden * (cfg.fc - PDEN * cfg.yc) * cfg.ys
   /\ (stage = "uncomputed" /\ cfg.mode = "inv" /\ cfg.m = 1) =>
        LET o == Oms(cfg)
            l == out.al * o[2] + out.be * o[1]        \* a sin x + b cos x = c  <=>  2 D l = cn n_omega
        \* degenerate: beam along the rotation axis (wedge = +-90, chi in {0,180}) or g on the axis and on the
        \* sphere: a = b = c = 0, every omega solves the equation and no omega can be singled out
        IN /\ out.valid \/ out.degenerate
           /\ MulEq(2 * out.gam[2], l, out.cn, o[3])

EwaldBound == (stage = "uncomputed" /\ out.valid) =>
                 Norm2(out.gam[1]) <= 4 * out.gam[2] * out.gam[2]

\* Bragg: |lambda g|^2 = 4 m^2 sin^2(theta),  sin^2(theta) = (|d| - d_x)/(2 |d|)   (no product is formed: MulEq)
SinSq(qi) == << QuadList[qi][2] - QuadList[qi][1][1], 2 * QuadList[qi][2] >>
BraggLaw == (stage = "uncomputed" /\ cfg.mode = "inv") =>
   LET ss == SinSq(cfg.q)
   IN /\ 0 <= ss[1] /\ ss[1] <= ss[2]
      /\ MulEq(Norm2(out.gam[1]), ss[2], 4 * cfg.m * cfg.m * ss[1], out.gam[2] * out.gam[2])

\* the length unit is free (homogeneity of degree one in the lengths).  Formed where every product stays below 2^31
\* (the largest one is n . d(u) <= 1581 u T^2 L with T, L the denominators of the tilt stack and of WI.CI.Rz(omega))
UnitFits(u) == LET T == TiltStack(cfg)[2]   L == LabOf(cfg, Oms(cfg))[2]
               IN T * T * L < (2147483647 \div 1581) \div u
UnitLawAt(u) ==
   LET cu == InUnit(cfg, u)
       xu == XyzOf(cu)
       ou == OrgOf(cu)
       du == DiffOf(xu, ou)
       ru == RayOf(cu, ou, du)
       vu == PlaneVecOf(cu, xu)
   IN /\ xu = << VScale(u, xyz[1]), xyz[2] >>
      /\ ou = << VScale(u, org[1]), org[2] >>
      /\ \A k \in 1..3 : MulEq(d[2], du[1][k], u * du[2], d[1][k])              \* d(u) = u d  (both reduced)
      \* the same ray parameter (a ratio of two lengths): s(u) = 1, and n.d(u) = 0 exactly where n.d = 0
      /\ (out.sden = 0) = (ru[2] = 0)
      /\ out.sden # 0 => MulEq(ru[1], du[2], ru[2], ou[2])
      /\ vu = << u * out.pixnum[1], u * out.pixnum[2] >>                         \* same pixel: v(u) / (u z_size)
UnitLaw == (stage = "projected" /\ cfg.mode = "fwd") =>
   /\ xyz = XyzOf(cfg) /\ org = OrgOf(cfg) /\ d = DiffOf(xyz, org)              \* stages = closed form
   /\ out.pixnum = PlaneVecOf(cfg, xyz)
   /\ \A i \in 1..Len(UnitList) : UnitFits(UnitList[i]) => UnitLawAt(UnitList[i])
UnitsFormed == Cardinality({ i \in 1..Len(UnitList) : UnitFits(UnitList[i]) })

AxisLaw == (stage = "axrotated") =>
   LET ax == AxisList[lat[1]]
       R  == out.R
       n2 == R[2] * R[2]
   IN /\ IsRot(R) /\ IsRot(out.Rinv)
      /\ MV(R[1], ax[1]) = VScale(R[2], ax[1])                              \* the axis is fixed
      /\ M2T(MM(R[1], out.Rinv[1])) = M2T(MScale(n2, I3))                   \* rot(n, -a) is the inverse
      /\ out.Rinv[1] = M2T(Transpose(R[1]))
      /\ out.rpk[1] = out.rpkvec                                            \* matrix form = documented vector form
      /\ (ax[1] = <<0,0,1>>)  => R[1] = Rz(cfg.omega)
      /\ (ax[1] = <<0,0,-1>>) => R[1] = Rz(AngNeg(cfg.omega))
      \* axis -z, no pre-rotation: the conventions of the pipeline (RotateG), g = G k
      /\ (ax[1] = <<0,0,-1>> /\ lat[2] = 1) =>
            LET Gm == GOf(cfg, cfg.omega) IN /\ Gm[2] * out.lk[2] = out.g[2]
                                             /\ MV(Gm[1], out.lk[1]) = out.g[1]

\* ---------------------------------------------------------------------------------------
B2I(b) == IF b THEN 1 ELSE 0
ParJson == [ salt |-> cfg.salt, sw |-> cfg.sw, flip |-> cfg.flip, om |-> cfg.om, pk |-> cfg.pk, o |-> cfg.o,
             sgn |-> cfg.sgn, zs |-> cfg.zs, ys |-> cfg.ys, zc |-> cfg.zc, yc |-> cfg.yc, sc |-> cfg.sc, fc |-> cfg.fc, pden |-> PDEN,
             dist |-> cfg.dist, wl |-> cfg.wl, tilt_x |-> cfg.tilt_x, tilt_y |-> cfg.tilt_y, tilt_z |-> cfg.tilt_z,
             wedge |-> cfg.wedge, chi |-> cfg.chi, omega |-> cfg.omega, t |-> cfg.t ]
Emit ==
   /\ stage = "projected" =>
        PrintT("@@" \o ToJson([ mode |-> "fwd", par |-> ParJson, xyz |-> xyz, org |-> org, d |-> d,
                                G |-> G, A |-> out.A, Bx |-> out.Bx,
                                snum |-> out.snum, sden |-> out.sden, snd |-> out.snd,
                                normlaw |-> B2I(NormFits), units |-> UnitList, unitlaw |-> UnitsFormed ]))
   /\ stage = "axrotated" =>
        PrintT("@@" \o ToJson([ mode |-> "ax", par |-> ParJson, q |-> cfg.q, nq |-> QuadList[cfg.q][2],
                                axis |-> AxisList[lat[1]], ai |-> lat[1], pre |-> PreList[lat[2]], pi |-> lat[2],
                                R |-> out.R, Rinv |-> out.Rinv, lk |-> out.lk, pk |-> out.pk, rpk |-> out.rpk,
                                g |-> out.g, wc1 |-> << WC(cfg)[1][1], WC(cfg)[2] >> ]))
   /\ stage = "uncomputed" =>
        PrintT("@@" \o ToJson([ mode |-> cfg.mode, par |-> ParJson, q |-> cfg.q, m |-> cfg.m, scale |-> cfg.scale,
                                d |-> d, nq |-> QuadList[cfg.q][2], ssq |-> SinSq(cfg.q), gam |-> out.gam,
                                an |-> out.an, bn |-> out.bn, cn |-> out.cn, np |-> WC(cfg)[2],
                                valid |-> B2I(out.valid), tangent |-> B2I(out.tangent),
                                degenerate |-> B2I(out.degenerate), nonzero |-> B2I(out.nonzero) ]))
=============================================================================

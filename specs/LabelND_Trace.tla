---------------------------- MODULE LabelND_Trace ----------------------------
(***************************************************************************)
(* Trace validation (mode C) for property C15: behaviours recorded from    *)
(* the REAL ImageD11.sinograms.properties.find_ND_labels (the harness      *)
(* wraps the module-level numbalabelNd / get_clean_labels and logs, per    *)
(* call, the arguments and a snapshot of the shared label array) are       *)
(* checked to be behaviours of LabelND at sweep granularity.               *)
(*                                                                         *)
(* The state is LabelND's state (g, pkid, pk0, flip, nbad, phase, nlab);   *)
(* one logged sweep = one TraceSweep step, justified by LabelND's          *)
(* invariants SweepLegal (every schedule) and SeqExact (one thread):       *)
(*   threads = 1 : <<pk, nbad>> = SeqSweep(pkid, logged flip)   ("ok")     *)
(*                 or at least a legal sweep                    ("ok-legal")*)
(*   threads > 1 : LegalSweepClause(pkid, pk, nbad) = "ok"                 *)
(* and one logged get_clean_labels call = TraceClean, enabled only at the  *)
(* fixpoint (last sweep returned 0, labels = component minima), result =   *)
(* rank of the component minimum, count = number of components.            *)
(*                                                                         *)
(* Input: ndjson file IOEnv.TRACE_FILE, one trace per line:                *)
(*   {"tid":..,"threads":T,"n":..,"ne":..,"ei":[..],"ej":[..],             *)
(*    "sweeps":[{"flip":f,"nbad":b,"pk":[..]},..],"nlabel":..,"labels":[..]}*)
(* Output: one line  @@{"tid":..,"verdict":"accept"|"reject",              *)
(*   "clause":..,"at":<event index>,"exact":<#sweeps equal to SeqSweep>}   *)
(* per trace; Next is deterministic (run with -workers 1).                 *)
(***************************************************************************)
EXTENDS LabelND, IOUtils

VARIABLES tr,      \* index of the current trace (1-based); NT+1 when finished
          l,       \* number of sweep events of the current trace consumed
          exact    \* number of consumed sweeps that equalled SeqSweep

tvars == <<vars, tr, l, exact>>

Traces == ndJsonDeserialize(IOEnv.TRACE_FILE)
NT == Len(Traces)

FromSeq(s) == [v \in 0..(Len(s) - 1) |-> s[v + 1]]

Load(k) ==
    LET t == Traces[k]
        ei == FromSeq(t.ei)
        ej == FromSeq(t.ej) IN
    [n |-> t.n, ne |-> t.ne, ei |-> ei, ej |-> ej, cmin |-> CMinOf(t.n, t.ne, ei, ej)]

WellFormed(k) ==
    LET t == Traces[k] IN
    /\ t.n >= 1 /\ Len(t.ei) = t.ne /\ Len(t.ej) = t.ne
    /\ \A e \in 1..t.ne : t.ei[e] \in 0..t.n-1 /\ t.ej[e] \in 0..t.n-1
    /\ \A s \in 1..Len(t.sweeps) : Len(t.sweeps[s].pk) = t.n
    /\ Len(t.labels) = t.n

Verdict(v, clause, at) ==
    PrintT("@@" \o ToJson([tid |-> Traces[tr].tid, verdict |-> v, clause |-> clause,
                           at |-> at, exact |-> exact]))

\* start trace k (or finish)
Start(k) ==
    /\ tr' = k
    /\ l' = 0
    /\ exact' = 0
    /\ IF k <= NT /\ WellFormed(k)
       THEN /\ g' = Load(k)
            /\ pkid' = IdMap(Traces[k].n)
            /\ pk0' = IdMap(Traces[k].n)
       ELSE /\ g' = [n |-> 1, ne |-> 0, ei |-> <<>>, ej |-> <<>>, cmin |-> IdMap(1)]
            /\ pkid' = IdMap(1)
            /\ pk0' = IdMap(1)
    /\ flip' = 0 /\ nbad' = 0 /\ phase' = "sweep" /\ nlab' = 0
    /\ UNCHANGED <<owner, todo, th, ci, out, post, ds>>

TInit ==
    /\ tr = 0 /\ l = 0 /\ exact = 0
    /\ g = [n |-> 1, ne |-> 0, ei |-> <<>>, ej |-> <<>>, cmin |-> IdMap(1)]
    /\ pkid = IdMap(1) /\ pk0 = IdMap(1)
    /\ owner = <<>> /\ todo = {} /\ th = [t \in Threads |-> Idle]
    /\ flip = 0 /\ nbad = 0 /\ phase = "sweep" /\ ci = 0 /\ nlab = 0 /\ out = <<>>
    /\ post = [hist |-> <<>>, rc |-> TRUE]
    /\ ds = DsInit0

Cur == Traces[tr]
NS == Len(Cur.sweeps)

\* why the next logged sweep is not a sweep of the model ("ok" / "ok-legal" if it is)
SweepClause ==
    LET ev == Cur.sweeps[l + 1]
        b == FromSeq(ev.pk)
        seq == SeqSweep(g.ne, g.ei, g.ej, pkid, ev.flip) IN
    IF ~(ev.flip \in {0, 1}) THEN "flip-range"
    ELSE IF Cur.threads = 1 /\ <<b, ev.nbad>> = seq THEN "ok"
    ELSE LET c == LegalSweepClause(g.n, g.ne, g.cmin, pkid, b, ev.nbad) IN
         IF c = "ok" THEN "ok-legal" ELSE c

\* why the logged get_clean_labels call is not the model's ("ok" if it is)
CleanClause ==
    LET lab == FromSeq(Cur.labels) IN
    IF NS = 0 THEN "no-sweep"
    ELSE IF nbad # 0 THEN "clean-before-a-sweep-returned-0"
    ELSE IF pkid # g.cmin THEN "not-at-fixpoint"
    ELSE IF Cur.nlabel # Cardinality(Roots) THEN "nlabel"
    ELSE IF ~(\A v \in Nodes : lab[v] \in 0..(Cur.nlabel - 1)) THEN "label-range"
    ELSE IF ~(\A u, v \in Nodes : (lab[u] = lab[v]) <=> (g.cmin[u] = g.cmin[v])) THEN "partition"
    ELSE IF ~(\A v \in Nodes : lab[v] = Rank(g.cmin[v])) THEN "ok-renumbered"
    ELSE "ok"

\* IsEvent(sweep) /\ bind logged fields /\ the model's sweep-level step
TraceSweep ==
    /\ tr \in 1..NT /\ WellFormed(tr) /\ phase = "sweep" /\ l < NS
    /\ LET c == SweepClause
           ev == Cur.sweeps[l + 1] IN
       IF c \in {"ok", "ok-legal"}
       THEN /\ pk0' = pkid
            /\ pkid' = FromSeq(ev.pk)
            /\ nbad' = ev.nbad
            /\ flip' = ev.flip
            /\ l' = l + 1
            /\ exact' = exact + (IF c = "ok" THEN 1 ELSE 0)
            /\ UNCHANGED <<g, owner, todo, th, phase, ci, nlab, out, post, ds, tr>>
       ELSE /\ Verdict("reject", c, l + 1)
            /\ Start(tr + 1)

TraceClean ==
    /\ tr \in 1..NT /\ WellFormed(tr) /\ phase = "sweep" /\ l = NS
    /\ LET c == CleanClause IN
       /\ Verdict(IF c \in {"ok", "ok-renumbered"} THEN "accept" ELSE "reject", c, l + 1)
       /\ Start(tr + 1)

Malformed ==
    /\ tr \in 1..NT /\ ~WellFormed(tr)
    /\ Verdict("reject", "malformed", 0)
    /\ Start(tr + 1)

Begin == tr = 0 /\ Start(1)

TNext == Begin \/ TraceSweep \/ TraceClean \/ Malformed

TSpec == TInit /\ [][TNext]_tvars

\* every consumed prefix is a behaviour prefix of LabelND at sweep boundaries
TraceInv == (tr \in 1..NT /\ WellFormed(tr)) => (InComp /\ MinFixed)

AllConsumed == tr = NT + 1
=============================================================================

----------------------------- MODULE TraceSimplex -----------------------------
(***************************************************************************)
(* Extension check X05, binding direction code -> specification.           *)
(* Real runs of ImageD11.simplex.Simplex (simplex.py 52-275) on FLOAT      *)
(* objectives (Rosenbrock 2-6 D, Himmelblau, Powell, |x|^1.5, a quantised  *)
(* and a rippled bowl, the file's own example) are recorded by the harness *)
(* (harness/x05_lib.py: testfunc wrapped, helper methods wrapped on the    *)
(* instance, the monitor argument used as per-pass hook) and validated     *)
(* step by step against the loop-body actions, GIVEN the logged function   *)
(* values.  The decisions of the loop body depend on the stored values     *)
(* only through comparisons, so every float value of a run is logged as    *)
(* its dense rank (order and equality preserving) and every point as an id *)
(* (equal coordinates <=> equal id).  The guards are those of              *)
(* SimplexRules.tla, the same operators Simplex.tla uses.                  *)
(*                                                                         *)
(* One line of TRACE_FILE = one run:                                       *)
(*   id n maxit x0 (id of the guess), init.p init.v (the n+1 evaluations   *)
(*   of __init__), passes[] one per monitor test: hi lo sh E[] P[] as the  *)
(*   real object held them, conv (the pass broke out), convx (the stopping *)
(*   rule T <= epsilon decided exactly with fractions on the stored floats *)
(*   by the harness), calls[] (helper methods in call order), ev[] (the    *)
(*   <<point id, value rank>> of each testfunc call of the pass);          *)
(*   fin.E fin.P (after minimize), ret.p ret.v ret.it (the returned        *)
(*   triple), ret.fv (value logged for the returned point), nev.           *)
(*                                                                         *)
(* Variables: t (run), p (next pass), pcx, E P (stored values / vertex     *)
(* ids as the specification computes them from the evaluation log), cur,   *)
(* hi lo sh, steps, nev (evaluations consumed), minprev, exit, why.        *)
(* Actions: TRank TConverge TExhaust TReflectAccept TReflectReject TKeep   *)
(* TExpandAccept TExpandReject TContractAccept TMultiContract TFinish.     *)
(* Laws evaluated on every step (a failing one becomes the verdict's why): *)
(*   stored values and vertices = what the evaluation log implies          *)
(*   (NoStaleErrors), RankLaw on the logged indices, the best value never  *)
(*   increases, the branch taken is the one the guards select and it       *)
(*   calls exactly the helper methods of that branch, the number of        *)
(*   evaluations is within budget, the break happens iff the exact         *)
(*   stopping rule holds, the pass count respects maxiters, IterMeaning;   *)
(* and in the verdict, separately: best (ReturnIsBest), value              *)
(* (ReturnIsVertexValue), asis (the returned pair is the one the model of  *)
(* the code as it is predicts: vertex `lowest` of the last ranking).       *)
(***************************************************************************)
EXTENDS SimplexRules, TLC, Json, IOUtils

Trace == ndJsonDeserialize(IOEnv.TRACE_FILE)

VARIABLES t, p, pcx, E, P, cur, hi, lo, sh, steps, nev, minprev, exit, why
vars == <<t, p, pcx, E, P, cur, hi, lo, sh, steps, nev, minprev, exit, why>>

Rec == Trace[t]
N == Rec.n
Pass == Rec.passes[p]
Fn0(s) == [v \in 0..(Len(s) - 1) |-> s[v + 1]]
Sq(f, n) == [i \in 1..(n + 1) |-> f[i - 1]]
Others(n, l) == SelectSeq([k \in 1..(n + 1) |-> k - 1], LAMBDA v : v # l)

Start(r) == /\ p' = 1 /\ pcx' = "top" /\ steps' = 0 /\ exit' = "none"
            /\ hi' = -1 /\ lo' = -1 /\ sh' = -1
            /\ IF Len(r.init.v) = r.n + 1 /\ Len(r.init.p) = r.n + 1
               THEN /\ E' = Fn0(r.init.v) /\ P' = Fn0(r.init.p) /\ cur' = r.init.v[r.n + 1]
                    /\ minprev' = MinOf(Fn0(r.init.v), r.n) /\ nev' = r.n + 1 /\ why' = "ok"
               ELSE /\ E' = <<>> /\ P' = <<>> /\ cur' = 0 /\ minprev' = 0 /\ nev' = 0
                    /\ why' = "__init__ did not evaluate the n+1 vertices"

Init == /\ t = 1 /\ p = 1 /\ pcx = "top" /\ steps = 0 /\ exit = "none" /\ hi = -1 /\ lo = -1 /\ sh = -1
        /\ IF Len(Trace) > 0
           THEN /\ E = Fn0(Trace[1].init.v) /\ P = Fn0(Trace[1].init.p) /\ cur = Trace[1].init.v[Trace[1].n + 1]
                /\ minprev = MinOf(Fn0(Trace[1].init.v), Trace[1].n) /\ nev = Trace[1].n + 1
           ELSE /\ E = <<>> /\ P = <<>> /\ cur = 0 /\ minprev = 0 /\ nev = 0
        /\ why = "ok"

Live == t <= Len(Trace) /\ why = "ok"
HavePass == p <= Len(Rec.passes)

TExhaust == /\ Live /\ pcx = "top" /\ steps >= Rec.maxit
            /\ why' = IF HavePass THEN "more passes than maxiters" ELSE "ok"
            /\ pcx' = "ret" /\ exit' = "maxit"
            /\ UNCHANGED <<t, p, E, P, cur, hi, lo, sh, steps, nev, minprev>>

TRank == /\ Live /\ pcx = "top" /\ steps < Rec.maxit
         /\ IF ~HavePass THEN why' = "the loop ended before maxiters without a converged pass" /\ UNCHANGED <<hi, lo, sh, minprev>>
            ELSE /\ hi' = Pass.hi /\ lo' = Pass.lo /\ sh' = Pass.sh
                 /\ minprev' = MinOf(E, N)
                 /\ why' = IF Pass.E # Sq(E, N) THEN "a stored value is not the value logged for its vertex (NoStaleErrors)"
                           ELSE IF Pass.P # Sq(P, N) THEN "a vertex differs from what the accepted evaluations imply"
                           ELSE IF HiLo(E, N) # <<Pass.hi, Pass.lo>> THEN "highest / lowest differ from the scan of lines 115-121"
                           ELSE IF Pass.sh \notin 0..N \/ E[SecondHighest(E, N, Pass.hi, Pass.lo)] # E[Pass.sh] THEN "errors[secondhighest] differs from the scan of lines 125-132"
                           ELSE IF ~RankLaw(E, N, Pass.hi, Pass.lo, Pass.sh) THEN "RankLaw"
                           ELSE IF MinOf(E, N) > minprev THEN "the best stored value increased (BestNeverIncreases)"
                           ELSE "ok"
         /\ pcx' = "test"
         /\ UNCHANGED <<t, p, E, P, cur, steps, nev, exit>>

TConverge == /\ Live /\ pcx = "test" /\ Pass.conv
             /\ why' = IF ~Pass.convx THEN "broke out of the loop although T > epsilon"
                       ELSE IF Pass.calls # <<>> \/ Pass.ev # <<>> THEN "a converged pass moved the simplex"
                       ELSE IF p # Len(Rec.passes) THEN "passes after the converged one"
                       ELSE "ok"
             /\ pcx' = "ret" /\ exit' = "eps"
             /\ UNCHANGED <<t, p, E, P, cur, hi, lo, sh, steps, nev, minprev>>

\* ---- the pass moves the simplex -----------------------------------------------------------
HasEv(k) == Len(Pass.ev) >= k
Call(k) == IF Len(Pass.calls) >= k THEN Pass.calls[k] ELSE "-"
NoConv == IF Pass.convx THEN "went on although T <= epsilon" ELSE "ok"

TReflectAccept ==
    /\ Live /\ pcx = "test" /\ ~Pass.conv /\ HasEv(1) /\ AcceptsTrial(Pass.ev[1][2], E, hi)
    /\ why' = IF NoConv # "ok" THEN NoConv
              ELSE IF Call(1) # "reflect_simplex" \/ Call(2) # "accept_reflected_point"
              THEN "reflected point better than the highest but not accepted" ELSE "ok"
    /\ E' = [E EXCEPT ![hi] = Pass.ev[1][2]] /\ P' = [P EXCEPT ![hi] = Pass.ev[1][1]]
    /\ cur' = Pass.ev[1][2] /\ nev' = nev + 1 /\ pcx' = "branch2"
    /\ UNCHANGED <<t, p, hi, lo, sh, steps, minprev, exit>>
TReflectReject ==
    /\ Live /\ pcx = "test" /\ ~Pass.conv /\ HasEv(1) /\ ~AcceptsTrial(Pass.ev[1][2], E, hi)
    /\ why' = IF NoConv # "ok" THEN NoConv
              ELSE IF Call(1) # "reflect_simplex" THEN "pass does not start with a reflection"
              ELSE IF Call(2) = "accept_reflected_point" THEN "reflected point accepted although not better than the highest"
              ELSE "ok"
    /\ cur' = Pass.ev[1][2] /\ nev' = nev + 1 /\ pcx' = "branch1"
    /\ UNCHANGED <<t, p, E, P, hi, lo, sh, steps, minprev, exit>>
TNoReflect ==
    /\ Live /\ pcx = "test" /\ ~Pass.conv /\ ~HasEv(1)
    /\ why' = "a pass that did not converge evaluated nothing" /\ pcx' = "ret"
    /\ UNCHANGED <<t, p, E, P, cur, hi, lo, sh, steps, nev, minprev, exit>>

\* k0 = number of helper calls already consumed (1 or 2)
InBranch == Live /\ pcx \in {"branch1", "branch2"}
K0 == IF pcx = "branch2" THEN 2 ELSE 1
EndPass == steps' = steps + 1 /\ p' = p + 1 /\ pcx' = "top"
Budget(extra) == IF nev + extra > EvalBudget(N, steps + 1) THEN "more evaluations than one reflection, one trial and n per pass" ELSE "ok"

TKeep == /\ InBranch /\ ~TriesExpansion(cur, E, lo) /\ ~TriesContraction(cur, E, lo, sh)
         /\ why' = IF Len(Pass.calls) # K0 \/ Len(Pass.ev) # 1 THEN "extra trial after a reflection that is neither best nor worse than the second highest" ELSE "ok"
         /\ EndPass /\ UNCHANGED <<t, E, P, cur, hi, lo, sh, nev, minprev, exit>>

TExpandAccept ==
    /\ InBranch /\ TriesExpansion(cur, E, lo) /\ HasEv(2) /\ AcceptsTrial(Pass.ev[2][2], E, hi)
    /\ why' = IF Call(K0 + 1) # "expand_simplex" THEN "no expansion after a reflection at least as good as the lowest"
              ELSE IF Call(K0 + 2) # "accept_expanded_point" \/ Len(Pass.calls) # K0 + 2 \/ Len(Pass.ev) # 2
              THEN "expanded point better than the stored highest but not accepted" ELSE Budget(1)
    /\ E' = [E EXCEPT ![hi] = Pass.ev[2][2]] /\ P' = [P EXCEPT ![hi] = Pass.ev[2][1]]
    /\ cur' = Pass.ev[2][2] /\ nev' = nev + 1
    /\ EndPass /\ UNCHANGED <<t, hi, lo, sh, minprev, exit>>
TExpandReject ==
    /\ InBranch /\ TriesExpansion(cur, E, lo) /\ HasEv(2) /\ ~AcceptsTrial(Pass.ev[2][2], E, hi)
    /\ why' = IF Call(K0 + 1) # "expand_simplex" THEN "no expansion after a reflection at least as good as the lowest"
              ELSE IF Len(Pass.calls) # K0 + 1 \/ Len(Pass.ev) # 2 THEN "expanded point accepted although not better" ELSE Budget(1)
    /\ cur' = Pass.ev[2][2] /\ nev' = nev + 1
    /\ EndPass /\ UNCHANGED <<t, E, P, hi, lo, sh, minprev, exit>>

TContractAccept ==
    /\ InBranch /\ TriesContraction(cur, E, lo, sh) /\ HasEv(2) /\ AcceptsTrial(Pass.ev[2][2], E, hi)
    /\ why' = IF Call(K0 + 1) # "contract_simplex" THEN "no contraction after a reflection not better than the second highest"
              ELSE IF Call(K0 + 2) # "accept_contracted_point" \/ Len(Pass.calls) # K0 + 2 \/ Len(Pass.ev) # 2
              THEN "contracted point better than the stored highest but not accepted" ELSE Budget(1)
    /\ E' = [E EXCEPT ![hi] = Pass.ev[2][2]] /\ P' = [P EXCEPT ![hi] = Pass.ev[2][1]]
    /\ cur' = Pass.ev[2][2] /\ nev' = nev + 1
    /\ EndPass /\ UNCHANGED <<t, hi, lo, sh, minprev, exit>>
TMultiContract ==
    /\ InBranch /\ TriesContraction(cur, E, lo, sh) /\ HasEv(2) /\ ~AcceptsTrial(Pass.ev[2][2], E, hi)
    /\ LET o == Others(N, lo)
           good == /\ Call(K0 + 1) = "contract_simplex" /\ Call(K0 + 2) = "multiple_contract_simplex"
                   /\ Call(K0 + 3) = "calculate_errors_at_vertices" /\ Len(Pass.calls) = K0 + 3
                   /\ Len(Pass.ev) = 2 + N
       IN IF good
          THEN /\ E' = [v \in 0..N |-> IF v = lo THEN E[v] ELSE Pass.ev[2 + (CHOOSE k \in 1..N : o[k] = v)][2]]
               /\ P' = [v \in 0..N |-> IF v = lo THEN P[v] ELSE Pass.ev[2 + (CHOOSE k \in 1..N : o[k] = v)][1]]
               /\ cur' = Pass.ev[2 + N][2] /\ nev' = nev + 1 + N /\ why' = Budget(1 + N)
          ELSE /\ why' = "failed contraction not followed by the multiple contraction and n re-evaluations"
               /\ UNCHANGED <<E, P, cur, nev>>
    /\ EndPass /\ UNCHANGED <<t, hi, lo, sh, minprev, exit>>
TNoTrial ==
    /\ InBranch /\ (TriesExpansion(cur, E, lo) \/ TriesContraction(cur, E, lo, sh)) /\ ~HasEv(2)
    /\ why' = "no second trial although the reflection asks for an expansion or a contraction" /\ pcx' = "ret"
    /\ UNCHANGED <<t, p, E, P, cur, hi, lo, sh, steps, nev, minprev, exit>>

\* ---- the return (lines 208-211) and the verdict ------------------------------------------
AsIsP == IF lo < 0 THEN Rec.x0 ELSE P[lo]                     \* simplex[-1] still holds the guess when no pass ran
AsIsV == E[PyIdx(lo, N + 1)]
FinalWhy ==
    IF Rec.fin.E # Sq(E, N) THEN "a stored value after minimize is not the value logged for its vertex"
    ELSE IF Rec.fin.P # Sq(P, N) THEN "a vertex after minimize differs from what the accepted evaluations imply"
    ELSE IF nev # Rec.nev THEN "evaluations not accounted for by the branches taken"
    ELSE IF exit = "eps" /\ steps >= Rec.maxit THEN "pass count exceeds maxiters"
    ELSE IF Rec.ret.it # (IF exit = "eps" THEN steps ELSE IF Rec.maxit = 0 THEN 0 ELSE Rec.maxit - 1) THEN "IterMeaning"
    ELSE "ok"
TFinish ==
    /\ t <= Len(Trace) /\ (pcx = "ret" \/ why # "ok")
    /\ LET w == IF why # "ok" THEN why ELSE FinalWhy
           done == why = "ok" /\ pcx = "ret"
           best == done /\ Rec.ret.v = MinOf(E, N) /\ \E v \in 0..N : P[v] = Rec.ret.p /\ E[v] = Rec.ret.v
           value == done /\ Rec.ret.v = Rec.ret.fv
           asis == done /\ Rec.ret.p = AsIsP /\ Rec.ret.v = AsIsV
       IN PrintT("@@" \o ToJson([id |-> Rec.id, ok |-> (w = "ok"), why |-> w, pass |-> p, steps |-> steps, exit |-> exit,
                                 best |-> best, value |-> value, asis |-> asis]))
    /\ t' = t + 1
    /\ IF t + 1 <= Len(Trace) THEN Start(Trace[t + 1])
       ELSE /\ p' = 1 /\ pcx' = "top" /\ steps' = 0 /\ exit' = "none" /\ hi' = -1 /\ lo' = -1 /\ sh' = -1
            /\ E' = <<>> /\ P' = <<>> /\ cur' = 0 /\ minprev' = 0 /\ nev' = 0 /\ why' = "ok"

Next == \/ TExhaust \/ TRank \/ TConverge \/ TReflectAccept \/ TReflectReject \/ TNoReflect \/ TKeep
        \/ TExpandAccept \/ TExpandReject \/ TContractAccept \/ TMultiContract \/ TNoTrial \/ TFinish
Spec == Init /\ [][Next]_vars

\* every step of every run stays inside the vertex range (a TLC invariant, not a verdict)
IndexOK == (t <= Len(Trace) /\ pcx \in {"test", "branch1", "branch2"} /\ why = "ok") =>
              (hi \in 0..N /\ lo \in 0..N /\ sh \in 0..N)
=============================================================================

SPECIFICATION Spec
CONSTANTS
  NS = 3
  NF = 3
  LEVELS = 4
  MAXPIX = 3
  MAPS <- MAPS_t
  THRS <- THRS_q
  THRESHOLD = "ignored"
  EmitOn = TRUE
INVARIANT AllLabelled
INVARIANT MapCovariant
INVARIANT Emit
CHECK_DEADLOCK FALSE

SPECIFICATION SpecRawAx
CONSTANTS
  SWITCHSETS <- SW_none
  FLIPS = {1}
  SIGNS <- SIGNS_pos
  SIZES <- SIZES_pos
  PEAKS = {1}
  OMEGAS = {1}
  INVANG <- AXANG_q
  RAWANG <- RAWANG_q
  QUADS = {1,2,3,4,5,6,7,8,9,10,11,12,13,14,15,16,17,18,19,20}
  SCALES <- SCALES_all
  AXQUADS = {1,5,12}
INVARIANT TypeOK
INVARIANT StackOrtho
INVARIANT NormLaw
INVARIANT OmegaLaw
INVARIANT OriginLaw
INVARIANT Roundtrip
INVARIANT EwaldBound
INVARIANT BraggLaw
INVARIANT AxisLaw
INVARIANT UnitLaw
INVARIANT Emit
CHECK_DEADLOCK FALSE

\* both tiers: title enumeration.  Table 7 (one column per format class, three EXPONENTIALS) in both
\* objects, one path, one group, depth 2: every writer followed by every reader.  The harness replays the
\* write-then-read leaves once per batch of pinned titles (Storage.tla header: covariance in the title name)
SPECIFICATION Spec
CONSTANTS
  Family = "table"
  Paths = {"p1"}
  Groups = {"peaks"}
  SeedTuples <- SeedsTitle
  OpNames = {"WriteText", "ReadText", "WriteHdf", "WriteHdfObj", "ReadHdf", "ReadAuto", "ReadMmap"}
  MaxDepth = 2
  EmitOn = TRUE
INVARIANT TypeOK
INVARIANT InvFixed
INVARIANT InvAsIs
INVARIANT Emit
VIEW ViewAll
CHECK_DEADLOCK FALSE

INIT InitPart
NEXT NextPart
CONSTANTS
  Depth = 4
  WAng <- AngQuick
  WCombo <- ComboQuick
  WStart <- Frames
  RNy <- RNyAll
  ROffH <- ROffAll
  RPosQ <- RPosSet
  RYstep <- YstepAll
  RScan <- RScanAll
  RPadMode <- RPadModes
  RYminMode <- RYminModes
  PMaxN = 12
  PMaxW = 16
INVARIANT JobsDisjointSoFar
INVARIANT PartitionOK
INVARIANT EmitPart
CHECK_DEADLOCK FALSE

INIT InitPart
NEXT NextPart
CONSTANTS
  Depth = 4
  WAng <- AngQuick
  WCombo <- ComboQuick
  WStart <- Frames
  WRepeat = FALSE
  RNy <- RNyAll
  ROffH <- ROffAll
  RPosQ <- RPosSet
  RYstep <- YstepAll
  RScan <- RScanAll
  RPadMode <- RPadModes
  RYminMode <- RYminModes
  PMaxN = 17
  PMaxW = 16
  PMaxP = 16
INVARIANT TypePart
INVARIANT JobsDisjointSoFar
INVARIANT JobsWellFormed
INVARIANT PartitionCharacterised
INVARIANT DroppedCharacterised
INVARIANT CodeLawIsPartition
INVARIANT PartitionOK
INVARIANT EmitPart
CHECK_DEADLOCK FALSE

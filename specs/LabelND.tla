------------------------------- MODULE LabelND -------------------------------
(***************************************************************************)
(* N-D peak merging of ImageD11/sinograms/properties.py (property C15).    *)
(*                                                                         *)
(* Code modelled                                                           *)
(*   numbalabelNd      properties.py:653-690  one prange sweep over the    *)
(*                     edge list: pi = pkid[i[p]]; pj = pkid[j[p]];        *)
(*                     if pi != pj: m = min; pkid[i[p]] = m; pkid[j[p]] = m*)
(*                     nbad += 1   (p = k + flip*(N-2k), N = len(i)-1)     *)
(*   find_ND_labels    properties.py:715-731  labels = arange(n); sweeps   *)
(*                     with alternating flip until a sweep returns 0;      *)
(*                     then get_clean_labels                               *)
(*   get_clean_labels  properties.py:693-712  sequential count with        *)
(*                     negation marks, then a prange fix-up                *)
(*   numbapkmerge      properties.py:618-650  sequential sums into out[7]  *)
(*   (pks_table.find_uniq / pk2dmerge, 514-563, are wrappers of the above) *)
(*   table histories   properties.py:343-563  what a user does with the    *)
(*                     labelled table (Hist > 0): find_uniq() again,       *)
(*                     find_uniq(use_scipy=True) (scipy numbers the        *)
(*                     components in an order of its own: ANY bijection of *)
(*                     0..nlabel-1), save() + pks_table.load() (the file   *)
(*                     holds ipk, pk_props, npk, glabel, nlabel - NOT the  *)
(*                     overlap list rc, so a loaded table cannot be        *)
(*                     labelled again), pk2dmerge() again (a fresh zeroed  *)
(*                     out buffer per call); pk2dmerge always sums by the  *)
(*                     labels the table holds NOW                          *)
(*   DataSet histories dataset.py:665-700, 817-885, 985-1090 (DsHist > 0): *)
(*                     the labelled table is saved and a dataset.DataSet   *)
(*                     opened on the file.  The DataSet caches the loaded  *)
(*                     table (_peaks_table), the 2D table (_pk2d) and the  *)
(*                     merged table (_pk4d), the last two made on first    *)
(*                     use with scale_factor = monitor_ref / monitor when  *)
(*                     a monitor is set; set_monitor(name, ref) reads the  *)
(*                     monitor, sets monitor_ref = ref(monitor) and calls  *)
(*                     reset_peaks_cache (two independent tests drop _pk2d *)
(*                     and _pk4d); get_cf_2d / get_cf_4d make a columnfile *)
(*                     of ds.pk2d / ds.pk4d; save() + dataset.load() give  *)
(*                     a new object holding monitor and monitor_ref        *)
(*                                                                         *)
(* Granularity: ONE shared-memory access of pkid per step.  The memory is  *)
(* sequentially consistent per access (int64 loads / stores do not tear).  *)
(*                                                                         *)
(* Variables                                                               *)
(*   g      the instance: [n, ne, ei, ej, cmin]; nodes 0..n-1, edge        *)
(*          positions 0..ne-1, cmin[v] = minimum of v's connected          *)
(*          component computed by reachability closure (the independent    *)
(*          definition; constant after Init)                               *)
(*   owner  Static = TRUE: owner[k] = thread that executes prange index k  *)
(*          (every function 0..ne-1 -> Threads is explored, a thread runs  *)
(*          its indices in increasing k); Static = FALSE: any idle thread  *)
(*          grabs any unstarted index (covers every partition and order)   *)
(*   pkid   the shared label array (re-used in place by get_clean_labels)  *)
(*   flip, todo (prange indices / fix-up indices not yet started), nbad    *)
(*   th     per thread [pc, p, pi, pj, ord]: ord selects the order of the  *)
(*          two loads / two stores of one edge (0 = program order)         *)
(*   phase  "sweep" -> "count" -> "fix" -> "merge" -> "done"               *)
(*   ci, nlab  cursor and counter of the sequential count loop             *)
(*   out    result of numbapkmerge (unscaled and scaled numerators)        *)
(*   pk0    History = TRUE: pkid at the start of the current sweep         *)
(*   post   [hist, rc]: the table operations done after the first merge    *)
(*          (sequence of "numba" | "scipy" | "saveload" | "merge") and     *)
(*          whether the table still holds its overlap list                 *)
(*   ds     the DataSet: [open, closed, mon (monitor in force, 0 = none),  *)
(*          c2, c4 (scale id the cached 2D / merged table was made with,   *)
(*          -1 = nothing cached), ct (table loaded), hist (sequence of     *)
(*          [op, arg, mon, ret]: operation, monitor in force after it,     *)
(*          scale id of the table it returned)]                            *)
(*                                                                         *)
(* Actions  Grab, Read1, Read2, Write1, Write2 (sweep, per thread),        *)
(*          EndSweep, CountStep, CountEnd, FixGrab, FixRead, FixRead2,     *)
(*          FixWrite, FixEnd, Merge;  after the first merge (Hist > 0):    *)
(*          RelabelNumba, RelabelScipy, SaveLoad, Remerge;  only with      *)
(*          Bug = "pmerge": PMGrab, PMRead, PMWrite, PMEnd;  DsHist > 0:   *)
(*          DsOpen, then DsHist times any of DsRead2 (ds.pk2d /            *)
(*          get_cf_2d), DsRead4 (ds.pk4d / get_cf_4d), DsTable,            *)
(*          DsSetMonitor(m), DsReset, DsSaveLoad (those named in DsOps),   *)
(*          then DsClose (pk2d and pk4d read once more)                    *)
(*                                                                         *)
(* Invariants (all interleavings, all instances of the configuration)      *)
(*   TypeOK                                                                *)
(*   InComp        sweep: pkid[v] is a node of v's component and <= v      *)
(*   MinFixed      sweep: pkid[cmin[v]] = cmin[v]                          *)
(*   LocalsOK      values held by a thread are nodes of the edge's comp.   *)
(*   ZeroAgree     sweep complete with nbad = 0 => every edge agrees       *)
(*   Fixpoint      leaving the sweep loop: pkid = cmin, for EVERY schedule *)
(*   FixReadsRoot  the fix-up only ever copies an already final label      *)
(*   CleanOK       after fix-up: labels[v] = rank of cmin[v] among the     *)
(*                 component minima (claimed whenever the last labelling   *)
(*                 was the numba route); the statement clause - labels     *)
(*                 used are exactly 0..nlab-1, same label <=> connected -  *)
(*                 after EVERY history                                     *)
(*   MergeOK       out = sums over the connected components: row L is the  *)
(*                 sum over the members of the component whose CURRENT     *)
(*                 label is L-1 (MergeDefL), = MergeDef (order of the      *)
(*                 component minima) whenever the numbering is the rank    *)
(*                 numbering; for every root r the row of r's label is the *)
(*                 sum over Comp(r) (numbering-free form, this is what the *)
(*                 harness compares); row / total = sum(w x) / sum(w) over *)
(*                 the members whenever the total weight is not 0, for     *)
(*                 weights of any sign (WMeanIs)                           *)
(*   DsLaw         every table a DataSet operation returned - after ANY    *)
(*                 history of reads, set_monitor, reset_peaks_cache, save  *)
(*                 + load - is the table of the labels of the file with    *)
(*                 the scale factors monitor_ref / monitor of the monitor  *)
(*                 in force at that moment (none before the first          *)
(*                 set_monitor): merged rows = sums over the members of    *)
(*                 each label / each component, 2D intensities scaled      *)
(*   DsCacheOK     a cached table was made with the monitor in force       *)
(*   SweepLegal    (History) sweep complete => LegalSweep(pk0, pkid, nbad):*)
(*                 pointwise non-increasing, nbad = 0 <=> unchanged,       *)
(*                 nbad > 0 => the sum of pkid strictly decreased (this is *)
(*                 the variant that bounds the number of sweeps)           *)
(*                 (why it holds although stores can be lost: a label that *)
(*                 is lowered and later restored to its start value needs  *)
(*                 a restoring edge whose other end starts strictly higher *)
(*                 and is lowered by the same store pair - an infinite     *)
(*                 ascending chain in a finite graph; TLC checks it)       *)
(*   SeqExact      (History, one thread, program order) the sweep result   *)
(*                 and nbad equal SeqSweep(pk0, flip)                      *)
(* Liveness  Termination == <>(phase = "done") under WF(Next)              *)
(* Witness   NeverRaises is expected to be VIOLATED with >= 2 threads: a   *)
(*           lost update can raise a label within a sweep (LabelND_lost)   *)
(*                                                                         *)
(* Bug # "none" selects deliberately wrong variants of the sweep (used by  *)
(* the harness self-test to show the invariants are not vacuous).          *)
(* Bug = "pmerge" replaces the sequential merge loop by a prange whose     *)
(* `out[r, j] += x` is a load followed by a store: TLC refutes MergeOK     *)
(* with two threads holding members of the same merged peak (lost update); *)
(* in the real code such a change is schedule dependent and only shows     *)
(* with many members per merged peak spread over the threads - which is    *)
(* why the harness merges >= 1e5 peaks in a few interleaved stars at every *)
(* thread count and compares with exact integer sums.                      *)
(* Bug = "elifcache": reset_peaks_cache with its second test made an elif  *)
(* of the first; TLC refutes DsLaw by "both tables read, set_monitor,      *)
(* merged table read" (LabelND_bugds.cfg).                                 *)
(*                                                                         *)
(* Sign classes (Neg = TRUE): the weights w = sI * scale factor may have   *)
(* any sign - a background-subtracted table holds negative intensities, a  *)
(* monitor with its offset subtracted reads below zero where the beam was  *)
(* lost.  The statement's "intensity-weighted mean" is sum(w x) / sum(w)   *)
(* for every merged peak whose total weight is not 0 (MergeOK, WMeanIs);   *)
(* nothing is claimed about the mean of a merged peak of total weight 0.   *)
(* With Neg = TRUE 2D peak 1 has sI = -9, the direct scale factor of frame *)
(* 2 is -3/4 and both monitors are negative on frame 1: over all graphs on *)
(* <= 4 nodes there are merged peaks of negative total, of positive total  *)
(* with a negative member, and of total exactly 0 (unscaled {0,1,2},       *)
(* scaled {0,3}).  Neg = FALSE keeps the all-positive tables (then MergeOK *)
(* also says that every total is > 0).                                     *)
(*                                                                         *)
(* Not modelled, bound by the harness only (the model is covariant in      *)
(* them): the values of the property table (MergeOK is an identity of      *)
(* sums, checked here on small integers; the harness adds large sI,        *)
(* non-dyadic monitor-style scale factors, zero scale factors, float32 /   *)
(* Fortran-ordered / strided omega, dty, scale arrays with exact rational  *)
(* expectations), thread counts beyond 3 (every assignment of prange       *)
(* indices to <= 3 threads is explored here, so uneven chunks are covered; *)
(* the harness runs 1,2,3,4,5,7,8,12,16 and 17,24,32 in a child process),  *)
(* the numba threading layer.                                              *)
(* Not in the DataSet histories: ds.load() INTO a DataSet that holds       *)
(* tables already, a peaks file rewritten under an open DataSet, get_cf_*  *)
(* answered from a column file on disk (the code warns it is out of date), *)
(* ds.monitor assigned without reset_peaks_cache(); the spatial correction *)
(* of the columnfile route (none is configured).  n = 0 is outside the scope (NSet >= 1: a    *)
(* graph has nodes; get_clean_labels asserts labels[0] == 0, which is the  *)
(* conjunct pkid[0] = 0 of Fixpoint).                                      *)
(*                                                                         *)
(* Bounds: NSet, ESet, Shape in the .cfg files: every edge list over       *)
(* n <= 4 nodes with <= 3 positions (self loops, duplicates, both          *)
(* orientations, isolated nodes, no edges), every spanning tree of 5 nodes *)
(* (chains that need several sweeps, stars), 1..3 threads; histories       *)
(* (LabelND_hist.cfg): every edge list over <= 3 nodes with <= 2 positions *)
(* followed by every sequence of <= 2 table operations, every renumbering  *)
(* by the scipy route (115 instances x 19 histories = 2185 records);       *)
(* DataSet histories on the three one-edge graphs of 3 nodes (a merged     *)
(* peak of two members on frames with different scale factors + a single   *)
(* peak), two monitors: LabelND_ds.cfg every sequence of 3 of the 9        *)
(* operations (729 histories), LabelND_dscore.cfg every sequence of 4 of   *)
(* pk2d, pk4d, set_monitor x 2, reset (625), thorough: LabelND_ds4.cfg     *)
(* (4 of 9: 6561) and LabelND_dsdeep.cfg (6 of 5: 15625).                  *)
(***************************************************************************)
EXTENDS Integers, Sequences, FiniteSets, TLC, Json

CONSTANTS NSet,      \* set of node counts
          ESet,      \* set of edge-list lengths
          Threads,   \* set of thread identifiers (model values)
          Static,    \* BOOLEAN: static ownership of prange indices
          OrdSet,    \* subset of 0..3: allowed load/store orders within an edge
          History,   \* BOOLEAN: keep pk0
          DoEmit,    \* BOOLEAN: print one JSON record per terminal state
          Bug,       \* "none" | "max" | "onewrite" | "pmerge" | "elifcache"
          Hist,      \* Nat: maximal number of table operations after the first merge (0: stop there)
          DsHist,    \* Nat: number of DataSet operations after the labelled table was saved and a
                     \*   dataset.DataSet opened on the file (0: no DataSet layer); every history is
                     \*   closed by reading pk2d and pk4d once more (DsClose)
          DsOps,     \* the DataSet operations of the histories: subset of {"pk2d", "pk4d", "cf2d", "cf4d",
                     \*   "table", "setmon", "reset", "saveload"}
          NMon,      \* 0..2: number of different monitors set_monitor may be called with
          Neg,       \* BOOLEAN: sign classes of the weights.  FALSE: every intensity, scale factor and
                     \*   monitor reading is positive.  TRUE: 2D peak 1 has a negative intensity (a
                     \*   background-subtracted table), the scale factors handed over directly are
                     \*   negative on frame 2 and both monitors read below zero on frame 1 (beam lost,
                     \*   offset subtracted): merged peaks of negative total weight, of positive total
                     \*   weight with negative members, and of total weight exactly 0 (mean undefined)
          Shape      \* "any": every edge list; "sorted": one edge list per multiset of edges
                     \*   (only with Static = FALSE); "tree": the spanning trees on n nodes
                     \*   (edges a < b, listed once) - chains, stars and everything between;
                     \*   "simple": one edge list per simple graph (edges a < b, listed once)

VARIABLES g, owner, pkid, flip, todo, nbad, th, phase, ci, nlab, out, pk0, post, ds
vars == <<g, owner, pkid, flip, todo, nbad, th, phase, ci, nlab, out, pk0, post, ds>>

----------------------------------------------------------------------------
(* generic helpers *)
Min2(a, b) == IF a < b THEN a ELSE b
Max2(a, b) == IF a > b THEN a ELSE b
MinOf(S) == CHOOSE x \in S : \A y \in S : x <= y

\* sum of the function f over the finite set S
RECURSIVE SumSet(_, _)
SumSet(S, f) == IF S = {} THEN 0
                ELSE LET x == CHOOSE y \in S : TRUE IN f[x] + SumSet(S \ {x}, f)

\* sequence (1-based) view of a 0-based array, for JSON
Seq0(f, len) == [k \in 1..len |-> f[k - 1]]

----------------------------------------------------------------------------
(* the independent definition: connected components by reachability *)
Grow(n, ne, ei, ej, S) ==
    S \cup {v \in 0..n-1 : \E e \in 0..ne-1 :
                 \/ ei[e] \in S /\ ej[e] = v
                 \/ ej[e] \in S /\ ei[e] = v}

RECURSIVE Reach(_, _, _, _, _)
Reach(n, ne, ei, ej, S) ==
    LET S2 == Grow(n, ne, ei, ej, S) IN
    IF S2 = S THEN S ELSE Reach(n, ne, ei, ej, S2)

CMinOf(n, ne, ei, ej) == [v \in 0..n-1 |-> MinOf(Reach(n, ne, ei, ej, {v}))]

Nodes == 0..(g.n - 1)
Comp(v) == {u \in Nodes : g.cmin[u] = g.cmin[v]}
Roots == {v \in Nodes : g.cmin[v] = v}
Rank(r) == Cardinality({s \in Roots : s < r})

----------------------------------------------------------------------------
(* property tables for numbapkmerge: small integers, functions of the peak *)
(* index; scale factors are SCN(f)/SDen.                                   *)
NF == 4
SDen == 4
S1(k) == 1 + ((k * k + 3) % 5)
SI(k) == IF Neg /\ k = 1 THEN -9 ELSE 2 + ((7 * k + 1) % 11)
SR(k) == SI(k) * (3 + (k % 4)) + (k % 3)
SC(k) == SI(k) * (10 - (k % 6)) - (k % 2)
FRM(k) == (3 * k + 1) % NF
OM(f) == 10 * f - 5
DTY(f) == 7 - 3 * f * f
SCN(f) == IF Neg /\ f = 2 THEN -3 ELSE f + 1
\* Neg = TRUE, nodes 0..3 (frames 1, 0, 3, 2): weights unscaled 3, -9, 6, 2 (component {0,1,2}: total 0,
\* {0,1}: -6, {0,1,2,3}: 2 with a negative member); with the direct scale factors (x 1/4) 6, -9, 24, -6
\* ({0,3}: total 0 although the unscaled total is 5, {1,3}: -15, {1,2,3}: 9); monitor 1: -6, -54, 18, 2;
\* monitor 2: -36, -18, 48, 6.  The statement asks for sum(w x) / sum(w) whenever sum(w) # 0, whatever
\* the signs; a merged peak of total weight 0 has no mean (only its sums are claimed).

\* Which per-frame scale factors a table was made with ("scale id"):
\*   NoScale   none (scale_factor=None)
\*   Direct    the array SCN(f)/SDen handed to pk2dmerge / pk2d by the caller
\*   m = 1, 2  what dataset.DataSet derives from monitor m (dataset.py:697-698, 830, 842):
\*             scale_factor = monitor_ref / monitor with monitor = MONV(m) (counts per frame, read from
\*             the master file by set_monitor(name_m, ref_m)) and monitor_ref = ref_m(monitor):
\*             monitor 1 uses the default np.mean, monitor 2 a constant (the docstring's lambda)
NoScale == 0
Direct == 9
MONV(m) == IF Neg THEN (IF m = 1 THEN <<4, -12, 24, 8>> ELSE <<12, -2, 8, 3>>)
           ELSE (IF m = 1 THEN <<1, 3, 12, 8>> ELSE <<12, 2, 24, 3>>)
REFV(m) == IF m = 1 THEN (MONV(1)[1] + MONV(1)[2] + MONV(1)[3] + MONV(1)[4]) \div NF ELSE 6
\* numerator over SDen of the scale factor of frame f (denominator 1 for NoScale)
ScN(s, f) == IF s = NoScale THEN 1
             ELSE IF s = Direct THEN SCN(f)
             ELSE (REFV(s) * SDen) \div MONV(s)[f + 1]
\* the quotients are exact (so that the numerators above ARE monitor_ref / monitor), the mean is an
\* integer, and on every frame the four scale factors (none, direct, monitor 1, monitor 2) differ -
\* except frame NF-1 where Direct = 1: a table made with one scale id is never a table of another
ASSUME (MONV(1)[1] + MONV(1)[2] + MONV(1)[3] + MONV(1)[4]) % NF = 0
ASSUME \A m \in 1..2 : \A f \in 0..NF-1 : ScN(m, f) * MONV(m)[f + 1] = REFV(m) * SDen
ASSUME Neg \in BOOLEAN
ASSUME \A f \in 0..NF-1 : Cardinality({SDen, ScN(1, f), ScN(2, f), SCN(f)}) >= (IF f = NF - 1 THEN 3 ELSE 4)

\* contribution of 2D peak k to the 7 rows of out (1-based rows 1..7 = out[0..6]);
\* scaled = the scale id: sc = 1 for the unscaled call, else the numerator of the frame's scale factor
Row(k, scaled) ==
    LET f == FRM(k)
        sc == ScN(scaled, f) IN
    << S1(k), SI(k) * sc, SR(k) * sc, SC(k) * sc, OM(f) * SI(k) * sc, DTY(f) * SI(k) * sc, 1 >>

\* numbapkmerge as written: for k in range(len(labels)): out[r, labels[k]] += ...
RECURSIVE MergeFrom(_, _, _, _, _)
MergeFrom(k, n, lab, scaled, acc) ==
    IF k = n THEN acc
    ELSE LET r == Row(k, scaled)
             j == lab[k] IN
         MergeFrom(k + 1, n, lab, scaled,
                   [row \in 1..7 |-> [acc[row] EXCEPT ![j + 1] = @ + r[row]]])

MergeLoop(n, lab, nl, scaled) ==
    MergeFrom(0, n, lab, scaled, [row \in 1..7 |-> [L \in 1..nl |-> 0]])

\* the definition: sums over the connected components, in order of their minima
RowVal(k, scaled, row) == Row(k, scaled)[row]
MergeDef(scaled) ==
    [row \in 1..7 |->
        [L \in 1..Cardinality(Roots) |->
            LET members == {k \in Nodes : Rank(g.cmin[k]) = L - 1} IN
            SumSet(members, [k \in members |-> RowVal(k, scaled, row)])]]

\* the same sums indexed by the labels the table holds NOW (lab = any labelling with values
\* 0..nl-1): this is the clause "sums over its members" without reference to a numbering
MergeDefL(lab, nl, scaled) ==
    [row \in 1..7 |->
        [L \in 1..nl |->
            LET members == {k \in Nodes : lab[k] = L - 1} IN
            SumSet(members, [k \in members |-> RowVal(k, scaled, row)])]]

\* num / den is the weighted mean sum(w x) / sum(w) of the members M (row 2 of a member is its weight
\* w = sI * scale factor, rows 3..6 are w * x for x = row, column, omega, dty); vacuous when sum(w) = 0
WMeanIs(num, den, M, scaled, row) ==
    LET sw == SumSet(M, [k \in M |-> RowVal(k, scaled, 2)])
        swx == SumSet(M, [k \in M |-> RowVal(k, scaled, row)]) IN
    sw # 0 => (den # 0 /\ num * sw = swx * den)

RankLabels == [v \in Nodes |-> Rank(g.cmin[v])]
Ranked == pkid = RankLabels

----------------------------------------------------------------------------
(* one sequential sweep (the T = 1 semantics) as an operator: used by the  *)
(* trace specification and tied to the stepwise model by SeqExact          *)
RECURSIVE SeqFrom(_, _, _, _, _, _, _)
SeqFrom(k, ne, ei, ej, pk, nb, fl) ==
    IF k = ne THEN <<pk, nb>>
    ELSE LET p == k + fl * ((ne - 1) - 2 * k)
             a == ei[p]
             b == ej[p] IN
         IF pk[a] = pk[b] THEN SeqFrom(k + 1, ne, ei, ej, pk, nb, fl)
         ELSE LET m == Min2(pk[a], pk[b]) IN
              SeqFrom(k + 1, ne, ei, ej, [pk EXCEPT ![a] = m, ![b] = m], nb + 1, fl)

SeqSweep(ne, ei, ej, pk, fl) == SeqFrom(0, ne, ei, ej, pk, 0, fl)

\* what every sweep of the parallel model satisfies (checked by SweepLegal)
SumArr(f, n) == SumSet(0..n-1, f)
LegalSweepClause(n, ne, cmin, a, b, nb) ==
    IF ~(\A v \in 0..n-1 : b[v] <= a[v]) THEN "increased"
    ELSE IF ~(\A v \in 0..n-1 : b[v] \in 0..n-1 /\ cmin[b[v]] = cmin[v]) THEN "left-component"
    ELSE IF ~(\A v \in 0..n-1 : cmin[v] = v => b[v] = v) THEN "minimum-moved"
    ELSE IF ~(nb \in 0..ne) THEN "nbad-range"
    ELSE IF nb = 0 /\ a # b THEN "changed-with-nbad-0"
    ELSE IF nb > 0 /\ ~(SumArr(b, n) < SumArr(a, n)) THEN "no-progress-with-nbad>0"
    ELSE "ok"

----------------------------------------------------------------------------
\* no DataSet yet: mon = the monitor in force (0: none), c2 / c4 = the scale id the cached 2D / merged
\* table was made with (-1: nothing cached), ct = the peaks table is cached
DsInit0 == [open |-> FALSE, closed |-> FALSE, mon |-> 0, c2 |-> -1, c4 |-> -1, ct |-> FALSE, hist |-> <<>>]

Idle == [pc |-> "idle", p |-> 0, pi |-> 0, pj |-> 0, ord |-> 0]
AllIdle == \A t \in Threads : th[t].pc = "idle"
IdMap(n) == [v \in 0..n-1 |-> v]

\* With Static = FALSE any thread grabs any unstarted index, so the behaviours do not depend
\* on the order of the edge list: one representative per multiset of edges is enough.
EdgeKey(n, ei, ej, e) == ei[e] * n + ej[e]
ShapeOK(n, ne, ei, ej) ==
    /\ Shape = "sorted" =>
          \A e \in 0..ne-2 : EdgeKey(n, ei, ej, e) <= EdgeKey(n, ei, ej, e + 1)
    /\ Shape = "tree" =>
          /\ ne = n - 1
          /\ \A e \in 0..ne-1 : ei[e] < ej[e]
          /\ \A e \in 0..ne-2 : EdgeKey(n, ei, ej, e) < EdgeKey(n, ei, ej, e + 1)
          /\ Reach(n, ne, ei, ej, {0}) = 0..n-1
    /\ Shape = "simple" =>
          /\ \A e \in 0..ne-1 : ei[e] < ej[e]
          /\ \A e \in 0..ne-2 : EdgeKey(n, ei, ej, e) < EdgeKey(n, ei, ej, e + 1)

ASSUME Shape \in {"any", "sorted", "tree", "simple"}
ASSUME (Shape # "any") => ~Static
ASSUME Hist \in Nat /\ (Bug = "pmerge" => Hist = 0)
ASSUME DsHist \in Nat /\ NMon \in 0..2 /\ (Bug = "pmerge" => DsHist = 0)
ASSUME DsOps \subseteq {"pk2d", "pk4d", "cf2d", "cf4d", "table", "setmon", "reset", "saveload"}

Init ==
    /\ \E n \in NSet, ne \in ESet :
         \E ei \in [0..ne-1 -> 0..n-1], ej \in [0..ne-1 -> 0..n-1] :
            /\ ShapeOK(n, ne, ei, ej)
            /\ g = [n |-> n, ne |-> ne, ei |-> ei, ej |-> ej, cmin |-> CMinOf(n, ne, ei, ej)]
            /\ pkid = IdMap(n)
            /\ pk0 = IdMap(n)
            /\ todo = 0..ne-1
            /\ IF Static THEN owner \in [0..ne-1 -> Threads] ELSE owner = <<>>
    /\ flip = 0
    /\ nbad = 0
    /\ th = [t \in Threads |-> Idle]
    /\ phase = "sweep"
    /\ ci = 0
    /\ nlab = 0
    /\ out = <<>>
    /\ post = [hist |-> <<>>, rc |-> TRUE]
    /\ ds = DsInit0

(* ---- the prange sweep of numbalabelNd -------------------------------- *)
Mine(t) == IF Static THEN {k \in todo : owner[k] = t} ELSE todo
CanGrab(t, k) == k \in Mine(t) /\ (Static => k = MinOf(Mine(t)))

\* which endpoint is accessed first: bit 0 of ord for loads, bit 1 for stores
FirstLoadIsI(o) == o % 2 = 0
FirstStoreIsI(o) == o \div 2 = 0
NodeI(t) == g.ei[th[t].p]
NodeJ(t) == g.ej[th[t].p]

Grab(t) ==
    /\ phase = "sweep" /\ th[t].pc = "idle"
    /\ \E k \in todo, o \in OrdSet :
          /\ CanGrab(t, k)
          /\ todo' = todo \ {k}
          /\ th' = [th EXCEPT ![t] = [pc |-> "r1", p |-> k + flip * ((g.ne - 1) - 2 * k),
                                      pi |-> 0, pj |-> 0, ord |-> o]]
    /\ UNCHANGED <<g, owner, pkid, flip, nbad, phase, ci, nlab, out, pk0, post, ds>>

Read1(t) ==
    /\ phase = "sweep" /\ th[t].pc = "r1"
    /\ LET me == th[t] IN
       th' = [th EXCEPT ![t] = IF FirstLoadIsI(me.ord) THEN [me EXCEPT !.pc = "r2", !.pi = pkid[NodeI(t)]]
                                                        ELSE [me EXCEPT !.pc = "r2", !.pj = pkid[NodeJ(t)]]]
    /\ UNCHANGED <<g, owner, pkid, flip, todo, nbad, phase, ci, nlab, out, pk0, post, ds>>

\* second load, then the thread-local test pi != pj
Read2(t) ==
    /\ phase = "sweep" /\ th[t].pc = "r2"
    /\ LET me == th[t]
           a == IF FirstLoadIsI(me.ord) THEN me.pi ELSE pkid[NodeI(t)]
           b == IF FirstLoadIsI(me.ord) THEN pkid[NodeJ(t)] ELSE me.pj IN
       th' = [th EXCEPT ![t] = IF a = b THEN Idle
                                ELSE [me EXCEPT !.pc = "w1", !.pi = a, !.pj = b]]
    /\ UNCHANGED <<g, owner, pkid, flip, todo, nbad, phase, ci, nlab, out, pk0, post, ds>>

M(t) == IF Bug = "max" THEN Max2(th[t].pi, th[t].pj) ELSE Min2(th[t].pi, th[t].pj)

Write1(t) ==
    /\ phase = "sweep" /\ th[t].pc = "w1"
    /\ pkid' = [pkid EXCEPT ![IF FirstStoreIsI(th[t].ord) THEN NodeI(t) ELSE NodeJ(t)] = M(t)]
    /\ th' = [th EXCEPT ![t].pc = "w2"]
    /\ UNCHANGED <<g, owner, flip, todo, nbad, phase, ci, nlab, out, pk0, post, ds>>

\* second store and the reduction nbad += 1
Write2(t) ==
    /\ phase = "sweep" /\ th[t].pc = "w2"
    /\ pkid' = IF Bug = "onewrite" THEN pkid
               ELSE [pkid EXCEPT ![IF FirstStoreIsI(th[t].ord) THEN NodeJ(t) ELSE NodeI(t)] = M(t)]
    /\ nbad' = nbad + 1
    /\ th' = [th EXCEPT ![t] = Idle]
    /\ UNCHANGED <<g, owner, flip, todo, phase, ci, nlab, out, pk0, post, ds>>

SweepComplete == phase = "sweep" /\ todo = {} /\ AllIdle

\* find_ND_labels: `if b == 0: break` else flip and sweep again
EndSweep ==
    /\ SweepComplete
    /\ IF nbad = 0
       THEN /\ phase' = "count"
            /\ UNCHANGED <<flip, todo, pk0>>
       ELSE /\ flip' = 1 - flip
            /\ todo' = 0..(g.ne - 1)
            /\ pk0' = IF History THEN pkid ELSE pk0
            /\ UNCHANGED phase
    /\ nbad' = 0
    /\ UNCHANGED <<g, owner, pkid, th, ci, nlab, out, post, ds>>

(* ---- get_clean_labels -------------------------------------------------- *)
\* the sequential loop `for i in range(len(labels))`
CountStep ==
    /\ phase = "count" /\ ci < g.n
    /\ IF pkid[ci] = ci
       THEN /\ pkid' = [pkid EXCEPT ![ci] = nlab]
            /\ nlab' = nlab + 1
       ELSE /\ pkid' = [pkid EXCEPT ![ci] = -pkid[ci]]
            /\ UNCHANGED nlab
    /\ ci' = ci + 1
    /\ UNCHANGED <<g, owner, flip, todo, nbad, th, phase, out, pk0, post, ds>>

CountEnd ==
    /\ phase = "count" /\ ci = g.n
    /\ phase' = "fix"
    /\ todo' = Nodes
    /\ UNCHANGED <<g, owner, pkid, flip, nbad, th, ci, nlab, out, pk0, post, ds>>

\* the prange fix-up: j = labels[i]; if j < 0: labels[i] = labels[-j]
FixGrab(t) ==
    /\ phase = "fix" /\ th[t].pc = "idle"
    /\ \E i \in todo :
          /\ todo' = todo \ {i}
          /\ th' = [th EXCEPT ![t] = [Idle EXCEPT !.pc = "f1", !.p = i]]
    /\ UNCHANGED <<g, owner, pkid, flip, nbad, phase, ci, nlab, out, pk0, post, ds>>

FixRead(t) ==
    /\ phase = "fix" /\ th[t].pc = "f1"
    /\ LET me == th[t] IN
       th' = [th EXCEPT ![t] = IF pkid[me.p] < 0 THEN [me EXCEPT !.pc = "f2", !.pi = pkid[me.p]] ELSE Idle]
    /\ UNCHANGED <<g, owner, pkid, flip, todo, nbad, phase, ci, nlab, out, pk0, post, ds>>

FixRead2(t) ==
    /\ phase = "fix" /\ th[t].pc = "f2"
    /\ LET me == th[t] IN
       th' = [th EXCEPT ![t] = [me EXCEPT !.pc = "f3", !.pj = pkid[-(me.pi)]]]
    /\ UNCHANGED <<g, owner, pkid, flip, todo, nbad, phase, ci, nlab, out, pk0, post, ds>>

FixWrite(t) ==
    /\ phase = "fix" /\ th[t].pc = "f3"
    /\ pkid' = [pkid EXCEPT ![th[t].p] = th[t].pj]
    /\ th' = [th EXCEPT ![t] = Idle]
    /\ UNCHANGED <<g, owner, flip, todo, nbad, phase, ci, nlab, out, pk0, post, ds>>

ZeroOut == [row \in 1..7 |-> [L \in 1..nlab |-> 0]]

FixEnd ==
    /\ phase = "fix" /\ todo = {} /\ AllIdle
    /\ phase' = "merge"
    /\ IF Bug = "pmerge"
       THEN todo' = Nodes /\ out' = [u |-> ZeroOut, s |-> ZeroOut]     \* out = np.zeros((7, nlabel))
       ELSE UNCHANGED <<todo, out>>
    /\ UNCHANGED <<g, owner, pkid, flip, nbad, th, ci, nlab, pk0, post, ds>>

(* ---- numbapkmerge (sequential) ----------------------------------------- *)
Merge ==
    /\ phase = "merge" /\ Bug # "pmerge"
    /\ out' = [u |-> MergeLoop(g.n, pkid, nlab, NoScale), s |-> MergeLoop(g.n, pkid, nlab, Direct)]
    /\ phase' = "done"
    /\ UNCHANGED <<g, owner, pkid, flip, todo, nbad, th, ci, nlab, pk0, post, ds>>

(* ---- Bug = "pmerge": the merge loop as a prange; out[r, j] += x is a load (of the column *)
(* ---- of label j, taken as one step) followed by a store                                  *)
Col(o, j) == [row \in 1..7 |-> o[row][j + 1]]
PutCol(o, j, c) == [row \in 1..7 |-> [o[row] EXCEPT ![j + 1] = c[row]]]

PMGrab(t) ==
    /\ phase = "merge" /\ Bug = "pmerge" /\ th[t].pc = "idle"
    /\ \E k \in todo :
          /\ todo' = todo \ {k}
          /\ th' = [th EXCEPT ![t] = [Idle EXCEPT !.pc = "m1", !.p = k]]
    /\ UNCHANGED <<g, owner, pkid, flip, nbad, phase, ci, nlab, out, pk0, post, ds>>

PMRead(t) ==
    /\ phase = "merge" /\ th[t].pc = "m1"
    /\ LET j == pkid[th[t].p] IN
       th' = [th EXCEPT ![t].pc = "m2", ![t].pi = <<Col(out.u, j), Col(out.s, j)>>]
    /\ UNCHANGED <<g, owner, pkid, flip, todo, nbad, phase, ci, nlab, out, pk0, post, ds>>

PMWrite(t) ==
    /\ phase = "merge" /\ th[t].pc = "m2"
    /\ LET k == th[t].p
           j == pkid[k]
           cu == [row \in 1..7 |-> th[t].pi[1][row] + Row(k, NoScale)[row]]
           cs == [row \in 1..7 |-> th[t].pi[2][row] + Row(k, Direct)[row]] IN
       out' = [u |-> PutCol(out.u, j, cu), s |-> PutCol(out.s, j, cs)]
    /\ th' = [th EXCEPT ![t] = Idle]
    /\ UNCHANGED <<g, owner, pkid, flip, todo, nbad, phase, ci, nlab, pk0, post, ds>>

PMEnd ==
    /\ phase = "merge" /\ Bug = "pmerge" /\ todo = {} /\ AllIdle
    /\ phase' = "done"
    /\ UNCHANGED <<g, owner, pkid, flip, todo, nbad, th, ci, nlab, out, pk0, post, ds>>

(* ---- what a user does with the labelled table (properties.py:343-563) --- *)
\* Each operation invalidates the merged table (pk2dmerge recomputes it from the labels the table
\* holds at that moment) and is followed by Merge.
CanOp == phase = "done" /\ Len(post.hist) < Hist /\ ~ds.open

\* find_uniq() again: the sweep loop restarts from arange(n); by Fixpoint / CleanOK (every schedule)
\* its result is the rank numbering, so the step is taken atomically here
RelabelNumba ==
    /\ CanOp /\ post.rc
    /\ pkid' = RankLabels
    /\ nlab' = Cardinality(Roots)
    /\ post' = [post EXCEPT !.hist = Append(@, "numba")]
    /\ phase' = "merge" /\ out' = <<>>
    /\ UNCHANGED <<g, owner, flip, todo, nbad, th, ci, pk0, ds>>

\* find_uniq(use_scipy=True): connected components numbered in scipy's own order
Bijections(S) == {f \in [S -> S] : \A a, b \in S : f[a] = f[b] => a = b}
RelabelScipy ==
    /\ CanOp /\ post.rc
    /\ \E f \in Bijections(0..(Cardinality(Roots) - 1)) :
          pkid' = [v \in Nodes |-> f[Rank(g.cmin[v])]]
    /\ nlab' = Cardinality(Roots)
    /\ post' = [post EXCEPT !.hist = Append(@, "scipy")]
    /\ phase' = "merge" /\ out' = <<>>
    /\ UNCHANGED <<g, owner, flip, todo, nbad, th, ci, pk0, ds>>

\* save(h5) then pks_table.load(h5): glabel, nlabel, pk_props, ipk, npk come back; rc does not
SaveLoad ==
    /\ CanOp
    /\ post' = [hist |-> Append(post.hist, "saveload"), rc |-> FALSE]
    /\ phase' = "merge" /\ out' = <<>>
    /\ UNCHANGED <<g, owner, pkid, flip, todo, nbad, th, ci, nlab, pk0, ds>>

\* pk2dmerge() once more on the same table (a new zeroed buffer per call)
Remerge ==
    /\ CanOp
    /\ post' = [post EXCEPT !.hist = Append(@, "merge")]
    /\ phase' = "merge" /\ out' = <<>>
    /\ UNCHANGED <<g, owner, pkid, flip, todo, nbad, th, ci, nlab, pk0, ds>>

(* ---- the labelled table seen through dataset.DataSet (dataset.py:665-700, 817-885, 985-1090) ---- *)
\* The table is saved (pks_table.save) and a DataSet is opened on the file.  The DataSet keeps three
\* caches: _peaks_table (pks_table.load, once), _pk2d and _pk4d (the 2D table / the merged table, made
\* on first use with scale_factor = monitor_ref / monitor when a monitor is set, else unscaled).
\* set_monitor reads the monitor, sets monitor_ref and calls reset_peaks_cache, which drops _pk2d and
\* _pk4d (two independent tests).  get_cf_2d / get_cf_4d (no column file on disk, or ignore_existing)
\* turn ds.pk2d / ds.pk4d into a columnfile: the same caches.  save() writes monitor and monitor_ref
\* with the other attributes; dataset.load() gives a new object (empty caches) holding them.
\* Each operation is appended to ds.hist as [op, arg, mon, ret]: mon = the monitor in force after the
\* operation, ret = the scale id of the table the operation returned (-1: it returns no table).
DsEntry(op, arg, mon, ret) == [op |-> op, arg |-> arg, mon |-> mon, ret |-> ret]
DsCan(op) == ds.open /\ ~ds.closed /\ Len(ds.hist) < DsHist /\ op \in DsOps
DsKeep == UNCHANGED <<g, owner, pkid, flip, todo, nbad, th, phase, ci, nlab, out, pk0, post>>

\* `if self._pk2d is None:` make it with the scale factors of the monitor in force; return the cache
Fill(c) == IF c = -1 THEN ds.mon ELSE c

\* reset_peaks_cache as written: `if self._pk2d is not None: self._pk2d = None` and then, independently,
\* `if self._pk4d is not None: self._pk4d = None`.  Bug = "elifcache": the second test made an elif of
\* the first (the merged table survives whenever a 2D table was cached)
AfterReset4 == IF Bug = "elifcache" /\ ds.c2 # -1 THEN ds.c4 ELSE -1

DsOpen ==
    /\ phase = "done" /\ DsHist > 0 /\ ~ds.open
    /\ ds' = [ds EXCEPT !.open = TRUE]
    /\ DsKeep

\* ds.pk2d (op = "pk2d") / ds.get_cf_2d() (op = "cf2d")
DsRead2(op) ==
    /\ DsCan(op) /\ op \in {"pk2d", "cf2d"}
    /\ LET c == Fill(ds.c2) IN
       ds' = [ds EXCEPT !.c2 = c, !.ct = TRUE, !.hist = Append(@, DsEntry(op, 0, ds.mon, c))]
    /\ DsKeep

\* ds.pk4d (op = "pk4d") / ds.get_cf_4d() (op = "cf4d")
DsRead4(op) ==
    /\ DsCan(op) /\ op \in {"pk4d", "cf4d"}
    /\ LET c == Fill(ds.c4) IN
       ds' = [ds EXCEPT !.c4 = c, !.ct = TRUE, !.hist = Append(@, DsEntry(op, 0, ds.mon, c))]
    /\ DsKeep

\* ds.peaks_table: the labels of the file
DsTable ==
    /\ DsCan("table")
    /\ ds' = [ds EXCEPT !.ct = TRUE, !.hist = Append(@, DsEntry("table", 0, ds.mon, -1))]
    /\ DsKeep

\* ds.set_monitor(name_m, ref_m)
DsSetMonitor(m) ==
    /\ DsCan("setmon") /\ m \in 1..NMon
    /\ ds' = [ds EXCEPT !.mon = m, !.c2 = -1, !.c4 = AfterReset4,
                         !.hist = Append(@, DsEntry("setmon", m, m, -1))]
    /\ DsKeep

\* ds.reset_peaks_cache()
DsReset ==
    /\ DsCan("reset")
    /\ ds' = [ds EXCEPT !.c2 = -1, !.c4 = AfterReset4, !.hist = Append(@, DsEntry("reset", 0, ds.mon, -1))]
    /\ DsKeep

\* ds.save(dsfile); ds = dataset.load(dsfile)
DsSaveLoad ==
    /\ DsCan("saveload")
    /\ ds' = [ds EXCEPT !.c2 = -1, !.c4 = -1, !.ct = FALSE,
                         !.hist = Append(@, DsEntry("saveload", 0, ds.mon, -1))]
    /\ DsKeep

\* every history is closed by ds.pk2d and ds.pk4d
DsClose ==
    /\ ds.open /\ ~ds.closed /\ Len(ds.hist) = DsHist
    /\ LET a == Fill(ds.c2)
           b == Fill(ds.c4) IN
       ds' = [ds EXCEPT !.c2 = a, !.c4 = b, !.ct = TRUE, !.closed = TRUE,
                        !.hist = @ \o << DsEntry("pk2d", 0, ds.mon, a), DsEntry("pk4d", 0, ds.mon, b) >>]
    /\ DsKeep

Next ==
    \/ \E t \in Threads : Grab(t) \/ Read1(t) \/ Read2(t) \/ Write1(t) \/ Write2(t)
    \/ EndSweep
    \/ CountStep \/ CountEnd
    \/ \E t \in Threads : FixGrab(t) \/ FixRead(t) \/ FixRead2(t) \/ FixWrite(t)
    \/ FixEnd
    \/ Merge
    \/ \E t \in Threads : PMGrab(t) \/ PMRead(t) \/ PMWrite(t)
    \/ PMEnd
    \/ RelabelNumba \/ RelabelScipy \/ SaveLoad \/ Remerge
    \/ DsOpen \/ DsTable \/ DsReset \/ DsSaveLoad \/ DsClose
    \/ \E op \in DsOps : DsRead2(op) \/ DsRead4(op)
    \/ \E m \in 1..NMon : DsSetMonitor(m)

Sym == Permutations(Threads)

Spec == Init /\ [][Next]_vars
FairSpec == Spec /\ WF_vars(Next)

----------------------------------------------------------------------------
(* invariants *)
PcSet == {"idle", "r1", "r2", "w1", "w2", "f1", "f2", "f3", "m1", "m2"}
TypeOK ==
    /\ g.n \in NSet /\ g.ne \in ESet
    /\ DOMAIN pkid = Nodes
    /\ flip \in {0, 1}
    /\ nbad \in 0..g.ne
    /\ phase \in {"sweep", "count", "fix", "merge", "done"}
    /\ \A t \in Threads : th[t].pc \in PcSet /\ th[t].ord \in 0..3
    /\ (phase = "sweep" => todo \subseteq 0..(g.ne - 1))
    /\ ci \in 0..g.n /\ nlab \in 0..g.n
    /\ post.rc \in BOOLEAN /\ Len(post.hist) <= Hist
    /\ \A k \in 1..Len(post.hist) : post.hist[k] \in {"numba", "scipy", "saveload", "merge"}
    /\ ds.open \in BOOLEAN /\ ds.closed \in BOOLEAN /\ ds.ct \in BOOLEAN
    /\ ds.mon \in 0..NMon /\ ds.c2 \in -1..NMon /\ ds.c4 \in -1..NMon
    /\ Len(ds.hist) <= DsHist + 2 /\ (ds.closed => Len(ds.hist) = DsHist + 2)
    /\ (~ds.open => ds = DsInit0) /\ (ds.open => phase = "done")
    /\ \A k \in 1..Len(ds.hist) :
          /\ ds.hist[k].op \in DsOps \cup {"pk2d", "pk4d"}
          /\ ds.hist[k].mon \in 0..NMon /\ ds.hist[k].ret \in -1..NMon
          /\ (ds.hist[k].ret # -1) <=> (ds.hist[k].op \in {"pk2d", "pk4d", "cf2d", "cf4d"})

InComp == phase = "sweep" =>
            \A v \in Nodes : pkid[v] \in Comp(v) /\ pkid[v] <= v

MinFixed == phase = "sweep" => \A r \in Roots : pkid[r] = r

LocalsOK == phase = "sweep" =>
    \A t \in Threads :
        th[t].pc \in {"w1", "w2"} =>
            /\ th[t].pi \in Comp(NodeI(t)) /\ th[t].pi <= NodeI(t)
            /\ th[t].pj \in Comp(NodeJ(t)) /\ th[t].pj <= NodeJ(t)
            /\ th[t].pi # th[t].pj

EdgesAgree == \A e \in 0..(g.ne - 1) : pkid[g.ei[e]] = pkid[g.ej[e]]

ZeroAgree == (SweepComplete /\ nbad = 0) => EdgesAgree

\* the state in which find_ND_labels leaves the while loop
Fixpoint == (phase = "count" /\ ci = 0) => (pkid = g.cmin /\ pkid[0] = 0)

FixReadsRoot == phase = "fix" =>
    \A t \in Threads :
        /\ th[t].pc \in {"f2", "f3"} => (th[t].pi < 0 /\ -(th[t].pi) \in Roots /\ -(th[t].pi) = g.cmin[th[t].p])
        /\ th[t].pc = "f3" => th[t].pj = Rank(g.cmin[th[t].p])

\* the numbering is the rank numbering unless scipy numbered the components last
LastLabelling ==
    LET ks == {k \in 1..Len(post.hist) : post.hist[k] \in {"numba", "scipy"}} IN
    IF ks = {} THEN "numba" ELSE post.hist[CHOOSE k \in ks : \A m \in ks : m <= k]

CleanOK == phase \in {"merge", "done"} =>
    /\ LastLabelling = "numba" => Ranked
    /\ nlab = Cardinality(Roots)
    /\ {pkid[v] : v \in Nodes} = 0..(nlab - 1)
    \* the statement of the property: same label <=> connected
    /\ \A u, v \in Nodes : (pkid[u] = pkid[v]) <=> (v \in Reach(g.n, g.ne, g.ei, g.ej, {u}))

MergeOK == phase = "done" =>
    /\ out.u = MergeDefL(pkid, nlab, NoScale)
    /\ out.s = MergeDefL(pkid, nlab, Direct)
    /\ Ranked => (out.u = MergeDef(NoScale) /\ out.s = MergeDef(Direct))
    \* numbering-free: the row of the label of root r holds the sums over r's component
    /\ \A r \in Roots : \A row \in 1..7 :
          /\ out.u[row][pkid[r] + 1] = SumSet(Comp(r), [k \in Comp(r) |-> RowVal(k, NoScale, row)])
          /\ out.s[row][pkid[r] + 1] = SumSet(Comp(r), [k \in Comp(r) |-> RowVal(k, Direct, row)])
    /\ ~Neg => \A L \in 1..nlab : out.u[2][L] > 0 /\ out.s[2][L] > 0
    \* the means: row / total weight is sum(w x) / sum(w) over the members whenever the total weight is
    \* not 0 - for weights of ANY sign (compared by cross multiplication; nothing is claimed for total 0)
    /\ \A r \in Roots : \A row \in 3..6 :
          /\ WMeanIs(out.u[row][pkid[r] + 1], out.u[2][pkid[r] + 1], Comp(r), NoScale, row)
          /\ WMeanIs(out.s[row][pkid[r] + 1], out.s[2][pkid[r] + 1], Comp(r), Direct, row)

\* the 2D table: sum_intensity of 2D peak k is sI * scale factor of its frame (numerator over SDen, or
\* over 1 for NoScale); spot3d_id is the label the table holds
Pk2dOf(sid) == [k \in Nodes |-> <<SI(k) * ScN(sid, FRM(k)), pkid[k]>>]

\* a cached table was made with the scale factors in force NOW (what set_monitor / reset_peaks_cache
\* are there for)
DsCacheOK == ds.c2 \in {-1, ds.mon} /\ ds.c4 \in {-1, ds.mon}

\* THE LAW of the DataSet route: whatever was done before, every table read - ds.pk2d, ds.pk4d,
\* get_cf_2d, get_cf_4d - is the table of the CURRENT labels with the CURRENT scale factors: the merge
\* loop run with the scale id the operation returned (ret) gives the sums over the members of every
\* label weighted with the scale factors of the monitor in force at that moment (mon); the 2D table
\* carries them likewise
DsLaw == \A k \in 1..Len(ds.hist) :
    LET e == ds.hist[k] IN
    /\ e.op \in {"pk4d", "cf4d"} =>
          /\ MergeLoop(g.n, pkid, nlab, e.ret) = MergeDefL(pkid, nlab, e.mon)
          /\ \A r \in Roots : \A row \in 1..7 :
                MergeLoop(g.n, pkid, nlab, e.ret)[row][pkid[r] + 1]
                   = SumSet(Comp(r), [v \in Comp(r) |-> RowVal(v, e.mon, row)])
    /\ e.op \in {"pk2d", "cf2d"} => Pk2dOf(e.ret) = Pk2dOf(e.mon)

SweepLegal == (History /\ SweepComplete) =>
    LegalSweepClause(g.n, g.ne, g.cmin, pk0, pkid, nbad) = "ok"

SeqExact == (History /\ SweepComplete /\ Cardinality(Threads) = 1 /\ OrdSet = {0}) =>
    <<pkid, nbad>> = SeqSweep(g.ne, g.ei, g.ej, pk0, flip)

Termination == <>(phase = "done")

\* NOT a property of the model: a store of a stale minimum can RAISE a label that another thread
\* has lowered in between (the lost update the source comment worries about).  Configuration
\* LabelND_lost.cfg expects TLC to refute this, which witnesses that the race is in the model
\* (so the invariants above are not vacuous about it).
NeverRaises == [][(phase = "sweep" /\ phase' = "sweep") => \A v \in Nodes : pkid'[v] <= pkid[v]]_vars

\* one JSON record per terminal state (the terminal state is unique per instance
\* because the result is schedule independent and thread locals are reset)
\* rows listed in the order of the component minima, whatever the numbering
RootSeq == [k \in 1..Cardinality(Roots) |-> CHOOSE r \in Roots : Rank(r) = k - 1]
Rows(o) == [row \in 1..7 |-> [k \in 1..Cardinality(Roots) |-> o[row][pkid[RootSeq[k]] + 1]]]
EmitInv ==
    (DoEmit /\ phase = "done" /\ ~ds.open) =>
        PrintT("@@" \o ToJson(
            [n |-> g.n, ne |-> g.ne,
             ei |-> Seq0(g.ei, g.ne), ej |-> Seq0(g.ej, g.ne),
             cmin |-> Seq0(g.cmin, g.n),
             nlabel |-> nlab, labels |-> Seq0(pkid, g.n),
             hist |-> post.hist, ranked |-> Ranked, neg |-> Neg,
             props |-> << [k \in 1..g.n |-> S1(k-1)], [k \in 1..g.n |-> SI(k-1)],
                          [k \in 1..g.n |-> SR(k-1)], [k \in 1..g.n |-> SC(k-1)],
                          [k \in 1..g.n |-> FRM(k-1)] >>,
             omega |-> [f \in 1..NF |-> OM(f-1)], dty |-> [f \in 1..NF |-> DTY(f-1)],
             scalenum |-> [f \in 1..NF |-> SCN(f-1)], scaleden |-> SDen,
             outu |-> Rows(out.u), outs |-> Rows(out.s)]))

\* one JSON record per closed DataSet history: the instance, the labels of the file, the operations with
\* the monitor in force after each, and for every monitor (position m+1 = monitor m, 0 = none) the
\* merged rows the law asks for
EmitDs ==
    (DoEmit /\ ds.closed) =>
        PrintT("@@" \o ToJson(
            [n |-> g.n, ne |-> g.ne,
             ei |-> Seq0(g.ei, g.ne), ej |-> Seq0(g.ej, g.ne),
             cmin |-> Seq0(g.cmin, g.n),
             nlabel |-> nlab, labels |-> Seq0(pkid, g.n),
             hist |-> post.hist, dshist |-> ds.hist, neg |-> Neg,
             props |-> << [k \in 1..g.n |-> S1(k-1)], [k \in 1..g.n |-> SI(k-1)],
                          [k \in 1..g.n |-> SR(k-1)], [k \in 1..g.n |-> SC(k-1)],
                          [k \in 1..g.n |-> FRM(k-1)] >>,
             omega |-> [f \in 1..NF |-> OM(f-1)], dty |-> [f \in 1..NF |-> DTY(f-1)],
             scaleden |-> SDen, monscaleden |-> [m \in 1..(NMon + 1) |-> IF m = 1 THEN 1 ELSE SDen],
             monitor |-> [m \in 1..NMon |-> MONV(m)], monref |-> [m \in 1..NMon |-> REFV(m)],
             monscale |-> [m \in 1..(NMon + 1) |-> [f \in 1..NF |-> ScN(m - 1, f - 1)]],
             outm |-> [m \in 1..(NMon + 1) |-> Rows(MergeLoop(g.n, pkid, nlab, m - 1))]]))

=============================================================================

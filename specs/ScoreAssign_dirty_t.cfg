SPECIFICATION Spec
CONSTANTS
  G = 3
  R = 3
  K = 2
  E = 3
  N = 0
  LInitU = TRUE
  LInitNN = {0, 1}
  DInit = {3}
  EmitOn = TRUE
INVARIANT ClosedForm
INVARIANT Counts
INVARIANT Represent
INVARIANT BestGrain
INVARIANT Unassigned
INVARIANT StoredError
INVARIANT ReturnedCounts
INVARIANT Histogram
INVARIANT Sane
INVARIANT OrderIndependent
INVARIANT Emit
CHECK_DEADLOCK FALSE

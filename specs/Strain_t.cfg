\* Strain.tla, thorough tier: 11 references x 77 stretches x 18 rotations = 15246 cases, 214303 states (exhaustive)
SPECIFICATION Spec
CONSTANTS
  REFS <- RefsT
  STRETCHES <- StretchT
  ROTS <- RotsT
  OBJROTS <- ObjRots
  OBJU0 <- ObjU0
  OBJU0R <- ObjU0R
INVARIANT RefLatticeOK
INVARIANT PolarOK
INVARIANT RefIsSethHill
INVARIANT RefSym
INVARIANT LabIsRotatedRef
INVARIANT Objectivity
INVARIANT LabObjectivity
INVARIANT ZeroIff
INVARIANT FirstOrder
INVARIANT Emit
CHECK_DEADLOCK FALSE

\* Strain.tla, machine Spec, thorough tier: 11 references x 77 stretches x 20 rotations = 16940 cases, 238019 states (exhaustive)
SPECIFICATION Spec
CONSTANTS
  REFS <- RefsT
  STRETCHES <- StretchT
  ROTS <- RotsT
  OBJROTS <- ObjRots
  OBJU0 <- ObjU0
  OBJU0R <- ObjU0R
  HKINDS <- HKindsAll
  HREFS <- HRefsQ
  HSTRETCHES <- HStretchQ
  HROTS <- HRotsQ
  HU0R <- HU0RAll
  HSCALES <- HScalesAll
  MTOUCHES <- MTouchAll
  MFAILS <- MFailNone
  GFAILS <- MFailNone
  HLEN = 2
  PHASEDICTS <- PhaseDicts
  NVER = 2
  MLEN = 2
INVARIANT RefLatticeOK
INVARIANT PolarOK
INVARIANT RefIsSethHill
INVARIANT RefSym
INVARIANT LabIsRotatedRef
INVARIANT Objectivity
INVARIANT LabObjectivity
INVARIANT ZeroIff
INVARIANT FirstOrder
INVARIANT Emit
CHECK_DEADLOCK FALSE

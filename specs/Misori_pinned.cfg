\* the formulas of the pinned tree: both branches of misori_tetragonal are taken, the cubic kernel agrees
\* with the scan, PinnedExplained says what the other three compute instead.  (The three kernels that
\* disagree: Misori_pinned_tet / _ort / _mon.cfg.)
SPECIFICATION Spec
CONSTANTS
  QMax1 = 1
  EAng1 <- EA_one
  QMax2 = 1
  EAng2 <- EA_two
  Kernels = "pinned"
INVARIANT TypeOK
INVARIANT ROk
INVARIANT ScanLoopInv
INVARIANT ScanIsMax
INVARIANT Symmetric
INVARIANT GroupInvariant
INVARIANT FrameInvariant
INVARIANT ZeroIffOrbit
INVARIANT Chain
INVARIANT FundZone
INVARIANT CubicAgrees
INVARIANT PinnedExplained
INVARIANT Emit
CHECK_DEADLOCK FALSE

\* the list law has teeth: the block-wise variant of find_uniq_hkls (blocks of BlockSize = 2 columns, n // 2 whole
\* blocks, the trailing n % 2 columns never visited) returns the third column of a list of three unreduced:
\* ListColumnwise is expected to be VIOLATED (so are ListPositionFree and ListIsMap); lists of 1 and 2 columns are
\* reduced exactly as by the code as written - the defect needs a length beyond the block size that is not a multiple
SPECIFICATION Spec
CONSTANTS
  Names = {"tetragonal"}
  QMax = 1
  HMax = 1
  MaxCalls = 1
  DoScan = TRUE
  TrigonalFixed = TRUE
  BigHkls = {}
  BlockSize = 2
  ListMax = 3
  ListPool = {{1001, 10998, 21003}, {998, 11003, 21001}}
  ListSizes = {3}
  ConcPairs = {}
  CoarseNames = {}
  Stride = 1
  PublishEarly = FALSE
INVARIANT TypeOK
INVARIANT InOrbit
INVARIANT HklCanonical
INVARIANT ListColumnwise
CHECK_DEADLOCK FALSE

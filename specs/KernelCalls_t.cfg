SPECIFICATION Spec
CONSTANTS
  Thorough = TRUE
  EmitOn = TRUE
INVARIANT TypeOK
INVARIANT WellFormedInv
INVARIANT PartitionInv
INVARIANT ThreadInv
INVARIANT OptionInv
INVARIANT ValueInv
INVARIANT WrapperInv
INVARIANT Emit
INVARIANT EmitInterface
CHECK_DEADLOCK FALSE

SPECIFICATION Spec
CONSTANTS
  Thorough = TRUE
  EmitOn = TRUE
INVARIANT TypeOK
INVARIANT WellFormedInv
INVARIANT Emit
INVARIANT EmitInterface
CHECK_DEADLOCK FALSE

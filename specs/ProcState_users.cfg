\* X07: emits the table of thread-count users for the AST scan
SPECIFICATION Spec
CONSTANTS
  EnvOmp = {0}
  Cores = {2}
  Slurm = {0}
  PutVals = {}
  SetVals = {}
  NbVals = {}
  Starts = {}
  Hows = {}
  POps = {}
  COps = {}
  NW = 0
  MaxDepth = 0
  BUG_INHERIT = TRUE
  BUG_NBRESET = TRUE
  EmitMode = 0
INVARIANT EmitUsers
VIEW View
CHECK_DEADLOCK FALSE

SPECIFICATION Spec
CONSTANTS
  NS = 2
  NF = 3
  Vals = {1, 2}
  MaxFrames = 3
  Cap1 = 3
  Cap2 = 3
  Cap3 = 3
  Thr = 1
  Stages = {1, 3, 4, 6}
  BlobStages = {1, 6}
  SubRanges = FALSE
  MotorCfgs = {36}
  FIXED = TRUE
INVARIANT InBounds
INVARIANT PtrOK
INVARIANT LoadOK
INVARIANT GetOK
INVARIANT CpLabelsOK
INVARIANT SmoothOK
INVARIANT LmLabelsOK
INVARIANT CountsOK
INVARIANT MomentsTotal
INVARIANT MomentsOK
INVARIANT BlobOK
INVARIANT Emit
CHECK_DEADLOCK FALSE

SPECIFICATION Spec
CONSTANTS
  MS <- MS_t
  DS <- DS_t
  TOLS <- TOLS_std
  POOL <- POOL_std
  MAXPK = 4
  SCALES <- SCALES_unit
  LABS <- LABS_t
  NBAD = 0
  UBADS <- UBADS_none
INVARIANT HSym
INVARIANT CountOK
INVARIANT CauchyBinet
INVARIANT StrictBoundary
INVARIANT ScoreDef
INVARIANT Covariant
INVARIANT FixedPoint
INVARIANT SubList
INVARIANT Emit
CHECK_DEADLOCK FALSE

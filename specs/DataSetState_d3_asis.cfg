\* laws not tied to a BUG_ flag, depth 3, model of the pinned code
SPECIFICATION Spec
CONSTANTS
  MaxDepth = 3
  DsNames = {"R180", "F2D", "E360"}
  StartForms = {"imported", "saved", "cached"}
  EmitMode = 3
  BUG_SINOHIST = TRUE
  BUG_LOAD360 = TRUE
  BUG_YSTEP = TRUE
  BUG_BADSCAN = TRUE
  BUG_SAVEDEF = TRUE
  BUG_SAVESHAPE = TRUE
  BUG_STALEBINS = TRUE
  BUG_COMPARE = TRUE
INVARIANT TypeOK
INVARIANT RoundTripPinned
INVARIANT CacheNoMix
PROPERTY PathsKept
PROPERTY MonitorResets
PROPERTY DiskFrame
PROPERTY WellFormedAfter
VIEW View
CHECK_DEADLOCK FALSE

---------------------------- MODULE LocalMaxScan ----------------------------
(***************************************************************************)
(* SparseScan.lmlabel(threshold = 0, countall = True, smooth = True)       *)
(* (ImageD11/sparseframe.py:318-363) as a FUNCTION OF ITS ARGUMENTS AND OF *)
(* THE SIGN / ZERO CLASS OF THE STORED VALUES: the clause "every stored    *)
(* sparse pixel receives the label of its local maximum, labels 1..n, the  *)
(* number of labels equals the number of local maxima" of C13 on the scan  *)
(* route.  (What the kernels do statement by statement is the business of  *)
(* LocalMax.tla / SparseScan.tla, whose grey levels are small POSITIVE     *)
(* integers; here the meaning is stated directly and the real class is     *)
(* bound by outcomes, harness/c13_scan.py.)                                *)
(*                                                                         *)
(* A frame is a function from the set of its STORED pixels (a subset of    *)
(* the NS x NF grid, at most MAXPIX of them) to the model's grey levels     *)
(* 1..LEVELS.  A scan is <<f, no pixels, Mirror(f)>> (a frame, an empty    *)
(* frame, the point-reflected frame with reversed levels: other maxima,     *)
(* another count).  The values written to the file are an ORDER PRESERVING  *)
(* map v |-> a v - b of the levels (constant MAPS, pairs <<a, b>>, a > 0):  *)
(* identity, v - 2 (negative, an exact 0, positive), v - 3 = -(3 - v)       *)
(* (negative with the maximum level at 0), v - 4 (all negative), 2v - 4,    *)
(* 3v - 5 ...                                                              *)
(*                                                                         *)
(*   signal   smooth = FALSE: the stored value; smooth = TRUE: the 4/2/1   *)
(*            weighted sum over the STORED pixels of the 3x3 block, / 16   *)
(*            (pixels that are not stored contribute nothing - so with     *)
(*            negative values smoothing is NOT covariant under the maps    *)
(*            and is evaluated map by map).  Kept 16-fold: integers.       *)
(*   labels   every stored pixel climbs to the largest stored signal of    *)
(*            its 3x3 block until it stays; maxima are numbered 1..n in    *)
(*            raster order; countall = TRUE adds the number of maxima of   *)
(*            all earlier frames, FALSE starts every frame at 1.           *)
(*   threshold  THRESHOLD = "ignored": the argument has no effect (the     *)
(*            property: EVERY stored pixel is labelled by its maximum,     *)
(*            there is no background class in the local-maximum variant).  *)
(*            THRESHOLD = "cut": the variant "like cplabel" in which       *)
(*            pixels with signal <= threshold get label 0 - TLC: AllLabelled*)
(*            violated (vacuity configuration LocalMaxScan_cut.cfg).       *)
(*                                                                         *)
(* Constants  NS, NF, LEVELS, MAXPIX, MAPS, THRS (threshold values the     *)
(*            harness passes besides the default call), THRESHOLD, EmitOn  *)
(* Variables  fr (the frame), map (the value map); no actions: every       *)
(*            initial state is one case.                                   *)
(* Invariants (judged where every stored 3x3 block has a unique largest    *)
(*            signal: ties are implementation defined)                     *)
(*   AllLabelled  for every threshold in THRS, countall, smooth and frame: *)
(*            the labels of the stored pixels are exactly off+1 .. off+n,  *)
(*            n = number of local maxima, and two pixels share a label iff *)
(*            they climb to the same maximum                               *)
(*   MapCovariant  smooth = FALSE: the labels under `map` are those under  *)
(*            the identity (only comparisons matter)                       *)
(*   Emit     one JSON line per case: level grids, the map, 16 x signal    *)
(*            grids, label grids for smooth x countall, counts, tie flags, *)
(*            THRS.  The harness writes the scan group with several dtypes *)
(*            (float32, int32, float64, int16, int64; uint16 when no value *)
(*            is negative), calls lmlabel with the default arguments, with *)
(*            every threshold of THRS (keyword and positional, int and     *)
(*            float) and every smooth x countall, and compares signal,     *)
(*            labels, nlabels, total_labels.                               *)
(* Bounds: quick 2x3, <= 3 stored pixels, 3 levels, 6 maps (694 frames x   *)
(* 6); thorough 3x3 with <= 3 and 2x3 with <= 4 stored pixels, 4 levels.   *)
(***************************************************************************)
EXTENDS Integers, Sequences, FiniteSets, TLC, Json
CONSTANTS NS, NF, LEVELS, MAXPIX, MAPS, THRS, THRESHOLD, EmitOn
ASSUME THRESHOLD \in {"ignored", "cut"}
\* value maps <<a, b>> : v |-> a v - b  (a .cfg cannot hold tuples: MAPS <- MAPS_q)
MAPS_q == {<<1, 0>>, <<1, 2>>, <<1, 3>>, <<1, 4>>, <<2, 4>>, <<3, 5>>}
MAPS_t == MAPS_q \cup {<<1, 1>>, <<2, 5>>, <<5, 10>>}
MAPS_cut == {<<1, 0>>, <<1, 2>>}
THRS_q == {-2, 0, 1}

N == NS * NF
Px == 0..(N - 1)
Row(p) == p \div NF
Col(p) == p % NF
Abs(x) == IF x < 0 THEN -x ELSE x
Adj(p, q) == Abs(Row(p) - Row(q)) <= 1 /\ Abs(Col(p) - Col(q)) <= 1
W(p, q) == IF p = q THEN 4 ELSE IF Row(p) = Row(q) \/ Col(p) = Col(q) THEN 2 ELSE 1

Frames == UNION {[L -> 1..LEVELS] : L \in {S \in SUBSET Px : Cardinality(S) <= MAXPIX}}
Mirror(f) == [p \in {N - 1 - q : q \in DOMAIN f} |-> LEVELS + 1 - f[N - 1 - p]]
NoPixels == [p \in {} |-> 0]

VARIABLES fr, map
vars == <<fr, map>>
Init == fr \in Frames /\ map \in MAPS
Next == UNCHANGED vars
Spec == Init /\ [][Next]_vars

Scan == <<fr, NoPixels, Mirror(fr)>>
MapV(m, v) == m[1] * v - m[2]

\* 16 x signal of the stored pixel p of frame f under the map m
Sig16(f, m, sm, p) ==
    IF ~sm THEN 16 * MapV(m, f[p])
    ELSE LET F[k \in -1..(N - 1)] == IF k = -1 THEN 0
                                     ELSE F[k - 1] + (IF k \in DOMAIN f /\ Adj(p, k) THEN W(p, k) * MapV(m, f[k]) ELSE 0)
         IN F[N - 1]

\* ---- the property, stated directly ---------------------------------------------------------
Nb(f, p) == {q \in DOMAIN f : Adj(p, q)}
RECURSIVE Iter(_, _, _)
Iter(up, p, k) == IF k = 0 THEN p ELSE Iter(up, up[p], k - 1)
\* one frame: signal, tie flag, the maximum every stored pixel climbs to, labels 1..n in raster order of the maxima
\* (a climb visits distinct stored pixels: at most MAXPIX - 1 steps; with a tie `up` is arbitrary and nothing is judged)
FrameRes(f, m, sm) ==
    LET sig == TLCEval([p \in DOMAIN f |-> Sig16(f, m, sm, p)])
        tops == TLCEval([p \in DOMAIN f |-> {q \in Nb(f, p) : \A x \in Nb(f, p) : sig[q] >= sig[x]}])
        up == TLCEval([p \in DOMAIN f |-> CHOOSE q \in tops[p] : TRUE])
        term == TLCEval([p \in DOMAIN f |-> Iter(up, p, MAXPIX)])
        maxima == TLCEval({p \in DOMAIN f : up[p] = p})
    IN [sig |-> sig, tf |-> \A p \in DOMAIN f : Cardinality(tops[p]) = 1, term |-> term, n |-> Cardinality(maxima),
        lab |-> TLCEval([p \in DOMAIN f |-> Cardinality({x \in maxima : x <= term[p]})])]
\* (TLCEval: TLC would otherwise re-evaluate a function's body at every application)
ScanRes(m, sm) == TLCEval([i \in 1..Len(Scan) |-> FrameRes(Scan[i], m, sm)])
ScanTieFree(R) == \A i \in 1..Len(Scan) : R[i].tf
Offset(R, ca, i) == IF ~ca THEN 0 ELSE LET F[k \in 0..Len(Scan)] == IF k = 0 THEN 0 ELSE F[k - 1] + R[k].n IN F[i - 1]
\* what lmlabel leaves in scan.labels for the stored pixel p of frame i
Result(R, ca, thr, i, p) ==
    IF THRESHOLD = "cut" /\ R[i].sig[p] <= 16 * thr THEN 0 ELSE R[i].lab[p] + Offset(R, ca, i)

AllLabelled ==
    \A sm \in BOOLEAN :
       LET R == ScanRes(map, sm) IN
       ScanTieFree(R) =>
          \A ca \in BOOLEAN, thr \in THRS, i \in 1..Len(Scan) :
             LET f == Scan[i]
                 off == Offset(R, ca, i)
                 res == TLCEval([p \in DOMAIN f |-> Result(R, ca, thr, i, p)])
             IN /\ {res[p] : p \in DOMAIN f} = (off + 1)..(off + R[i].n)
                /\ \A p \in DOMAIN f, q \in DOMAIN f : (res[p] = res[q]) <=> (R[i].term[p] = R[i].term[q])
MapCovariant ==
    LET A == TLCEval(FrameRes(fr, <<1, 0>>, FALSE))  B == TLCEval(FrameRes(fr, map, FALSE))
    IN A.tf => (B.tf /\ B.lab = A.lab)

\* ---- cases for the harness -------------------------------------------------------------------
Grid(f, g) == [k \in 1..N |-> IF (k - 1) \in DOMAIN f THEN g[k - 1] ELSE 0]
LabGrids(R, ca) == IF ~ScanTieFree(R) THEN <<>>
                   ELSE [i \in 1..Len(Scan) |-> LET o == Offset(R, ca, i) IN Grid(Scan[i], [p \in DOMAIN Scan[i] |-> R[i].lab[p] + o])]
Counts(R) == IF ~ScanTieFree(R) THEN <<>> ELSE [i \in 1..Len(Scan) |-> R[i].n]
SigGrids(R) == [i \in 1..Len(Scan) |-> Grid(Scan[i], R[i].sig)]
LevGrids == [i \in 1..Len(Scan) |-> Grid(Scan[i], Scan[i])]
RECURSIVE AscSeq(_)
AscSeq(S) == IF S = {} THEN <<>> ELSE LET x == CHOOSE y \in S : \A z \in S : y <= z IN <<x>> \o AscSeq(S \ {x})
Emit == EmitOn =>
          LET R0 == ScanRes(map, FALSE)  R1 == ScanRes(map, TRUE) IN
          PrintT("@@" \o ToJson([ns |-> NS, nf |-> NF, a |-> map[1], b |-> map[2], lev |-> LevGrids,
                                 sig_raw |-> SigGrids(R0), sig_sm |-> SigGrids(R1),
                                 tf_raw |-> IF ScanTieFree(R0) THEN 1 ELSE 0, tf_sm |-> IF ScanTieFree(R1) THEN 1 ELSE 0,
                                 raw_all |-> LabGrids(R0, TRUE), raw_each |-> LabGrids(R0, FALSE),
                                 sm_all |-> LabGrids(R1, TRUE), sm_each |-> LabGrids(R1, FALSE),
                                 n_raw |-> Counts(R0), n_sm |-> Counts(R1), thrs |-> AscSeq(THRS)]))
=============================================================================

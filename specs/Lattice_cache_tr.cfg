SPECIFICATION Spec
CONSTANTS
  PART = "cache"
  CELLS <- CELLS_q
  GENS <- GENS_q
  ROTS <- ROTS_id
  MaxDepth = 8
  FORGET = {}
  NOCOPY = {}
  OBJ = "grain"
  ALIASARG = FALSE
  SAMEKEEP = FALSE
  UNWRITTEN = {}
  EmitMode = 1
INVARIANT Coherent
INVARIANT ReadFresh
INVARIANT DepClosed
INVARIANT CacheType
INVARIANT UbiOwn
ACTION_CONSTRAINT EmitTransition
VIEW View
CHECK_DEADLOCK FALSE

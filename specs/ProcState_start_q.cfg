\* X07 quick: start methods x launch contexts x check_multiprocessing
SPECIFICATION Spec
CONSTANTS
  EnvOmp = {0}
  Cores = {2}
  Slurm = {0}
  PutVals = {}
  SetVals = {}
  NbVals = {}
  Starts = {"fork", "forkserver"}
  Hows = {"default", "spawn"}
  POps = {"setstart", "import", "checkmp", "launch"}
  COps = {"import"}
  NW = 0
  MaxDepth = 3
  BUG_INHERIT = TRUE
  BUG_NBRESET = TRUE
  EmitMode = 1
INVARIANT TypeOK
INVARIANT RegPositive
INVARIANT SafeNeverStuck
INVARIANT StopBound
INVARIANT LateNoWork
PROPERTY SetGet
PROPERTY WarnRule
PROPERTY PatchSafe
PROPERTY OneThreadNeverStuck
PROPERTY Restore
PROPERTY StopSticky
PROPERTY DoneIsFinal
PROPERTY RaiseStops
PROPERTY FlagPerProcess
PROPERTY PbpOneThread
ACTION_CONSTRAINT EmitTransition
VIEW View
CHECK_DEADLOCK FALSE

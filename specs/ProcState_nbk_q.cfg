\* X07 quick: array_bin / array_lt in parent and fork child (compiled by numba at first call: few behaviours)
SPECIFICATION Spec
CONSTANTS
  EnvOmp = {0}
  Cores = {2}
  Slurm = {0}
  PutVals = {}
  SetVals = {}
  NbVals = {}
  Starts = {}
  Hows = {"fork"}
  POps = {"import", "nbkernel", "launch"}
  COps = {"nbkernel"}
  NW = 0
  MaxDepth = 4
  BUG_INHERIT = TRUE
  BUG_NBRESET = TRUE
  EmitMode = 1
INVARIANT TypeOK
INVARIANT RegPositive
INVARIANT SafeNeverStuck
INVARIANT StopBound
INVARIANT LateNoWork
PROPERTY SetGet
PROPERTY WarnRule
PROPERTY PatchSafe
PROPERTY OneThreadNeverStuck
PROPERTY Restore
PROPERTY StopSticky
PROPERTY DoneIsFinal
PROPERTY RaiseStops
PROPERTY FlagPerProcess
PROPERTY PbpOneThread
ACTION_CONSTRAINT EmitTransition
CONSTRAINT NbkShape
VIEW View
CHECK_DEADLOCK FALSE

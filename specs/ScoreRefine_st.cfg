SPECIFICATION Spec
CONSTANTS
  MS <- MS_t
  DS <- DS_s
  TOLS <- TOLS_std
  POOL <- POOL_s
  MAXPK = 3
  SCALES <- SCALES_t
  LABS <- LABS_st
  NBAD = 0
  UBADS <- UBADS_none
INVARIANT HSym
INVARIANT CountOK
INVARIANT CauchyBinet
INVARIANT StrictBoundary
INVARIANT ScoreDef
INVARIANT Covariant
INVARIANT FixedPoint
INVARIANT SubList
INVARIANT Emit
CHECK_DEADLOCK FALSE

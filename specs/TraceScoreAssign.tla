-------------------------- MODULE TraceScoreAssign --------------------------
(***************************************************************************)
(* Trace validation (code -> spec) for competing assignment, C07.          *)
(* Every line of TRACE_FILE is one recorded run of the real                *)
(* score_and_assign kernel, called directly or through one of its callers  *)
(* (indexer.fight_over_peaks, indexer.getind, refinegrains.assignlabels,   *)
(* nb_utils.assign_peaks_to_grains: the harness maps each route's label    *)
(* numbering to 1..G, -1 = unassigned, 0 = any other value):               *)
(*   id, G (labels 1..G), R (rows = UBI versions, R >= G), K, E,           *)
(*   rowlabel[r] label under which row r is presented                      *)
(*   err[r][k]   per-peak dense rank of the harness's own reference error  *)
(*               |UBI_r.g_k - round|^2 (g_k recomputed for the grain's     *)
(*               position on the assignlabels route) among the errors of   *)
(*               peak k, E if not strictly below the row's tol^2 (a peak   *)
(*               with a non-finite g-vector - NaN / inf component - has no *)
(*               error below any tolerance: E on every row)                *)
(*   lab0[k]     content of the labels buffer before the first call        *)
(*               (drlv2 starts at E = "the caller's 1.0 / 2.0")            *)
(*   ev[i]       kind "call": [row, n, obs, labels[k], dr[k]] = row        *)
(*               presented, returned count (-1: not judged, the verdict    *)
(*               reports the model's counts `ns` and the harness sums them *)
(*               over the blocks of a larger run), obs = 1 if the buffers  *)
(*               after the call were observable (0 inside a caller: the    *)
(*               step is applied, nothing is compared), labels, rank of    *)
(*               the stored error (E = initial, -2 = no reference error)   *)
(*               kind "reset": the caller re-initialises drlv2 (:= E) and  *)
(*               KEEPS the labels buffer (a second pass over stale labels) *)
(*   hist[g]     per-grain counts reported by the route (<<>> = none)      *)
(* Each call must be exactly the step ScoreAssign.tla's                    *)
(* Call;(TakeP|ReleaseP|LeaveP)*;Return produces from the current state    *)
(* (peaks are independent, so the composite step is deterministic); when   *)
(* the calls since the last reset (or the start) present every label       *)
(* exactly once - a fresh single pass - the final state must satisfy       *)
(* BestGrain / Unassigned / StoredError / Histogram, whatever the labels   *)
(* buffer held before the pass.                                            *)
(* One verdict line per trace, naming the first failing clause.            *)
(***************************************************************************)
EXTENDS Integers, Sequences, FiniteSets, TLC, Json, IOUtils

Trace == ndJsonDeserialize(IOEnv.TRACE_FILE)

VARIABLES t, e, labels, drlv2, why, ns, seg, seglab
vars == <<t, e, labels, drlv2, why, ns, seg, seglab>>

Rec == Trace[t]
InitLabels(r) == [k \in 1..r.K |-> r.lab0[k]]
InitDr(r) == [k \in 1..r.K |-> r.E]

Init == /\ t = 1 /\ e = 0 /\ why = "ok" /\ ns = <<>> /\ seg = <<>>
        /\ labels = IF Len(Trace) > 0 THEN InitLabels(Trace[1]) ELSE <<>>
        /\ seglab = labels
        /\ drlv2 = IF Len(Trace) > 0 THEN InitDr(Trace[1]) ELSE <<>>

\* the composite step of ScoreAssign.tla for row w presented under label g
Take(r, w, k) == r.err[w][k] < r.E /\ r.err[w][k] < drlv2[k]
StepLabels(r, w, g) == [k \in 1..r.K |-> IF Take(r, w, k) THEN g ELSE IF labels[k] = g THEN -1 ELSE labels[k]]
StepDr(r, w) == [k \in 1..r.K |-> IF Take(r, w, k) THEN r.err[w][k] ELSE drlv2[k]]
StepN(r, w) == Cardinality({k \in 1..r.K : Take(r, w, k)})

CallEvent == /\ t <= Len(Trace) /\ e < Len(Rec.ev) /\ why = "ok" /\ Rec.ev[e + 1].kind = "call"
             /\ LET r == Rec  v == r.ev[e + 1]  w == v.row  g == r.rowlabel[w]
                IN /\ labels' = StepLabels(r, w, g)
                   /\ drlv2' = StepDr(r, w)
                   /\ ns' = Append(ns, StepN(r, w))
                   /\ seg' = Append(seg, w)
                   /\ why' = IF v.n # -1 /\ v.n # ns'[Len(ns')] THEN "returned count differs from the specification's step"
                             ELSE IF v.obs = 0 THEN "ok"
                             ELSE IF \E k \in 1..r.K : v.labels[k] # labels'[k] THEN "labels after the call differ from the specification's step"
                             ELSE IF \E k \in 1..r.K : v.dr[k] # drlv2'[k] THEN "stored errors after the call differ from the specification's step"
                             ELSE "ok"
             /\ e' = e + 1 /\ UNCHANGED <<t, seglab>>

ResetEvent == /\ t <= Len(Trace) /\ e < Len(Rec.ev) /\ why = "ok" /\ Rec.ev[e + 1].kind = "reset"
              /\ drlv2' = InitDr(Rec) /\ seg' = <<>> /\ seglab' = labels
              /\ e' = e + 1 /\ UNCHANGED <<t, labels, why, ns>>

\* final-state property of a fresh single pass (the calls since the last reset present every label exactly once)
Min(S) == CHOOSE m \in S : \A x \in S : m <= x
SinglePass(r) == /\ Len(seg) = r.G
                 /\ \A g \in 1..r.G : Cardinality({i \in 1..Len(seg) : r.rowlabel[seg[i]] = g}) = 1
RowOf(r, g) == seg[CHOOSE i \in 1..Len(seg) : r.rowlabel[seg[i]] = g]
MinErr(r, k) == Min({r.err[seg[i]][k] : i \in 1..Len(seg)})
Nobody(k) == IF seglab[k] = 0 THEN 0 ELSE -1
FinalWhy(r) ==
  IF ~SinglePass(r) THEN "ok"                                                \* not a complete single pass: steps only
  ELSE IF \E k \in 1..r.K : MinErr(r, k) >= r.E /\ labels[k] # Nobody(k) THEN "a peak indexed by no grain is not labelled unassigned"
  ELSE IF \E k \in 1..r.K : MinErr(r, k) < r.E /\ labels[k] \notin 1..r.G THEN "an indexable peak is unassigned"
  ELSE IF \E k \in 1..r.K : labels[k] \in 1..r.G /\ r.err[RowOf(r, labels[k])][k] # MinErr(r, k) THEN "a peak is not with its best-fitting grain"
  ELSE IF \E k \in 1..r.K : labels[k] \in 1..r.G /\ drlv2[k] # MinErr(r, k) THEN "stored error is not the minimum"
  ELSE IF Len(r.hist) = r.G /\ \E g \in 1..r.G : r.hist[g] # Cardinality({k \in 1..r.K : labels[k] = g}) THEN "per-grain counts are not the histogram of the labels"
  ELSE "ok"

Finish == /\ t <= Len(Trace) /\ (e = Len(Rec.ev) \/ why # "ok")
          /\ LET w == IF why # "ok" THEN why ELSE FinalWhy(Rec)
             IN PrintT("@@" \o ToJson([id |-> Rec.id, ok |-> (w = "ok"), why |-> w, consumed |-> e, ns |-> ns]))
          /\ t' = t + 1 /\ e' = 0 /\ why' = "ok" /\ ns' = <<>> /\ seg' = <<>>
          /\ labels' = IF t + 1 <= Len(Trace) THEN InitLabels(Trace[t + 1]) ELSE <<>>
          /\ seglab' = labels'
          /\ drlv2' = IF t + 1 <= Len(Trace) THEN InitDr(Trace[t + 1]) ELSE <<>>

Next == CallEvent \/ ResetEvent \/ Finish
Spec == Init /\ [][Next]_vars
=============================================================================

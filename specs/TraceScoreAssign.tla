-------------------------- MODULE TraceScoreAssign --------------------------
(***************************************************************************)
(* Trace validation (code -> spec) for competing assignment, C07.          *)
(* Every line of TRACE_FILE is one recorded run of the real                *)
(* score_and_assign driver (fight_over_peaks / assignlabels / raw calls):  *)
(*   id, G, K, E,                                                          *)
(*   err[g][k]   dense rank of the reference error calc_drlv2(UBI_g, gv_k) *)
(*               among the K*G errors, E if not strictly below tol^2       *)
(*   ev[i] = [g, n, labels[k], dr[k]]  after the i-th real call: label     *)
(*               presented, returned count (-1 when the trace is a block   *)
(*               of a larger run: then the verdict reports the model's     *)
(*               counts `ns` and the harness sums them over the blocks),   *)
(*               labels (-1 unassigned, grains numbered 1..G), rank of the *)
(*               stored error (E = initial, -2 = not a reference error)    *)
(* Each event must be exactly the step ScoreAssign.tla's Call;Chunk*;Return*)
(* produces from the current state (the chunks commute: peaks are          *)
(* independent, so the composite step is deterministic); at the end the    *)
(* invariant BestGrain / StoredError / Histogram must hold.                *)
(* One verdict line per trace, naming the first failing clause.            *)
(***************************************************************************)
EXTENDS Integers, Sequences, FiniteSets, TLC, Json, IOUtils

Trace == ndJsonDeserialize(IOEnv.TRACE_FILE)

VARIABLES t, e, labels, drlv2, why, ns
vars == <<t, e, labels, drlv2, why, ns>>

Rec == Trace[t]
InitLabels(r) == [k \in 1..r.K |-> -1]
InitDr(r) == [k \in 1..r.K |-> r.E]

Init == /\ t = 1 /\ e = 0 /\ why = "ok" /\ ns = <<>>
        /\ labels = IF Len(Trace) > 0 THEN InitLabels(Trace[1]) ELSE <<>>
        /\ drlv2 = IF Len(Trace) > 0 THEN InitDr(Trace[1]) ELSE <<>>

\* the composite step of ScoreAssign.tla for grain g
Take(r, g, k) == r.err[g][k] < r.E /\ r.err[g][k] < drlv2[k]
StepLabels(r, g) == [k \in 1..r.K |-> IF Take(r, g, k) THEN g ELSE IF labels[k] = g THEN -1 ELSE labels[k]]
StepDr(r, g) == [k \in 1..r.K |-> IF Take(r, g, k) THEN r.err[g][k] ELSE drlv2[k]]
StepN(r, g) == Cardinality({k \in 1..r.K : Take(r, g, k)})

Event == /\ t <= Len(Trace) /\ e < Len(Rec.ev) /\ why = "ok"
         /\ LET r == Rec  v == r.ev[e + 1]  g == v.g
            IN /\ labels' = StepLabels(r, g)
               /\ drlv2' = StepDr(r, g)
               /\ ns' = Append(ns, StepN(r, g))
               /\ why' = IF v.n # -1 /\ v.n # StepN(r, g) THEN "returned count differs from the specification's step"
                         ELSE IF \E k \in 1..r.K : v.labels[k] # StepLabels(r, g)[k] THEN "labels after the call differ from the specification's step"
                         ELSE IF \E k \in 1..r.K : v.dr[k] # StepDr(r, g)[k] THEN "stored errors after the call differ from the specification's step"
                         ELSE "ok"
         /\ e' = e + 1 /\ t' = t

\* final-state property (every grain presented once, checked by the recorder and here)
MinErr(r, k) == LET vals == {r.err[g][k] : g \in 1..r.G} IN CHOOSE m \in vals : \A x \in vals : m <= x
FinalWhy(r) ==
  IF {r.ev[i].g : i \in 1..Len(r.ev)} # 1..r.G \/ Len(r.ev) # r.G THEN "ok"    \* not a complete single pass: steps only
  ELSE IF \E k \in 1..r.K : (MinErr(r, k) >= r.E) # (labels[k] = -1) THEN "a peak indexed by no grain is labelled / an indexable peak is unassigned"
  ELSE IF \E k \in 1..r.K : labels[k] # -1 /\ r.err[labels[k]][k] # MinErr(r, k) THEN "a peak is not with its best-fitting grain"
  ELSE IF \E k \in 1..r.K : labels[k] # -1 /\ drlv2[k] # MinErr(r, k) THEN "stored error is not the minimum"
  ELSE IF \E g \in 1..r.G : r.hist[g] # Cardinality({k \in 1..r.K : labels[k] = g}) THEN "per-grain counts are not the histogram of the labels"
  ELSE "ok"

Finish == /\ t <= Len(Trace) /\ (e = Len(Rec.ev) \/ why # "ok")
          /\ LET w == IF why # "ok" THEN why ELSE FinalWhy(Rec)
             IN PrintT("@@" \o ToJson([id |-> Rec.id, ok |-> (w = "ok"), why |-> w, consumed |-> e, ns |-> ns]))
          /\ t' = t + 1 /\ e' = 0 /\ why' = "ok" /\ ns' = <<>>
          /\ labels' = IF t + 1 <= Len(Trace) THEN InitLabels(Trace[t + 1]) ELSE <<>>
          /\ drlv2' = IF t + 1 <= Len(Trace) THEN InitDr(Trace[t + 1]) ELSE <<>>

Next == Event \/ Finish
Spec == Init /\ [][Next]_vars
=============================================================================

SPECIFICATION Spec
CONSTANTS
  NS = 2
  NF = 3
  LEVELS = 3
  MAXPIX = 2
  MAPS <- MAPS_cut
  THRS <- THRS_q
  THRESHOLD = "cut"
  EmitOn = FALSE
INVARIANT AllLabelled
CHECK_DEADLOCK FALSE

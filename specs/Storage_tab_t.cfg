\* thorough: table family, all operations, two groups, depth 3, every state emitted and replayed
SPECIFICATION Spec
CONSTANTS
  Family = "table"
  Paths = {"p1", "p2"}
  Groups = {"peaks", "other"}
  SeedTuples <- SeedsTabT
  OpNames = {"WriteText", "ReadText", "WriteHdf", "WriteHdfObj", "ReadHdf", "ReadAuto", "ReadMmap", "DropRow", "ConvHdf"}
  MaxDepth = 3
  EmitOn = TRUE
INVARIANT TypeOK
INVARIANT InvFixed
INVARIANT InvAsIs
INVARIANT Emit
VIEW View
CHECK_DEADLOCK FALSE

\* thorough tier: diag 1..4, off-diagonal -2..2
SPECIFICATION Spec
CONSTANTS
  HMAX = 200
  Forms <- FormsThorough
  Limits = {3, 6, 10}
  Centrings = {"P", "A", "B", "C", "I", "F", "R"}
  Outif <- OutifPinned
  TIE = FALSE
  ORACLE = TRUE
  BigCases <- BigNone
INVARIANT WalkInv
INVARIANT BoxInv
INVARIANT Emit
CHECK_DEADLOCK FALSE

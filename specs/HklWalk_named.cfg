\* named lattices (cubic .. triclinic) with larger limits
SPECIFICATION Spec
CONSTANTS
  HMAX = 200
  Forms <- FormsNamed
  Limits = {8, 13, 20}
  Centrings = {"P", "A", "B", "C", "I", "F", "R"}
  Outif <- OutifPinned
  TIE = FALSE
  ORACLE = TRUE
  BigCases <- BigNone
INVARIANT WalkInv
INVARIANT BoxInv
INVARIANT Emit
CHECK_DEADLOCK FALSE

------------------------------ MODULE HklObject ------------------------------
(***************************************************************************)
(* C03, object state: the cache pair (unitcell.limit, unitcell.peaks) and  *)
(* the ring table of ONE unitcell object under histories of public calls,  *)
(* including calls that do NOT finish.                                     *)
(*                                                                         *)
(* MODELS   ImageD11/unitcell.py                                           *)
(*   gethkls(dsmax):  if dsmax == self.limit and self.peaks is not None:   *)
(*                        return self.peaks              (CallHit)         *)
(*                    ... the loop nest (HklWalk.tla) ... peaks.sort()     *)
(*                    self.peaks = peaks ; self.limit = dsmax  (Finish)    *)
(*   makerings(limit, tol):  self.peaks = self.gethkls(limit + tol)        *)
(*                    ringds = [] ; ringhkls = {} ; grouping loop          *)
(*                    (TraceRings.tla)                     (Group)         *)
(*                                                                         *)
(* Limits are abstract: 1..NLIM (the harness maps them on d-star limits of *)
(* real cells, ascending; the lists are judged against the exact brute     *)
(* force of HklWalk).  A list is represented by the limit it was generated *)
(* for.                                                                    *)
(*                                                                         *)
(* VARIABLES                                                               *)
(*   limit : unitcell.limit  (0 = None)                                    *)
(*   peaks : the limit unitcell.peaks was generated for (0 = None)         *)
(*   rings : the limit of the list the ring table was grouped from         *)
(*           (0 = no table, -1 = a table left half built)                  *)
(*   pc    : "idle" | "loop" (inside the loop nest of gethkls) |           *)
(*           "group" (inside the grouping loop of makerings)               *)
(*   arg, mk : argument of the public call in flight; is it makerings      *)
(*   inj   : where the harness injects into this call:                     *)
(*           <<"",0>> none | <<"x1",0>> exception at a call made by        *)
(*           gethkls' body | <<"x2",0>> exception at a call made by        *)
(*           makerings' grouping loop |                                    *)
(*           <<"n", y>> a complete gethkls(y) while the loop nest runs     *)
(*           (re-entrant: the loop still running in another thread)        *)
(*   hist  : the history, one record per public call                       *)
(*           [op, x, inj, y, done, ret, nret]  ret / nret = the limit of   *)
(*           the list returned by the call / by the nested call            *)
(*                                                                         *)
(* ACTIONS                                                                 *)
(*   CallHit   public call served from the cache (no loop: nothing can be  *)
(*             injected, the call completes)                               *)
(*   CallMiss  public call enters the loop nest; with ORDER =              *)
(*             "limit-first" the limit is recorded here already            *)
(*   Nested    a complete gethkls(y) runs while the loop nest is running   *)
(*   Interrupt an exception leaves the call (in "loop" or in "group"): the *)
(*             object stays as it is at that moment                        *)
(*   Finish    the loop nest is through: peaks / limit are written         *)
(*   Group     makerings grouped the list: the ring table is complete      *)
(*                                                                         *)
(* PROPERTY (C03 on histories): every call that completes returns the list *)
(* (ring table) of ITS argument - exactly what a fresh object returns.     *)
(*   RetInv    ret = x for every completed call, nret = y for nested ones  *)
(*   CacheInv  at rest, a stored list is the list of the stored limit      *)
(*   RingInv   after a completed makerings(x) the table is grouped from x  *)
(* They hold for ORDER = "list-first" (the code at HEAD; HklObject_q/_t.cfg)*)
(* The other write order, ORDER = "limit-first" (the limit recorded before *)
(* the list exists), is a documented NON-theorem: HklObject_limitfirst.cfg *)
(* - TLC finds  gethkls(1), gethkls(2) interrupted, gethkls(2) returns the *)
(* list of limit 1.  The check runs it to show that the invariants         *)
(* discriminate.                                                           *)
(* Interrupt points: calls made by the body (ds, absent, append, sort ...) *)
(* - where a signal handler / KeyboardInterrupt can run.  Between the two  *)
(* attribute stores of Finish no call is made: not an interrupt point.     *)
(*                                                                         *)
(* EMISSION  every history of DEPTH public calls, as JSON, replayed by     *)
(* harness/props/c03.py (object_histories) into the real object.           *)
(***************************************************************************)
EXTENDS Integers, Sequences, TLC, Json

CONSTANTS NLIM, DEPTH, ORDER, EMIT

VARIABLES limit, peaks, rings, pc, arg, mk, inj, nret, hist
vars == <<limit, peaks, rings, pc, arg, mk, inj, nret, hist>>

Lims == 1..NLIM
Injections == { <<"", 0>>, <<"x1", 0>>, <<"x2", 0>> } \cup { <<"n", y>> : y \in Lims }

Init == /\ limit = 0 /\ peaks = 0 /\ rings = 0 /\ pc = "idle" /\ arg = 0 /\ mk = FALSE
        /\ inj = <<"", 0>> /\ nret = 0 /\ hist = <<>>

InjName(j) == j[1]
InjArg(j)  == j[2]
Rec(m, x, j, done, r, nr) == [op |-> IF m THEN "rings" ELSE "get", x |-> x, inj |-> InjName(j), y |-> InjArg(j),
                              done |-> done, ret |-> r, nret |-> nr]
Hit(x) == x = limit /\ peaks # 0

\* a public call whose gethkls is a cache hit; gethkls makes no call: injections "x1" / "n" never fire
CallHit == /\ pc = "idle" /\ Len(hist) < DEPTH
           /\ \E x \in Lims, m \in BOOLEAN, j \in Injections :
                /\ Hit(x) /\ (InjName(j) = "x2" => m)
                /\ arg' = x /\ mk' = m /\ inj' = j /\ nret' = 0
                /\ IF m THEN /\ pc' = "group" /\ rings' = -1 /\ UNCHANGED hist
                        ELSE /\ pc' = "idle" /\ UNCHANGED rings
                             /\ hist' = Append(hist, Rec(m, x, j, TRUE, peaks, 0))
                /\ UNCHANGED <<limit, peaks>>
CallMiss == /\ pc = "idle" /\ Len(hist) < DEPTH
            /\ \E x \in Lims, m \in BOOLEAN, j \in Injections :
                 /\ ~Hit(x) /\ (InjName(j) = "x2" => m)
                 /\ arg' = x /\ mk' = m /\ inj' = j /\ nret' = 0 /\ pc' = "loop"
                 /\ limit' = IF ORDER = "limit-first" THEN x ELSE limit
                 /\ UNCHANGED <<peaks, rings, hist>>
\* a complete gethkls(y) inside the running loop nest (its own writes included)
Nested == /\ pc = "loop" /\ InjName(inj) = "n" /\ nret = 0
          /\ LET y == InjArg(inj) IN
               IF Hit(y) THEN /\ nret' = peaks /\ UNCHANGED <<limit, peaks>>
                         ELSE /\ nret' = y /\ peaks' = y /\ limit' = y
          /\ UNCHANGED <<rings, pc, arg, mk, inj, hist>>
Interrupt == /\ \/ pc = "loop" /\ InjName(inj) = "x1"
                \/ pc = "group" /\ InjName(inj) = "x2"
             /\ pc' = "idle" /\ hist' = Append(hist, Rec(mk, arg, inj, FALSE, 0, 0))
             /\ UNCHANGED <<limit, peaks, rings, arg, mk, inj, nret>>
Finish == /\ pc = "loop" /\ InjName(inj) # "x1" /\ (InjName(inj) = "n" => nret # 0)
          /\ peaks' = arg /\ limit' = arg
          /\ IF mk THEN /\ pc' = "group" /\ rings' = -1 /\ UNCHANGED hist
                   ELSE /\ pc' = "idle" /\ UNCHANGED rings
                        /\ hist' = Append(hist, Rec(mk, arg, inj, TRUE, arg, nret))
          /\ UNCHANGED <<arg, mk, inj, nret>>
Group == /\ pc = "group" /\ InjName(inj) # "x2"
         /\ rings' = peaks /\ pc' = "idle"
         /\ hist' = Append(hist, Rec(mk, arg, inj, TRUE, peaks, nret))
         /\ UNCHANGED <<limit, peaks, arg, mk, inj, nret>>

Next == CallHit \/ CallMiss \/ Nested \/ Interrupt \/ Finish \/ Group
Spec == Init /\ [][Next]_vars

TypeOK == /\ limit \in 0..NLIM /\ peaks \in 0..NLIM /\ rings \in -1..NLIM
          /\ pc \in {"idle", "loop", "group"} /\ Len(hist) <= DEPTH
RetInv == \A i \in DOMAIN hist : hist[i].done =>
             /\ hist[i].ret = hist[i].x
             /\ (hist[i].inj = "n" /\ hist[i].nret # 0) => hist[i].nret = hist[i].y
CacheInv == (pc = "idle" /\ peaks # 0) => limit = peaks
RingInv == (pc = "idle" /\ hist # <<>> /\ hist[Len(hist)].done /\ hist[Len(hist)].op = "rings")
              => rings = hist[Len(hist)].x
Emit == ~(EMIT /\ pc = "idle" /\ Len(hist) = DEPTH) \/ PrintT("@@" \o ToJson([hist |-> hist]))
=============================================================================

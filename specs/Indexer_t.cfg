SPECIFICATION Spec
CONSTANTS
  NOISY = FALSE
  PAIRS <- PAIRS_all
  NP = 8
  NR = 2
  NC = 5
  MINPKS = 2
  MAXGRAINS = 3
  UNIQ_NUM = 1
  UNIQ_DEN = 2
  NPASS = 2
  MINPKS2 = 2
  NCAP = 0
  ALLHITS = TRUE
  NSAVE = 0
  FRESH = TRUE
  NRESET = 0
  SHARE = FALSE
INVARIANT GaRange
INVARIANT AcceptedScore
INVARIANT GrainCap
INVARIANT PairCap
INVARIANT NoRepeat
INVARIANT OwnPeaksKept
INVARIANT Completeness
PROPERTY Termination
CHECK_DEADLOCK FALSE

\* self-test of the liveness property: second store dropped -> the sweep loop never terminates
SPECIFICATION FairSpec
CONSTANTS
  NSet = {1,2}
  ESet = {0,1,2}
  Threads = {t1, t2}
  Static = FALSE
  OrdSet = {0}
  History = TRUE
  DoEmit = FALSE
  Bug = "onewrite"
  Hist = 0
  DsHist = 0
  DsOps = {}
  NMon = 0
  Neg = FALSE
  Shape = "sorted"
INVARIANT TypeOK
INVARIANT InComp
INVARIANT MinFixed
INVARIANT LocalsOK
INVARIANT ZeroAgree
INVARIANT Fixpoint
INVARIANT FixReadsRoot
INVARIANT CleanOK
INVARIANT MergeOK
INVARIANT EmitInv
PROPERTY Termination
CHECK_DEADLOCK FALSE

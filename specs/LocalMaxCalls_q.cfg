SPECIFICATION Spec
CONSTANTS
  NNZ <- NNZ_223
  SCANS = {11, 12}
  MAXCALLS = 3
  WORKSPACE = "fresh"
  EmitOn = TRUE
INVARIANT Stand
INVARIANT NoAlias
INVARIANT Emit
CHECK_DEADLOCK FALSE

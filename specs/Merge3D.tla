------------------------------- MODULE Merge3D -------------------------------
(***************************************************************************)
(* C12 - peak properties and frame-to-frame merging conserve pixels and    *)
(* intensity.                                                              *)
(*                                                                         *)
(* WHAT CODE THIS MODELS                                                   *)
(*   ImageD11/labelimage.py:153-286  labelimage.peaksearch / labelpeaks /  *)
(*        measurepeaks / mergelast / outputpeaks / finalise                *)
(*   src/connectedpixels.c:213-261   blobproperties                        *)
(*   src/connectedpixels.c:285-447   bloboverlaps                          *)
(*   src/blobs.c:102-168             add_pixel, merge                      *)
(*   src/blobs.c:262-289             dset_makeunion, dset_link, dset_find  *)
(*   src/blobs.h:56-104              the property column enum (the record  *)
(*        fields n..bno below are columns s_1 .. bb_mn_o in that order;    *)
(*        the harness maps them through cImageD11.s_1 ... bb_mn_o)         *)
(*   src/connectedpixels.c:65-191    connectedpixels is NOT transcribed    *)
(*        here (that is C11 / ConnPix.tla).  Label2D below is the          *)
(*        declarative numbering the kernel produces (8-connected           *)
(*        components numbered by the raster position of their first        *)
(*        pixel); the harness checks blim against it after every real      *)
(*        peaksearch call.                                                 *)
(*   compute_moments (blobs.c:40-100) only derives floating point          *)
(*        quotients from the raw sums; the harness evaluates those from    *)
(*        the exact sums of this model (fractions + sqrt).                 *)
(*                                                                         *)
(* A frame is a tuple of NS*NF integer intensities in row-major order      *)
(* (pixel p = s*NF + f + 1, s = slow = row, f = fast = column, both        *)
(* 0-based as in C).  A pixel is in a blob iff intensity > THR.  The k-th  *)
(* frame (k = 1, 2, ...) has omega = OM0 + (k-1)*OMSTEP (OMSTEP may be 0:  *)
(* all frames at one angle) or, when OMSEQ is not empty, omega = OMSEQ[k]  *)
(* (any order, e.g. <<0,2,2,1>>: up, zero step, down); integers, so every  *)
(* accumulated sum is an integer.  Without PATTERN the intensity of a      *)
(* pixel is VALS-value + VSHIFT, so that negative pixel values and a       *)
(* negative THR are in scope (VSHIFT = -2, THR = -2: blobs made of -1, 0,  *)
(* 1).  The alphabet value NANV (PATTERN = FALSE) stands for a pixel that  *)
(* is not a number (dead pixel, 0/0 of a flood field): its intensity is    *)
(* the constant NaN, and Above(x) == x # NaN /\ x > THR is the only        *)
(* membership test of the labelling (Label2D), of the independent          *)
(* definition (Vox) and of the invariants: NaN > t is false for every t,   *)
(* so such a pixel is background, joins nothing and adds neither a pixel   *)
(* nor intensity.  NaN is the integer 1000, above every threshold and      *)
(* intensity of the scopes: a labelling that let it through would be       *)
(* caught by Conserved / KernelPost / PrefixOK / DoneOK.  The harness      *)
(* replays these frames with float nan (cfgs nan_2x3_f1, nan_2x3_f2,       *)
(* nan_1x5_f3; every other cfg has NANV <- Neg1: no such value).           *)
(*                                                                         *)
(* MAXFIX selects the rule for the maximum pixel of a blob:                *)
(*   FALSE  the code as pinned: blobproperties zeroes the row, add_pixel   *)
(*          replaces the maximum only when I > b[mx_I] - a blob whose      *)
(*          pixels are all <= 0 (possible only with a negative threshold)  *)
(*          keeps mx_I = 0 at position (0,0,0): DoneOK / PrefixOK are      *)
(*          VIOLATED on such scopes (cfg negthr; known finding             *)
(*          C12-max-pixel-nonpositive-blob); DoneOKAsIs / PrefixOKAsIs     *)
(*          state the property with the max-pixel clause restricted to     *)
(*          components whose maximum is > 0 (cfg negthr_asis)              *)
(*   TRUE   the proposed repair: the first pixel of a blob initialises     *)
(*          the maximum (cfg negthr_fix: DoneOK / PrefixOK hold)           *)
(* For intensities > 0 (every other cfg) both rules coincide.              *)
(*                                                                         *)
(* NOT MODELLED, bound by the harness on the grounds of covariance (the    *)
(* model only compares intensities with THR and with each other and adds   *)
(* products): intensity scale (65535, 2^20, float32-rounded values beyond  *)
(* 2^24, fractions k/8), sub-threshold negative background, non-dyadic     *)
(* omega (narrowed to float32 by the f2py wrapper; sums then compared with *)
(* a rounding-error bound instead of exactly), image shapes up to 2048     *)
(* wide / tall, the flip and spatial-correction columns, the 2-D .spt      *)
(* output (rows = state `res` after Peaksearch).  Also outside: the SIZE   *)
(* of a frame's label table (connectedpixels' disjoint set doubles at      *)
(* 16384, 32768, ... provisional labels; Label2D is declarative) - the     *)
(* harness drives frames with up to 40000 blobs and judges them by the     *)
(* independent definition alone (scipy.ndimage.label, harness/c12_big.py). *)
(*                                                                         *)
(* VARIABLES                                                               *)
(*   frames            history: the frames given to peaksearch so far      *)
(*   pc                control state: idle -> searched -> (overlap -> scan *)
(*                     -> compress -> copy -> relabel ->) output -> swap   *)
(*                     -> idle ...  idle -> done                           *)
(*   pend              simulation only: the frame being composed           *)
(*   blim, npk, res    labelimage.blim / npk / res  (current frame)        *)
(*   lastbl, lastnp,   labelimage.lastbl / lastnp / lastres (previous      *)
(*   lastres           frame, carrying the sums of every still open 3-D    *)
(*                     peak); lastnp = FIRST (-1) models the "FIRST" flag; *)
(*                     res / lastres = None is the empty sequence          *)
(*   link, T, i, knpk  locals of bloboverlaps: the disjoint set array      *)
(*                     [0 | image-2 labels 1..n2 | sentinel n2+1 |         *)
(*                     image-1 labels n2+2..n2+n1+1 | spare], the          *)
(*                     compressed numbering, the loop cursor, local npk    *)
(*   out               rows written by outputpeaks, with the onfirst /     *)
(*                     onlast flags and spot3d_id                          *)
(*   onfirst, onlast, spot    labelimage.onfirst / onlast / spot3d_id      *)
(*   bad               set of names of run-time checks of the C code that  *)
(*                     failed (boundscheck, asserts, "Whoops", an index    *)
(*                     outside its array); must stay empty                 *)
(*                                                                         *)
(* ACTIONS (one per public call / loop-body branch; loop iterations that   *)
(* `continue` immediately are folded into the cursor advance)              *)
(*   Peaksearch(f)      labelpeaks + measurepeaks on a new frame           *)
(*   MergeFirst         mergelast, lastnp == "FIRST" branch                *)
(*   EnterOverlaps      mergelast -> bloboverlaps: build link              *)
(*   SkipOverlaps       mergelast, npk == 0 or lastnp == 0                 *)
(*   Overlap(px)        pixel loop body: dset_makeunion(link,p2,p1+n2+1)   *)
(*   MergeAcross(x)     scan loop, i > n2+1 and j < n2+1                   *)
(*   MergeSame1(x)      scan loop, i > n2+1 and j > n2+1 (dead: NoSame1)   *)
(*   MergeSame2(x)      scan loop, i < n2+1 and j < n2+1                   *)
(*   CompressT          the T numbering loop                               *)
(*   CopyMoved(x)       copy-and-zero of a moved accumulating row          *)
(*   CopyCheckEmpty(x)  non-root row: assert it is empty                   *)
(*   Relabel            relabel pass over the current frame + return npk   *)
(*   Output             blob_moments + outputpeaks(lastres[:lastnp])       *)
(*   Swap               lastnp/lastres := npk/res[:npk]; swap blim/lastbl  *)
(*   Finalise           finalise()                                         *)
(*   (PickPixel(v), PeaksearchPending: only in NextSim, for tlc -simulate  *)
(*    on larger shapes: the environment composes the frame in `pend` pixel *)
(*    by pixel, then the same DoPeaksearch runs on it; FinaliseFull =      *)
(*    Finalise after MAXFR frames)                                         *)
(*                                                                         *)
(* INVARIANTS (the property is stated independently through Comps, the     *)
(* closure of voxel adjacency: 8-connected in a frame, same pixel on       *)
(* adjacent frames)                                                        *)
(*   DoneOK        after Finalise the multiset of emitted rows equals the  *)
(*                 multiset of component rows (npix, sum I, I^2, fI, ffI,  *)
(*                 sI, ssI, sfI, oI, ooI, soI, foI, max I, bbox); the max  *)
(*                 position is a voxel of that component with that         *)
(*                 intensity; spot ids are 0,1,2,...                       *)
(*   PrefixOK      at every idle state emitted + open rows = components of *)
(*                 the frames so far, and lastbl labels each open pixel    *)
(*                 with the row of its component (the relabel step)        *)
(*   DoneOKAsIs / PrefixOKAsIs   the same two with the max-pixel clause    *)
(*                 only for components whose maximum is > 0 (see MAXFIX)   *)
(*   Conserved     total pixels and total intensity (and I^2) conserved    *)
(*                 in EVERY state                                          *)
(*   NoBad         every boundscheck / assert / array index is fine        *)
(*   LinkOK        disjoint set shape: link[x] <= x, sentinel untouched    *)
(*   NoSame1       the "same image (1)" branch is unreachable              *)
(*   KernelPost    at return of bloboverlaps: labels are exactly 1..npk,   *)
(*                 rows 1..npk non-empty, rows beyond zeroed               *)
(*   ScanLive      the three cases of the scan loop are exhaustive         *)
(*   ShapeOK       array lengths agree with npk / lastnp                   *)
(*   EmitDone / EmitStep   print the behaviour / the observable state      *)
(*                                                                         *)
(* BOUNDS (Merge3D_*.cfg)  exhaustive: 2x3 x 2 and 3 frames, 1x5 x 2 and 3 *)
(* frames, 1x7 x 2 frames (binary masks, intensity 1..3 by position and    *)
(* frame), 2x2 x 2 frames over 0..3 with threshold 1 and a negative omega  *)
(* step; 1x3 and 1x2 x 4 frames at omega 0,2,2,1 (cfgs 1x3_f4_om,          *)
(* 1x2_f4_om); 1x3 and 1x2 x 2 frames over -2..1 with threshold -2 (cfgs   *)
(* negthr, negthr_asis, negthr_fix and the same with suffix _q); 2x3 x 2   *)
(* frames over {2, NaN}, 2x3 x 1 frame over {0, 2, NaN}, 1x5 x 3 frames    *)
(* over {2, NaN}, threshold 1 (cfgs nan_2x3_f2, nan_2x3_f1, nan_1x5_f3);   *)
(* simulation (SimSpec): 3x3 and 4x4 x 4 frames over 0..3, threshold 2.   *)
(* All sums stay far below 2^31.                                           *)
(* TLCEval(...) only forces TLC to evaluate a lazily represented set or    *)
(* function once (performance); it is the identity.                        *)
(***************************************************************************)
EXTENDS Integers, Sequences, FiniteSets, FiniteSetsExt, TLC, Json

CONSTANTS NS, NF,      \* frame shape (slow, fast)
          MAXFR,       \* maximal number of frames
          VALS,        \* pixel alphabet (0 = empty)
          THR,         \* threshold
          PATTERN,     \* TRUE: a non-zero pixel value v at pixel p of frame k has intensity 1+((v+p+k)%3)
          OM0, OMSTEP, \* omega of frame k is OM0 + (k-1)*OMSTEP ...
          OMSEQ,       \* ... unless this sequence is not empty: then omega of frame k is OMSEQ[k]
          VSHIFT,      \* added to the pixel alphabet when PATTERN = FALSE (negative intensities)
          MAXFIX,      \* FALSE: max pixel rule of the pinned code; TRUE: first pixel initialises the maximum
          NANV,        \* the alphabet value that stands for a not-a-number pixel (PATTERN = FALSE; NANV <- Neg1: none)
          EMITSTEPS    \* TRUE: print every observable state (EmitStep)

ASSUME /\ NS \in Nat \ {0} /\ NF \in Nat \ {0} /\ MAXFR \in Nat \ {0}
       /\ VALS \subseteq 0..3 /\ THR \in Int /\ VSHIFT \in Int /\ OMSTEP \in Int
       /\ PATTERN \in BOOLEAN /\ EMITSTEPS \in BOOLEAN /\ MAXFIX \in BOOLEAN
       /\ (PATTERN => VSHIFT = 0 /\ THR >= 0 /\ NANV \notin VALS)
       /\ NANV \in Int
       /\ (OMSEQ # <<>> => Len(OMSEQ) >= MAXFR /\ \A k \in DOMAIN OMSEQ : OMSEQ[k] \in Int)

VARIABLES frames, pc, blim, lastbl, npk, lastnp, res, lastres,
          link, T, i, knpk, out, onfirst, onlast, spot, bad, pend

core == <<frames, pc, blim, lastbl, npk, lastnp, res, lastres,
          link, T, i, knpk, out, onfirst, onlast, spot, bad>>
vars == <<core, pend>>

FIRST == -1
Neg1 == -1      \* (.cfg files cannot write negative numbers: OMSTEP <- Neg2)
Neg2 == -2
NoSeq == <<>>               \* OMSEQ <- NoSeq : the linear omega sequence
SeqUpZeroDown == <<0, 2, 2, 1>>
NPX == NS * NF
Pix == 1..NPX
SOf(p) == (p - 1) \div NF
FOf(p) == (p - 1) % NF
Omega(k) == IF OMSEQ = <<>> THEN OM0 + (k - 1) * OMSTEP ELSE OMSEQ[k]
Abs(x) == IF x < 0 THEN -x ELSE x
Max2(a, b) == IF a > b THEN a ELSE b
Min2(a, b) == IF a < b THEN a ELSE b
Zeros == [p \in Pix |-> 0]

\* A not-a-number pixel (dead pixel, 0/0 of a flood field) is written NaN in a frame.  The statement speaks of
\* "above-threshold voxels": NaN > t is false for every t, so a NaN pixel is background - it belongs to no blob,
\* joins nothing and adds neither a pixel nor intensity.  NaN is an integer far above every threshold and every
\* intensity of the scopes: a model (or a code) that lets it through `> THR` sums it and breaks Conserved / DoneOK.
NaN == 1000
Above(x) == x # NaN /\ x > THR

-----------------------------------------------------------------------------
(* property rows: blobs.h columns s_1 .. bb_mn_o *)

ZeroRow == [n |-> 0, I |-> 0, I2 |-> 0, fI |-> 0, ffI |-> 0, sI |-> 0, ssI |-> 0, sfI |-> 0,
            oI |-> 0, ooI |-> 0, soI |-> 0, foI |-> 0,
            mxI |-> 0, mxf |-> 0, mxs |-> 0, mxo |-> 0,
            bxf |-> 0, bxs |-> 0, bxo |-> 0, bnf |-> 0, bns |-> 0, bno |-> 0]

\* blobproperties, "Initialise the results" (connectedpixels.c:223-235)
InitRow(om) == [ZeroRow EXCEPT !.bnf = NF + 1, !.bns = NS + 1, !.bxf = -1, !.bxs = -1,
                               !.bxo = om, !.bno = om]

\* add_pixel (blobs.c:102-131): `if (I > b[mx_I])` on a row that blobproperties zeroed
NewMax(b, v) == v > b.mxI \/ (MAXFIX /\ b.n = 0)
AddPixel(b, s, f, v, o) ==
  [n   |-> b.n + 1,        I   |-> b.I + v,          I2  |-> b.I2 + v * v,
   fI  |-> b.fI + f * v,   ffI |-> b.ffI + f * f * v,
   sI  |-> b.sI + s * v,   ssI |-> b.ssI + s * s * v, sfI |-> b.sfI + s * f * v,
   oI  |-> b.oI + o * v,   ooI |-> b.ooI + o * o * v,
   soI |-> b.soI + s * o * v, foI |-> b.foI + f * o * v,
   mxI |-> IF NewMax(b, v) THEN v ELSE b.mxI,
   mxf |-> IF NewMax(b, v) THEN f ELSE b.mxf,
   mxs |-> IF NewMax(b, v) THEN s ELSE b.mxs,
   mxo |-> IF NewMax(b, v) THEN o ELSE b.mxo,
   bxf |-> Max2(f, b.bxf), bxs |-> Max2(s, b.bxs), bxo |-> Max2(o, b.bxo),
   bnf |-> Min2(f, b.bnf), bns |-> Min2(s, b.bns), bno |-> Min2(o, b.bno)]

\* merge (blobs.c:133-168): the new b1; b2 becomes ZeroRow
MergeRow(b1, b2) ==
  [n   |-> b1.n + b2.n,     I   |-> b1.I + b2.I,     I2  |-> b1.I2 + b2.I2,
   fI  |-> b1.fI + b2.fI,   ffI |-> b1.ffI + b2.ffI,
   sI  |-> b1.sI + b2.sI,   ssI |-> b1.ssI + b2.ssI, sfI |-> b1.sfI + b2.sfI,
   oI  |-> b1.oI + b2.oI,   ooI |-> b1.ooI + b2.ooI,
   soI |-> b1.soI + b2.soI, foI |-> b1.foI + b2.foI,
   mxI |-> IF b2.mxI > b1.mxI THEN b2.mxI ELSE b1.mxI,
   mxf |-> IF b2.mxI > b1.mxI THEN b2.mxf ELSE b1.mxf,
   mxs |-> IF b2.mxI > b1.mxI THEN b2.mxs ELSE b1.mxs,
   mxo |-> IF b2.mxI > b1.mxI THEN b2.mxo ELSE b1.mxo,
   bxf |-> Max2(b2.bxf, b1.bxf), bxs |-> Max2(b2.bxs, b1.bxs), bxo |-> Max2(b2.bxo, b1.bxo),
   bnf |-> Min2(b2.bnf, b1.bnf), bns |-> Min2(b2.bns, b1.bns), bno |-> Min2(b2.bno, b1.bno)]

-----------------------------------------------------------------------------
(* 2-D labelling as connectedpixels numbers it (declarative) *)

Adj2(p, q) == p # q /\ Abs(SOf(p) - SOf(q)) <= 1 /\ Abs(FOf(p) - FOf(q)) <= 1

RECURSIVE Grow2(_, _)
Grow2(A, S) == LET N == TLCEval(S \cup {q \in A : \E p \in S : Adj2(p, q)})
               IN IF N = S THEN S ELSE Grow2(A, N)

Label2D(img) ==
  LET A      == TLCEval({p \in Pix : Above(img[p])})
      first  == TLCEval([p \in A |-> Min(Grow2(A, {p}))])
      firsts == {first[p] : p \in A}
  IN [p \in Pix |-> IF p \in A THEN Cardinality({x \in firsts : x <= first[p]}) ELSE 0]

NumLabels(lab) == Max({0} \cup {lab[p] : p \in Pix})

\* blobproperties pixel loop (connectedpixels.c:240-257)
RECURSIVE ScanPix(_, _, _, _, _)
ScanPix(rows, img, lab, om, p) ==
  IF p > NPX THEN rows
  ELSE LET k == lab[p]
       IN ScanPix(IF k > 0 /\ k <= Len(rows)
                  THEN [rows EXCEPT ![k] = AddPixel(@, SOf(p), FOf(p), img[p], om)]
                  ELSE rows, img, lab, om, p + 1)

Props(img, lab, n, om) == ScanPix([r \in 1..n |-> InitRow(om)], img, lab, om, 1)

-----------------------------------------------------------------------------
(* disjoint set (blobs.c:262-289) on a function over 0..m *)

RECURSIVE Root(_, _)
Root(S, x) == IF S[x] = x THEN x ELSE Root(S, S[x])

RECURSIVE PathCompress(_, _, _)
PathCompress(S, x, r) == IF S[x] = x THEN S ELSE PathCompress([S EXCEPT ![x] = r], S[x], r)

\* dset_find: <<root, array after path compression>>
Find(S, x) == LET r == Root(S, x) IN <<r, PathCompress(S, x, r)>>

\* dset_makeunion(S, r1, r2) + dset_link: the higher root points to the lower one
MakeUnion(S, r1, r2) ==
  LET fa == Find(S, r1)
      fb == Find(fa[2], r2)
      a  == fa[1]
      b  == fb[1]
      S2 == fb[2]
  IN IF b > a THEN [S2 EXCEPT ![b] = a]
     ELSE IF b < a THEN [S2 EXCEPT ![a] = b]
     ELSE S2

-----------------------------------------------------------------------------
(* the independent definition: 3-D components *)

Vox(frs) == TLCEval({v \in (1..Len(frs)) \X Pix : Above(frs[v[1]][v[2]])})
Adj3(u, v) == \/ (u[1] = v[1] /\ Adj2(u[2], v[2]))
              \/ (u[2] = v[2] /\ Abs(u[1] - v[1]) = 1)

RECURSIVE Grow3(_, _)
Grow3(V, S) == LET N == TLCEval(S \cup {q \in V : \E p \in S : Adj3(p, q)})
               IN IF N = S THEN S ELSE Grow3(V, N)

RECURSIVE Peel(_)
Peel(V) == IF V = {} THEN {}
           ELSE LET C == Grow3(V, {CHOOSE v \in V : TRUE}) IN {C} \cup Peel(TLCEval(V \ C))
Comps(frs) == Peel(Vox(frs))

\* the row of a component, without the position of the maximum
CompCore(frs, C) ==
  LET Iv(v) == frs[v[1]][v[2]]
      s(v)  == SOf(v[2])
      f(v)  == FOf(v[2])
      o(v)  == Omega(v[1])
  IN [n   |-> Cardinality(C),
      I   |-> MapThenSumSet(Iv, C),
      I2  |-> MapThenSumSet(LAMBDA v : Iv(v) * Iv(v), C),
      fI  |-> MapThenSumSet(LAMBDA v : f(v) * Iv(v), C),
      ffI |-> MapThenSumSet(LAMBDA v : f(v) * f(v) * Iv(v), C),
      sI  |-> MapThenSumSet(LAMBDA v : s(v) * Iv(v), C),
      ssI |-> MapThenSumSet(LAMBDA v : s(v) * s(v) * Iv(v), C),
      sfI |-> MapThenSumSet(LAMBDA v : s(v) * f(v) * Iv(v), C),
      oI  |-> MapThenSumSet(LAMBDA v : o(v) * Iv(v), C),
      ooI |-> MapThenSumSet(LAMBDA v : o(v) * o(v) * Iv(v), C),
      soI |-> MapThenSumSet(LAMBDA v : s(v) * o(v) * Iv(v), C),
      foI |-> MapThenSumSet(LAMBDA v : f(v) * o(v) * Iv(v), C),
      mxI |-> Max({Iv(v) : v \in C}),
      bxf |-> Max({f(v) : v \in C}), bxs |-> Max({s(v) : v \in C}), bxo |-> Max({o(v) : v \in C}),
      bnf |-> Min({f(v) : v \in C}), bns |-> Min({s(v) : v \in C}), bno |-> Min({o(v) : v \in C})]

Core(r) == [n |-> r.n, I |-> r.I, I2 |-> r.I2, fI |-> r.fI, ffI |-> r.ffI, sI |-> r.sI,
            ssI |-> r.ssI, sfI |-> r.sfI, oI |-> r.oI, ooI |-> r.ooI, soI |-> r.soI, foI |-> r.foI,
            mxI |-> r.mxI, bxf |-> r.bxf, bxs |-> r.bxs, bxo |-> r.bxo,
            bnf |-> r.bnf, bns |-> r.bns, bno |-> r.bno]

\* the row's max position names a voxel of C that carries the maximal intensity
MaxPosIn(frs, r, C) ==
  \E v \in C : /\ Omega(v[1]) = r.mxo /\ SOf(v[2]) = r.mxs /\ FOf(v[2]) = r.mxf
               /\ frs[v[1]][v[2]] = r.mxI

\* the table {<<component, its row>>}
CompTable(frs) == {<<C, CompCore(frs, C)>> : C \in Comps(frs)}

\* rows (a sequence) are in one-to-one correspondence with the components in tab.
\* asis = TRUE restricts the max-pixel clause to components with a positive maximum (for the
\* others the pinned code reports mx_I = 0 and no position; see MAXFIX above).
AsIsCore(c, asis) == IF asis /\ c.mxI <= 0 THEN [c EXCEPT !.mxI = 0] ELSE c
MatchesX(rows, frs, tab, asis) ==
  LET ctab == {<<pr[1], AsIsCore(pr[2], asis), asis /\ pr[2].mxI <= 0>> : pr \in tab}
      cset == {pr[2] : pr \in ctab}
      rseq == [j \in DOMAIN rows |-> Core(rows[j])] @@ <<>>    \* (@@ makes TLC evaluate it once)
      rset == {rseq[j] : j \in DOMAIN rows}
  IN /\ Len(rows) = Cardinality(tab)
     /\ rset = cset
     /\ \A c \in cset : Cardinality({j \in DOMAIN rows : rseq[j] = c})
                        = Cardinality({pr \in ctab : pr[2] = c})
     /\ \A j \in DOMAIN rows : \E pr \in ctab : pr[2] = rseq[j] /\ (pr[3] \/ MaxPosIn(frs, rows[j], pr[1]))
Matches(rows, frs, tab) == MatchesX(rows, frs, tab, FALSE)

-----------------------------------------------------------------------------
(* helpers for cursors *)

FirstIn(S, dflt) == IF S = {} THEN dflt ELSE Min(S)

N1 == lastnp     \* bloboverlaps' n1 / n2 while the kernel runs
N2 == npk
LinkLen == N1 + N2 + 3          \* safelyneed
NextOverlap(from) == FirstIn({p \in from..NPX : lastbl[p] # 0 /\ blim[p] # 0}, NPX + 1)
NextScan(L, from) == FirstIn({x \in from..(LinkLen - 1) : L[x] # x /\ x # N2 + 1}, LinkLen)
NextCopy(L, TT, from) == FirstIn({x \in from..N2 : L[x] # TT[x]}, N2 + 1)

NonEmpty(rows) == SelectSeq(rows, LAMBDA r : r.n >= 1)    \* outputpeaks: skip s_1 < 0.1
Emitted(rows) == LET ne == NonEmpty(rows)
                 IN [j \in 1..Len(ne) |-> [row |-> ne[j], onfirst |-> onfirst,
                                           onlast |-> onlast, id |-> spot + j - 1]]

-----------------------------------------------------------------------------
Init ==
  /\ frames = <<>> /\ pc = "idle"
  /\ blim = Zeros /\ lastbl = Zeros
  /\ npk = 0 /\ lastnp = FIRST
  /\ res = <<>> /\ lastres = <<>>
  /\ link = <<>> /\ T = <<>> /\ i = 0 /\ knpk = 0
  /\ out = <<>> /\ onfirst = 1 /\ onlast = 0 /\ spot = 0
  /\ bad = {}
  /\ pend = <<>>

Intensity(v, p, k) == IF PATTERN THEN (IF v = 0 THEN 0 ELSE 1 + ((v + p + k) % 3))
                      ELSE IF v = NANV THEN NaN ELSE v + VSHIFT

\* labelimage.peaksearch(data, threshold, omega)
DoPeaksearch(raw) ==
  LET k   == Len(frames) + 1
      img == TLCEval([p \in Pix |-> Intensity(raw[p], p, k)])
      lab == TLCEval(Label2D(img))
      n   == NumLabels(lab)
  IN /\ frames' = Append(frames, img)
     /\ blim' = lab
     /\ npk' = n
     /\ res' = IF n > 0 THEN Props(img, lab, n, Omega(k)) ELSE <<>>
     /\ pc' = "searched"
     /\ UNCHANGED <<lastbl, lastnp, lastres, link, T, i, knpk, out, onfirst, onlast, spot, bad>>

Peaksearch(raw) == pc = "idle" /\ pend = <<>> /\ Len(frames) < MAXFR /\ DoPeaksearch(raw) /\ UNCHANGED pend

\* simulation only: the environment composes the next frame pixel by pixel (so that a state has
\* |VALS| successors instead of |VALS|^NPX), then peaksearch is called on it
PickPixel(v) == /\ pc = "idle" /\ Len(frames) < MAXFR /\ Len(pend) < NPX
                /\ pend' = Append(pend, v) /\ UNCHANGED core
PeaksearchPending == pc = "idle" /\ Len(pend) = NPX /\ DoPeaksearch(pend) /\ pend' = <<>>

\* mergelast, first call (labelimage.py:192-198)
MergeFirst ==
  /\ pc = "searched" /\ lastnp = FIRST
  /\ lastbl' = blim /\ blim' = lastbl
  /\ lastnp' = npk /\ lastres' = res
  /\ pc' = "idle"
  /\ UNCHANGED pend
  /\ UNCHANGED <<frames, npk, res, link, T, i, knpk, out, onfirst, onlast, spot, bad>>

\* leave the scan loop when the cursor ran off the array
ScanAdvance(L, x) ==
  LET nx == NextScan(L, x + 1)
  IN IF nx < LinkLen THEN pc' = "scan" /\ i' = nx ELSE pc' = "compress" /\ i' = 1

\* mergelast -> bloboverlaps entry (connectedpixels.c:303-310)
EnterOverlaps ==
  /\ pc = "searched" /\ lastnp # FIRST /\ npk > 0 /\ lastnp > 0
  /\ link' = [x \in 0..(LinkLen - 1) |-> IF x = 0 THEN LinkLen
                                         ELSE IF x = N2 + 1 THEN -99999 ELSE x]
  /\ T' = <<>> /\ knpk' = 0
  /\ LET nx == NextOverlap(1)
     IN IF nx <= NPX THEN pc' = "overlap" /\ i' = nx
        ELSE ScanAdvance(link', 0)
  /\ UNCHANGED pend
  /\ UNCHANGED <<frames, blim, lastbl, npk, lastnp, res, lastres, out, onfirst, onlast, spot, bad>>

SkipOverlaps ==
  /\ pc = "searched" /\ lastnp # FIRST /\ ~(npk > 0 /\ lastnp > 0)
  /\ pc' = "output"
  /\ UNCHANGED pend
  /\ UNCHANGED <<frames, blim, lastbl, npk, lastnp, res, lastres, link, T, i, knpk,
                 out, onfirst, onlast, spot, bad>>

\* pixel loop body for a pixel labelled on both frames (connectedpixels.c:313-327)
Overlap(px) ==
  /\ pc = "overlap" /\ i = px
  /\ LET p1 == lastbl[px]
         p2 == blim[px]
         inrange == p1 \in 1..N1 /\ p2 \in 1..N2
         whoops  == inrange /\ (link[p2] < 0 \/ link[p1 + N2 + 1] < 0)
     IN /\ bad' = bad \cup (IF ~inrange THEN {"overlap index"} ELSE {})
                      \cup (IF whoops THEN {"Whoops"} ELSE {})
        /\ link' = IF inrange /\ ~whoops THEN MakeUnion(link, p2, p1 + N2 + 1) ELSE link
        /\ LET nx == NextOverlap(px + 1)
           IN IF nx <= NPX THEN pc' = "overlap" /\ i' = nx
              ELSE ScanAdvance(link', 0)
  /\ UNCHANGED pend
  /\ UNCHANGED <<frames, blim, lastbl, npk, lastnp, res, lastres, T, knpk,
                 out, onfirst, onlast, spot>>

\* scan loop, linking between images: merge(&res2[jpk], &res1[ipk])   (:333-342)
MergeAcross(x) ==
  /\ pc = "scan" /\ i = x
  /\ LET fr  == Find(link, x)
         j   == fr[1]
         jpk == j               \* 1-based row of res  (C: j - 1)
         ipk == x - N2 - 1      \* 1-based row of lastres (C: i - n2 - 2)
         ok  == jpk \in 1..Len(res) /\ jpk <= N2 /\ ipk \in 1..Len(lastres) /\ ipk <= N1
     IN /\ x > N2 + 1 /\ j < N2 + 1
        /\ link' = fr[2]
        /\ bad' = bad \cup (IF ok THEN {} ELSE {"boundscheck across"})
        /\ res' = IF ok THEN [res EXCEPT ![jpk] = MergeRow(@, lastres[ipk])] ELSE res
        /\ lastres' = IF ok THEN [lastres EXCEPT ![ipk] = ZeroRow] ELSE lastres
        /\ ScanAdvance(link', x)
  /\ UNCHANGED pend
  /\ UNCHANGED <<frames, blim, lastbl, npk, lastnp, T, knpk, out, onfirst, onlast, spot>>

\* scan loop, linking on image 1: merge(&res1[jpk], &res1[ipk])       (:343-353)
MergeSame1(x) ==
  /\ pc = "scan" /\ i = x
  /\ LET fr  == Find(link, x)
         j   == fr[1]
         jpk == j - N2 - 1
         ipk == x - N2 - 1
         ok  == jpk \in 1..Len(lastres) /\ jpk <= N1 /\ ipk \in 1..Len(lastres) /\ ipk <= N1
     IN /\ x > N2 + 1 /\ j > N2 + 1
        /\ link' = fr[2]
        /\ bad' = bad \cup (IF ok THEN {} ELSE {"boundscheck same1"})
        /\ lastres' = IF ok THEN [lastres EXCEPT ![jpk] = MergeRow(@, lastres[ipk]),
                                                 ![ipk] = ZeroRow] ELSE lastres
        /\ ScanAdvance(link', x)
  /\ UNCHANGED pend
  /\ UNCHANGED <<frames, blim, lastbl, npk, lastnp, res, T, knpk, out, onfirst, onlast, spot>>

\* scan loop, linking on image 2: merge(&res2[jpk], &res2[ipk])       (:354-362)
MergeSame2(x) ==
  /\ pc = "scan" /\ i = x
  /\ LET fr  == Find(link, x)
         j   == fr[1]
         jpk == j
         ipk == x
         ok  == jpk \in 1..Len(res) /\ jpk <= N2 /\ ipk \in 1..Len(res) /\ ipk <= N2
     IN /\ x < N2 + 1 /\ j < N2 + 1
        /\ link' = fr[2]
        /\ bad' = bad \cup (IF ok THEN {} ELSE {"boundscheck same2"})
        /\ res' = IF ok THEN [res EXCEPT ![jpk] = MergeRow(@, res[ipk]), ![ipk] = ZeroRow] ELSE res
        /\ ScanAdvance(link', x)
  /\ UNCHANGED pend
  /\ UNCHANGED <<frames, blim, lastbl, npk, lastnp, lastres, T, knpk, out, onfirst, onlast, spot>>

\* the T numbering loop (:381-391); dset_find compresses paths in link
RECURSIVE CompT(_, _, _, _, _)
CompT(L, TT, k, x, flag) ==      \* -> <<link, T, npk, assert j < i failed>>
  IF x > N2 THEN <<L, TT, k, flag>>
  ELSE IF L[x] = x THEN CompT(L, [TT EXCEPT ![x] = k + 1], k + 1, x + 1, flag)
  ELSE LET fr == Find(L, x)
       IN CompT(fr[2], [TT EXCEPT ![x] = TT[fr[1]]], k, x + 1, flag \/ ~(fr[1] < x))

CompressT ==
  /\ pc = "compress"
  /\ LET r == CompT(link, [x \in 0..(N2 + 2) |-> 0], 0, 1, FALSE)
     IN /\ link' = r[1] /\ T' = r[2] /\ knpk' = r[3]
        /\ bad' = bad \cup (IF r[4] THEN {"assert j < i"} ELSE {})
        /\ LET nx == NextCopy(r[1], r[2], 1)
           IN IF nx <= N2 THEN pc' = "copy" /\ i' = nx ELSE pc' = "relabel" /\ i' = 0
  /\ UNCHANGED pend
  /\ UNCHANGED <<frames, blim, lastbl, npk, lastnp, res, lastres, out, onfirst, onlast, spot>>

CopyAdvance(x) ==
  LET nx == NextCopy(link, T, x + 1)
  IN IF nx <= N2 THEN pc' = "copy" /\ i' = nx ELSE pc' = "relabel" /\ i' = 0

\* "copy and zero out" of an accumulating row that moves down (:402-409)
CopyMoved(x) ==
  /\ pc = "copy" /\ i = x /\ link[x] = x
  /\ LET ok == T[x] < link[x] /\ T[x] \in 1..Len(res) /\ link[x] \in 1..Len(res)
     IN /\ bad' = bad \cup (IF ok THEN {} ELSE {"Bad logic in bloboverlaps"})
                      \cup (IF ok /\ res[T[x]] # ZeroRow THEN {"copy onto live row"} ELSE {})
        /\ res' = IF ok THEN [res EXCEPT ![T[x]] = res[link[x]], ![link[x]] = ZeroRow] ELSE res
  /\ CopyAdvance(x)
  /\ UNCHANGED pend
  /\ UNCHANGED <<frames, blim, lastbl, npk, lastnp, lastres, link, T, knpk, out, onfirst, onlast, spot>>

\* a row merged away in the scan: "assert this is empty" (:410-413)
CopyCheckEmpty(x) ==
  /\ pc = "copy" /\ i = x /\ link[x] # x
  /\ bad' = bad \cup (IF T[x] < link[x] THEN {} ELSE {"Bad logic in bloboverlaps"})
                \cup (IF x \in 1..Len(res) /\ res[x].n = 0 THEN {} ELSE {"assert empty"})
  /\ CopyAdvance(x)
  /\ UNCHANGED pend
  /\ UNCHANGED <<frames, blim, lastbl, npk, lastnp, res, lastres, link, T, knpk, out, onfirst, onlast, spot>>

\* relabel pass and return npk (:424-446); labelimage stores the return value in self.npk
Relabel ==
  /\ pc = "relabel"
  /\ LET okidx == \A p \in Pix : blim[p] \in 0..(N2 + 2)
         oknew == okidx /\ \A p \in Pix : blim[p] # 0 /\ T[blim[p]] # blim[p] => T[blim[p]] \in 1..N2
     IN /\ bad' = bad \cup (IF okidx THEN {} ELSE {"relabel index"})
                      \cup (IF oknew THEN {} ELSE {"assert ipk in 1..n2"})
        /\ blim' = IF okidx THEN [p \in Pix |-> IF blim[p] = 0 THEN 0 ELSE T[blim[p]]] ELSE blim
  /\ npk' = knpk
  /\ pc' = "output"
  /\ UNCHANGED pend
  /\ UNCHANGED <<frames, lastbl, lastnp, res, lastres, link, T, i, knpk, out, onfirst, onlast, spot>>

\* blob_moments(lastres[:lastnp]); outputpeaks(lastres[:lastnp])  (labelimage.py:209-214, 244-270)
Output ==
  /\ pc = "output"
  /\ IF lastnp > 0
     THEN LET e == Emitted(SubSeq(lastres, 1, lastnp))
          IN out' = out \o e /\ spot' = spot + Len(e) /\ onfirst' = 0
     ELSE UNCHANGED <<out, spot, onfirst>>
  /\ pc' = "swap"
  /\ UNCHANGED pend
  /\ UNCHANGED <<frames, blim, lastbl, npk, lastnp, res, lastres, link, T, i, knpk, onlast, bad>>

\* "lastres is now moved forward into res" + swap of the blob images (labelimage.py:215-222)
Swap ==
  /\ pc = "swap"
  /\ lastnp' = npk
  /\ lastres' = IF npk > 0 THEN SubSeq(res, 1, npk) ELSE <<>>
  /\ lastbl' = blim /\ blim' = lastbl
  /\ pc' = "idle"
  /\ UNCHANGED pend
  /\ UNCHANGED <<frames, npk, res, link, T, i, knpk, out, onfirst, onlast, spot, bad>>

\* finalise (labelimage.py:275-282)
Finalise ==
  /\ pc = "idle" /\ Len(frames) >= 1 /\ pend = <<>>
  /\ onlast' = 1
  /\ IF lastres # <<>>
     THEN LET ne == NonEmpty(lastres)
              e  == [j \in 1..Len(ne) |-> [row |-> ne[j], onfirst |-> onfirst, onlast |-> 1,
                                          id |-> spot + j - 1]]
          IN out' = out \o e /\ spot' = spot + Len(e) /\ onfirst' = 0
     ELSE UNCHANGED <<out, spot, onfirst>>
  /\ pc' = "done"
  /\ UNCHANGED pend
  /\ UNCHANGED <<frames, blim, lastbl, npk, lastnp, res, lastres, link, T, i, knpk, bad>>

Kernel ==
  \/ EnterOverlaps \/ SkipOverlaps
  \/ \E px \in Pix : Overlap(px)
  \/ \E x \in 1..(2 * NPX + 2) : MergeAcross(x) \/ MergeSame1(x) \/ MergeSame2(x)
  \/ CompressT
  \/ \E x \in 1..NPX : CopyMoved(x) \/ CopyCheckEmpty(x)
  \/ Relabel

Alphabet == [Pix -> VALS]

Next == \/ \E raw \in Alphabet : Peaksearch(raw)
        \/ MergeFirst \/ Kernel \/ Output \/ Swap \/ Finalise

FinaliseFull == Len(frames) = MAXFR /\ Finalise

NextSim == \/ \E v \in VALS : PickPixel(v)
           \/ PeaksearchPending
           \/ MergeFirst \/ Kernel \/ Output \/ Swap \/ FinaliseFull

Spec == Init /\ [][Next]_vars
SimSpec == Init /\ [][NextSim]_vars

-----------------------------------------------------------------------------
(* invariants *)

InKernel == pc \in {"overlap", "scan", "compress", "copy", "relabel"}

NoBad == bad = {}

ShapeOK ==
  /\ pc \in {"idle", "searched", "overlap", "scan", "compress", "copy", "relabel",
             "output", "swap", "done"}
  /\ Len(frames) <= MAXFR
  /\ lastnp >= FIRST /\ npk >= 0
  /\ lastnp # FIRST => Len(lastres) = lastnp
  /\ pc \in {"searched"} \cup {"overlap", "scan", "compress", "copy", "relabel"} => Len(res) = npk
  /\ pc \in {"output", "swap", "idle", "done"} => Len(res) >= npk
  /\ pc \in {"searched", "output", "swap"} => \A p \in Pix : blim[p] \in 0..npk
  /\ pc \in {"idle", "done"} /\ lastnp # FIRST => \A p \in Pix : lastbl[p] \in 0..lastnp
  /\ InKernel => /\ DOMAIN link = 0..(LinkLen - 1)
                 /\ \A p \in Pix : lastbl[p] \in 0..N1 /\ blim[p] \in 0..N2
  /\ pc \in {"copy", "relabel"} => DOMAIN T = 0..(N2 + 2)

\* disjoint set shape: every entry points down, the sentinel and slot 0 are untouched
LinkOK ==
  InKernel => /\ link[0] = LinkLen /\ link[N2 + 1] = -99999
              /\ \A x \in 1..(LinkLen - 1) : x # N2 + 1 => link[x] \in 1..x /\ link[x] # N2 + 1

\* the branch "linking on the same image (1)" can never be taken: a class with two image-1
\* members always has an image-2 member, which is lower and therefore the root
NoSame1 == pc = "scan" => ~(i > N2 + 1 /\ Root(link, i) > N2 + 1)

\* the three cases of the scan loop are exhaustive (the C code ends in assert("I am not here!"))
ScanLive == pc = "scan" => /\ i \in 1..(LinkLen - 1) /\ i # N2 + 1 /\ link[i] # i
                           /\ LET j == Root(link, i)
                              IN (i > N2 + 1 /\ j < N2 + 1) \/ (i < N2 + 1 /\ j < N2 + 1)

\* conservation in every state
RowsN(rows) == LET F[k \in 0..Len(rows)] == IF k = 0 THEN 0 ELSE F[k - 1] + rows[k].n IN F[Len(rows)]
RowsI(rows) == LET F[k \in 0..Len(rows)] == IF k = 0 THEN 0 ELSE F[k - 1] + rows[k].I IN F[Len(rows)]
RowsI2(rows) == LET F[k \in 0..Len(rows)] == IF k = 0 THEN 0 ELSE F[k - 1] + rows[k].I2 IN F[Len(rows)]
OutRows == [j \in DOMAIN out |-> out[j].row]

Held ==     \* the row arrays that currently own pixels not yet written
  CASE pc = "idle" -> lastres
    [] pc = "swap" -> res
    [] pc = "done" -> <<>>
    [] OTHER       -> res \o lastres

Conserved ==
  LET V == Vox(frames)
      Iv(v) == frames[v[1]][v[2]]
      all == OutRows \o Held
  IN /\ RowsN(all) = Cardinality(V)
     /\ RowsI(all) = MapThenSumSet(Iv, V)
     /\ RowsI2(all) = MapThenSumSet(LAMBDA v : Iv(v) * Iv(v), V)

\* at return of bloboverlaps (and also when it was skipped)
KernelPost ==
  pc = "output" =>
    /\ {blim[p] : p \in Pix} \ {0} = 1..npk
    /\ \A r \in 1..Len(res) : IF r <= npk THEN res[r].n >= 1 ELSE res[r] = ZeroRow
    /\ \A p \in Pix : (blim[p] > 0) = Above(frames[Len(frames)][p])

\* emitted + open rows are the components of the frames seen so far, and lastbl labels every
\* pixel of the last frame with the row of its component (what the relabel step is for)
OmegaFresh(K) == \A k \in 1..(K - 1) : Omega(k) # Omega(K)     \* (fails for a zero step / a revisited angle)
PrefixOKX(asis) ==
  pc = "idle" /\ Len(frames) >= 1 =>
    LET K   == Len(frames)
        tab == CompTable(frames)
    IN /\ MatchesX(OutRows \o lastres, frames, tab, asis)
       /\ \A r \in DOMAIN lastres : /\ lastres[r].n >= 1
                                     /\ IF OMSEQ = <<>>      \* monotonic: the newest angle is an end of the range
                                        THEN lastres[r].bxo = Omega(K) \/ lastres[r].bno = Omega(K)
                                        ELSE lastres[r].bno <= Omega(K) /\ Omega(K) <= lastres[r].bxo
       /\ \A p \in Pix : (lastbl[p] > 0) = Above(frames[K][p])
       /\ \A p \in Pix : lastbl[p] > 0 =>
             /\ lastbl[p] \in DOMAIN lastres
             /\ \E pr \in tab : <<K, p>> \in pr[1] /\ AsIsCore(pr[2], asis) = Core(lastres[lastbl[p]])
       /\ OmegaFresh(K) => \A j \in DOMAIN out : out[j].row.bxo # Omega(K) /\ out[j].row.bno # Omega(K)
PrefixOK == PrefixOKX(FALSE)
PrefixOKAsIs == PrefixOKX(TRUE)

DoneOKX(asis) ==
  pc = "done" =>
    /\ MatchesX(OutRows, frames, CompTable(frames), asis)
    /\ \A j \in DOMAIN out : out[j].id = j - 1
    /\ spot = Len(out)
DoneOK == DoneOKX(FALSE)
DoneOKAsIs == DoneOKX(TRUE)

-----------------------------------------------------------------------------
(* emission for the harness: rows flattened in blobs.h column order *)

RowT(r) == <<r.n, r.I, r.I2, r.fI, r.ffI, r.sI, r.ssI, r.sfI, r.oI, r.ooI, r.soI, r.foI,
             r.mxI, r.mxf, r.mxs, r.mxo, r.bxf, r.bxs, r.bxo, r.bnf, r.bns, r.bno>>
RowsT(rows) == [j \in DOMAIN rows |-> RowT(rows[j])]
OutT == [j \in DOMAIN out |-> <<RowT(out[j].row), out[j].onfirst, out[j].onlast, out[j].id>>]

EmitDone ==
  pc = "done" => PrintT("@@" \o ToJson([k |-> "done", fr |-> frames, out |-> OutT]))

EmitStep ==
  EMITSTEPS /\ pc \in {"searched", "output", "idle", "done"} /\ Len(frames) >= 1 =>
    PrintT("@@" \o ToJson([k |-> pc, fr |-> frames, npk |-> npk, blim |-> blim, res |-> RowsT(res),
                           lastnp |-> lastnp, lastbl |-> lastbl, lastres |-> RowsT(lastres),
                           out |-> OutT, onfirst |-> onfirst, onlast |-> onlast, spot |-> spot]))
=============================================================================

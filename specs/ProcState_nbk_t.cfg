\* X07 thorough: array_bin / array_lt, OpenMP kernels, fork and spawn children
SPECIFICATION Spec
CONSTANTS
  EnvOmp = {0}
  Cores = {2}
  Slurm = {0}
  PutVals = {}
  SetVals = {}
  NbVals = {1}
  Starts = {}
  Hows = {"fork", "spawn"}
  POps = {"import", "kernel", "nbkernel", "launch"}
  COps = {"import", "nbkernel", "nbset"}
  NW = 0
  MaxDepth = 4
  BUG_INHERIT = TRUE
  BUG_NBRESET = TRUE
  EmitMode = 1
INVARIANT TypeOK
INVARIANT RegPositive
INVARIANT SafeNeverStuck
INVARIANT StopBound
INVARIANT LateNoWork
PROPERTY SetGet
PROPERTY WarnRule
PROPERTY PatchSafe
PROPERTY OneThreadNeverStuck
PROPERTY Restore
PROPERTY StopSticky
PROPERTY DoneIsFinal
PROPERTY RaiseStops
PROPERTY FlagPerProcess
PROPERTY PbpOneThread
ACTION_CONSTRAINT EmitTransition
VIEW View
CHECK_DEADLOCK FALSE

----------------------------- MODULE LocalMaxPar -----------------------------
(***************************************************************************)
(* The "walk to the maximum" parallel region of cImageD11.localmaxlabel    *)
(* (src/localmaxlabel.c:168-201) at the granularity of one shared-memory   *)
(* access per step.                                                        *)
(*                                                                         *)
(* Abstraction: a 1-D chain of N pixels; pixel N-1 is a labelled maximum   *)
(* (l = 0, lout = 1); every other pixel x points to x+1 (l[x] = 1 stands   *)
(* for "offset +1").  lout of the unlabelled pixels starts as POISON: any  *)
(* previous content of the output buffer.                                  *)
(*                                                                         *)
(* Two team sizes (OpenMP configurations):                                 *)
(*   NT    the team size REQUESTED = omp_get_max_threads() (OMP_NUM_THREADS *)
(*         or cimaged11_omp_set_num_threads); NT processes exist           *)
(*   team  (variable, chosen in Init from TEAMS, a subset of 1..NT) the     *)
(*         team size the runtime DELIVERS = omp_get_num_threads() inside    *)
(*         the region: threads team..NT-1 are not started (label Team).     *)
(*         TEAMS = {NT}: the ordinary configuration; TEAMS = 1..NT: the     *)
(*         runtime may hand out fewer threads than asked for               *)
(*         (OMP_THREAD_LIMIT, OMP_DYNAMIC=true, a busy machine).            *)
(* BLOCKS = "team": thread t of the team owns [Lo(t), Hi(t)) cut with the   *)
(*   DELIVERED size, exactly as the code computes it                        *)
(*   (dim0*dim1*tid/nt with nt = omp_get_num_threads() inside the region).  *)
(* BLOCKS = "max": variant that cuts the blocks with the REQUESTED size     *)
(*   (omp_get_max_threads() read in front of the region): the blocks of the *)
(*   threads that were not delivered are never walked.  TLC: RangesTile and *)
(*   Correct violated as soon as team < NT (vacuity configuration).         *)
(*                                                                         *)
(* FIXED = FALSE : the pinned code.  In the path relabel the flag l[q] is  *)
(*   cleared BEFORE the label lout[q] is written, and l[q] is read twice   *)
(*   per step of both loops.                                               *)
(* FIXED = TRUE  : the repaired ordering (label first, then flag).          *)
(* REREAD = TRUE : `q = q + o[l[q]]` reads l[q] a second time, as written; *)
(*   FALSE models a variant that re-uses the value already read.  TLC      *)
(*   shows the second read is harmless once the ordering is repaired.      *)
(*                                                                         *)
(* Property  Correct: when all threads are done every pixel carries the    *)
(* label of the maximum (the sequential result), for every interleaving    *)
(* and every delivered team size.                                          *)
(* RangesTile (state invariant, over requested AND delivered size): the    *)
(* ranges [Lo(t), Hi(t)) of the DELIVERED threads t < team tile 0..N-1 -    *)
(* every pixel is visited by exactly one thread that runs - for any NT and  *)
(* any team <= NT, also team > N where some threads own an empty range      *)
(* (configurations N=3 NT=5, N=4 NT=6).  The hooks build logs each running  *)
(* thread's tid / divisor / lo / hi; the harness requires, in every OpenMP  *)
(* environment, that the logged ranges tile the image, that the divisor is  *)
(* the number of threads that logged, and (ordinary configuration) one log  *)
(* per requested thread.                                                    *)
(* Memory model: sequential consistency (the repair adds flushes).         *)
(***************************************************************************)
EXTENDS Integers, Sequences, TLC
CONSTANTS N, NT, FIXED, REREAD, POISON, TEAMS, BLOCKS
ASSUME TEAMS \subseteq 1..NT /\ TEAMS # {} /\ BLOCKS \in {"team", "max"}
Threads == 0..(NT - 1)

(* --algorithm walk
variables team \in TEAMS,
          l = [x \in 0..(N - 1) |-> IF x = N - 1 THEN 0 ELSE 1],
          lout = [x \in 0..(N - 1) |-> IF x = N - 1 THEN 1 ELSE POISON];
define
  Div == IF BLOCKS = "team" THEN team ELSE NT       \* the `nt` of lo = dim0*dim1*tid/nt
  Lo(t) == (N * t) \div Div
  Hi(t) == (N * (t + 1)) \div Div
end define;
process th \in Threads
variables i = 0, q = 0, k = 0, lq = 0;
begin
 Team: if self >= team then goto Done;      \* not a member of the delivered team: never runs
       else i := Lo(self);
       end if;
 Loop: while i < Hi(self) do
   T0:  lq := l[i];                         \* if (l[i] == 0) continue;
        if lq = 0 then
           i := i + 1;
           goto Loop;
        end if;
   T1:  k := 0; q := i + lq;                \* q = i + o[l[i]]   (l[i] is only written by its owner)
   W1:  lq := l[q];                         \* while (l[q])
        if lq # 0 then
   W2:     if REREAD then q := q + l[q];    \*    q = q + o[l[q]] : second read of l[q] (may have become 0)
           else q := q + lq;                \*    (variant: use the value already read)
           end if;
           k := k + 1;
           goto W1;
        end if;
   A1:  lout[i] := lout[q];                 \* take label from max
        if k > 0 then
   R0:    q := i + l[i];
   R1:    lq := l[q];                       \* while (l[q])
          if lq # 0 then
            if q >= Lo(self) /\ q < Hi(self) then
               if FIXED then
   R2f:           lout[q] := lout[i];
   R3f:           l[q] := 0;
               else
   R2:            l[q] := 0;
   R3:            lout[q] := lout[i];
               end if;
            end if;
   R4:      q := q + l[q];                  \* q = q + o[l[q]] ; in range this is now o[0] = 0
            goto R1;
          end if;
        end if;
   Z:   l[i] := 0;
        i := i + 1;
 end while;
end process
end algorithm *)
\* BEGIN TRANSLATION
VARIABLES pc, team, l, lout

(* define statement *)
Div == IF BLOCKS = "team" THEN team ELSE NT
Lo(t) == (N * t) \div Div
Hi(t) == (N * (t + 1)) \div Div

VARIABLES i, q, k, lq

vars == << pc, team, l, lout, i, q, k, lq >>

ProcSet == (Threads)

Init == (* Global variables *)
        /\ team \in TEAMS
        /\ l = [x \in 0..(N - 1) |-> IF x = N - 1 THEN 0 ELSE 1]
        /\ lout = [x \in 0..(N - 1) |-> IF x = N - 1 THEN 1 ELSE POISON]
        (* Process th *)
        /\ i = [self \in Threads |-> 0]
        /\ q = [self \in Threads |-> 0]
        /\ k = [self \in Threads |-> 0]
        /\ lq = [self \in Threads |-> 0]
        /\ pc = [self \in ProcSet |-> "Team"]

Team(self) == /\ pc[self] = "Team"
              /\ IF self >= team
                    THEN /\ pc' = [pc EXCEPT ![self] = "Done"]
                         /\ i' = i
                    ELSE /\ i' = [i EXCEPT ![self] = Lo(self)]
                         /\ pc' = [pc EXCEPT ![self] = "Loop"]
              /\ UNCHANGED << team, l, lout, q, k, lq >>

Loop(self) == /\ pc[self] = "Loop"
              /\ IF i[self] < Hi(self)
                    THEN /\ pc' = [pc EXCEPT ![self] = "T0"]
                    ELSE /\ pc' = [pc EXCEPT ![self] = "Done"]
              /\ UNCHANGED << team, l, lout, i, q, k, lq >>

T0(self) == /\ pc[self] = "T0"
            /\ lq' = [lq EXCEPT ![self] = l[i[self]]]
            /\ IF lq'[self] = 0
                  THEN /\ i' = [i EXCEPT ![self] = i[self] + 1]
                       /\ pc' = [pc EXCEPT ![self] = "Loop"]
                  ELSE /\ pc' = [pc EXCEPT ![self] = "T1"]
                       /\ i' = i
            /\ UNCHANGED << team, l, lout, q, k >>

T1(self) == /\ pc[self] = "T1"
            /\ k' = [k EXCEPT ![self] = 0]
            /\ q' = [q EXCEPT ![self] = i[self] + lq[self]]
            /\ pc' = [pc EXCEPT ![self] = "W1"]
            /\ UNCHANGED << team, l, lout, i, lq >>

W1(self) == /\ pc[self] = "W1"
            /\ lq' = [lq EXCEPT ![self] = l[q[self]]]
            /\ IF lq'[self] # 0
                  THEN /\ pc' = [pc EXCEPT ![self] = "W2"]
                  ELSE /\ pc' = [pc EXCEPT ![self] = "A1"]
            /\ UNCHANGED << team, l, lout, i, q, k >>

W2(self) == /\ pc[self] = "W2"
            /\ IF REREAD
                  THEN /\ q' = [q EXCEPT ![self] = q[self] + l[q[self]]]
                  ELSE /\ q' = [q EXCEPT ![self] = q[self] + lq[self]]
            /\ k' = [k EXCEPT ![self] = k[self] + 1]
            /\ pc' = [pc EXCEPT ![self] = "W1"]
            /\ UNCHANGED << team, l, lout, i, lq >>

A1(self) == /\ pc[self] = "A1"
            /\ lout' = [lout EXCEPT ![i[self]] = lout[q[self]]]
            /\ IF k[self] > 0
                  THEN /\ pc' = [pc EXCEPT ![self] = "R0"]
                  ELSE /\ pc' = [pc EXCEPT ![self] = "Z"]
            /\ UNCHANGED << team, l, i, q, k, lq >>

R0(self) == /\ pc[self] = "R0"
            /\ q' = [q EXCEPT ![self] = i[self] + l[i[self]]]
            /\ pc' = [pc EXCEPT ![self] = "R1"]
            /\ UNCHANGED << team, l, lout, i, k, lq >>

R1(self) == /\ pc[self] = "R1"
            /\ lq' = [lq EXCEPT ![self] = l[q[self]]]
            /\ IF lq'[self] # 0
                  THEN /\ IF q[self] >= Lo(self) /\ q[self] < Hi(self)
                             THEN /\ IF FIXED
                                        THEN /\ pc' = [pc EXCEPT ![self] = "R2f"]
                                        ELSE /\ pc' = [pc EXCEPT ![self] = "R2"]
                             ELSE /\ pc' = [pc EXCEPT ![self] = "R4"]
                  ELSE /\ pc' = [pc EXCEPT ![self] = "Z"]
            /\ UNCHANGED << team, l, lout, i, q, k >>

R4(self) == /\ pc[self] = "R4"
            /\ q' = [q EXCEPT ![self] = q[self] + l[q[self]]]
            /\ pc' = [pc EXCEPT ![self] = "R1"]
            /\ UNCHANGED << team, l, lout, i, k, lq >>

R2f(self) == /\ pc[self] = "R2f"
             /\ lout' = [lout EXCEPT ![q[self]] = lout[i[self]]]
             /\ pc' = [pc EXCEPT ![self] = "R3f"]
             /\ UNCHANGED << team, l, i, q, k, lq >>

R3f(self) == /\ pc[self] = "R3f"
             /\ l' = [l EXCEPT ![q[self]] = 0]
             /\ pc' = [pc EXCEPT ![self] = "R4"]
             /\ UNCHANGED << team, lout, i, q, k, lq >>

R2(self) == /\ pc[self] = "R2"
            /\ l' = [l EXCEPT ![q[self]] = 0]
            /\ pc' = [pc EXCEPT ![self] = "R3"]
            /\ UNCHANGED << team, lout, i, q, k, lq >>

R3(self) == /\ pc[self] = "R3"
            /\ lout' = [lout EXCEPT ![q[self]] = lout[i[self]]]
            /\ pc' = [pc EXCEPT ![self] = "R4"]
            /\ UNCHANGED << team, l, i, q, k, lq >>

Z(self) == /\ pc[self] = "Z"
           /\ l' = [l EXCEPT ![i[self]] = 0]
           /\ i' = [i EXCEPT ![self] = i[self] + 1]
           /\ pc' = [pc EXCEPT ![self] = "Loop"]
           /\ UNCHANGED << team, lout, q, k, lq >>

th(self) == Team(self) \/ Loop(self) \/ T0(self) \/ T1(self) \/ W1(self)
               \/ W2(self) \/ A1(self) \/ R0(self) \/ R1(self) \/ R4(self)
               \/ R2f(self) \/ R3f(self) \/ R2(self) \/ R3(self) \/ Z(self)

(* Allow infinite stuttering to prevent deadlock on termination. *)
Terminating == /\ \A self \in ProcSet: pc[self] = "Done"
               /\ UNCHANGED vars

Next == (\E self \in Threads: th(self))
           \/ Terminating

Spec == Init /\ [][Next]_vars

Termination == <>(\A self \in ProcSet: pc[self] = "Done")

\* END TRANSLATION 

Correct == (\A t \in Threads : pc[t] = "Done") => (\A x \in 0..(N - 1) : lout[x] = 1)
\* a pixel flagged done always carries its final label (holds only for the repaired ordering)
FlagImpliesLabel == \A x \in 0..(N - 1) : l[x] = 0 => lout[x] = 1
\* every pixel belongs to the range of exactly one thread OF THE DELIVERED TEAM (the threads that run)
Running == 0..(team - 1)
RangesTile == \A x \in 0..(N - 1) : \E t \in Running : /\ Lo(t) <= x /\ x < Hi(t)
                                                        /\ \A u \in Running \ {t} : ~(Lo(u) <= x /\ x < Hi(u))
=============================================================================

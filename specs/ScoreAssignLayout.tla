------------------------- MODULE ScoreAssignLayout -------------------------
(***************************************************************************)
(* Competing assignment (ScoreAssign.tla) seen through the MEMORY LAYOUT   *)
(* of the arrays the Python callers hand to cImageD11.score_and_assign.    *)
(*                                                                         *)
(* The kernel (src/closest.c:366-397) reads its g-vectors as `vec *gv`:    *)
(* component c of peak k is item 3(k-1)+(c-1) of a buffer of native,       *)
(* aligned binary64 items.  Python hands over an (n,3) numpy array whose   *)
(* cell (k,c) may live anywhere: Addr(l,k,c) below.  The f2py wrapper      *)
(* (src/_cImageD11.pyf:531-547, gv and ubi are intent(c,in)) passes the    *)
(* array's own buffer only when Addr is the C map and the items are native *)
(* aligned binary64, otherwise a converted copy in which cell (k,c) is at  *)
(* 3(k-1)+(c-1).  Every caller has to keep that contract, whatever it does *)
(* to the array on the way (astype, ascontiguousarray, ravel, transpose):  *)
(*   indexing.indexer.__init__          :344  self.gv = gv.astype(float)   *)
(*                                       keeps the order of the input ("K")*)
(*   indexing.indexer_from_colfile      :282  columns transposed: column   *)
(*   indexing.indexer_from_colfile_and_ucell :304  major, whatever the     *)
(*                                       columns were                      *)
(*   indexing.indexer.readgvfile        :1241-1246  C ordered copy         *)
(*   indexing.indexer.assigntorings     :513  self.gv made C contiguous    *)
(*   indexing.indexer.saveindexing      :917  the same, then fight_over_.. *)
(*   indexing.indexer.fight_over_peaks  :886  self.gv as held              *)
(*   indexing.indexer.getind            :1078 self.gv as held              *)
(*   nbGui.nb_utils.assign_peaks_to_grains :486  np.transpose((gx,gy,gz))  *)
(*   sinograms.sinogram.GrainSinogram.prepare_peaks_from_2d :51  the same  *)
(*   refinegrains.assignlabels          :710-733  own (nr,3) C buffer      *)
(*                                       filled by compute_gv per grain    *)
(*                                                                         *)
(* constants  those of ScoreAssign (G R K E N LInitU LInitNN DInit EmitOn),*)
(*            R <= 3: row r is the UBI whose error on a peak is decided by *)
(*            component r of the peak (the harness's exact tables:         *)
(*            c07_lib.table_ubis), so a table IS a logical g-vector array: *)
(*            Comp(<<k,c>>) = tab[c][k]                                    *)
(*            GvLayouts  how the logical (K,3) array handed to a caller is *)
(*              stored: C, F (column major: transposed columns), rows2     *)
(*              (every second row of a (2K,3) array), cols2 (columns 0,2,4 *)
(*              of a (K,6) array), rev (rows reversed: negative stride),   *)
(*              f32 / f32F (binary32 items, C / F), i64 / i32F (integer    *)
(*              items: integer g-vectors), be (byte swapped binary64),     *)
(*              unaligned (buffer starts at an odd address), readonly      *)
(*            UbiLayouts  C, F, strided (every second row and column of a  *)
(*              6x6 array), f32, list (nested lists), i64                  *)
(*            Builds  how the indexer was made: indexer(gv=..),            *)
(*              indexer_from_colfile, indexer_from_colfile_and_ucell (the  *)
(*              layout then describes the array whose columns gx gy gz     *)
(*              are), set_gv (ind.gv assigned after construction),         *)
(*              readgvfile (text file: no layout survives)                 *)
(*            Preps   direct (the assignment is asked for straight away)   *)
(*              or rings (assigntorings() first)                           *)
(*            Flatten "wrapper": the kernel is handed what the f2py        *)
(*              contract says; "ravelK": a caller flattens the held array  *)
(*              in MEMORY order first (np.ravel(gv, order="K").reshape(    *)
(*              n,3)) - a documented wrong alternative, used only by       *)
(*              configuration _ravelK which MUST violate BestGrain         *)
(*            NFKinds  the kinds of NON-FINITE peaks enumerated ({}: none) *)
(*              a peak whose g-vector holds nan_one (NaN in one component),*)
(*              nan_all, pinf_one (+inf in one), ninf_one (-inf in one),   *)
(*              inf_all (+-inf in every component) - a NaN position in a   *)
(*              peak file, a NaN gx/gy/gz column, a division by zero       *)
(*              upstream.  h = UBI.g mixes every component of g into every *)
(*              component of h (0 * nan = nan, 0 * inf = nan, inf - inf =  *)
(*              nan), so such a peak has NO hkl error below the tolerance  *)
(*              for any UBI: by the statement it is indexed by no grain -  *)
(*              the logical table holds E on every row (Logical), whatever *)
(*              its finite components (tab) would score; the kernel's      *)
(*              `sumsq < tolsq` is false for a NaN sumsq (Seen = E).       *)
(*              Which component a _one kind sits in is immaterial here;    *)
(*              the harness rotates it with the peak's position.  Integer  *)
(*              item types cannot hold such a value, and assigntorings()   *)
(*              raises ValueError on it (no assignment is made: outside    *)
(*              the statement), so non-finite peaks are enumerated with    *)
(*              floating layouts and prep = direct only.  A configuration  *)
(*              with NFKinds # {} enumerates only behaviours with at least *)
(*              one non-finite peak (the all-finite ones are _lay's).      *)
(* variables  tab (the error table of the peaks' finite components), nf    *)
(*            (per peak "fin" or a kind in NFKinds), glay ulay build prep  *)
(*            (all chosen at Init, never changed), and                     *)
(*            ScoreAssign's order lab0 dr0 labels drlv2 call pend nret     *)
(*            rets snaps; ScoreAssign's `err` is instantiated TWICE:       *)
(*              Kern = ScoreAssign WITH err <- Seen   (what the kernel     *)
(*                     reads through the memory map: the actions)          *)
(*              Prop = ScoreAssign WITH err <- Logical (the logical array: *)
(*                     tab, E on every row of a non-finite peak: what the  *)
(*                     reference computes; the property's invariants)      *)
(* actions    Kern!Call, Kern!TakeP, Kern!ReleaseP, Kern!LeaveP,           *)
(*            Kern!Return                                                  *)
(* checked    Prop!ClosedForm, Counts, Represent, BestGrain, Unassigned,   *)
(*            StoredError, ReturnedCounts, Histogram, Sane,                *)
(*            OrderIndependent: the outcome is that of the LOGICAL array   *)
(*            for every layout x build x prep; LayoutBlind: Seen = Logical *)
(* bounds     _lay    G=R=2 K=1 N=2 (single calls, fresh passes in both    *)
(*                    orders, a label presented twice), labels buffer      *)
(*                    -1 / 0 / 1 / 2, all 16 tables, 108 layout            *)
(*                    combinations (Combos): every g-vector layout x every *)
(*                    build x prep with C ordered UBIs, every UBI layout   *)
(*                    with C / F g-vectors                                 *)
(*            _ravelK G=R=2 K=2 N=0, Flatten = "ravelK": TLC must report   *)
(*                    BestGrain violated (held layout F)                   *)
(*            _nf     G=R=2 K=1 N=2, labels buffer -1 / 0 / 1 / 2, all 16  *)
(*                    tables x the 5 non-finite kinds x 23 combinations    *)
(*                    (C, F, cols2, f32, be g-vectors x every build,       *)
(*                    direct; C / F UBIs): a non-finite peak is never      *)
(*                    taken, is released when the buffer held the          *)
(*                    presented label, keeps a foreign value, is not       *)
(*                    counted, its stored error stays what it was          *)
(*            every finished behaviour is emitted with its layout tags and *)
(*            realised by harness/props/c07.py as real numpy arrays with   *)
(*            that address map / item type on every caller route           *)
(***************************************************************************)
EXTENDS Integers, Sequences, FiniteSets, TLC, Json

CONSTANTS G, R, K, E, N, LInitU, LInitNN, DInit, EmitOn,
          GvLayouts, UbiLayouts, Builds, Preps, Flatten, NFKinds
ASSUME R <= 3 /\ Flatten \in {"wrapper", "ravelK"}
ASSUME NFKinds \subseteq {"nan_one", "nan_all", "pinf_one", "ninf_one", "inf_all"}

VARIABLES tab, nf, glay, ulay, build, prep,
          order, lab0, dr0, labels, drlv2, call, pend, nret, rets, snaps
lay == <<tab, nf, glay, ulay, build, prep>>
vars == <<lay, order, lab0, dr0, labels, drlv2, call, pend, nret, rets, snaps>>

Rows == 1..R
Peaks == 1..K
Cells == Peaks \X (1..3)

\* ---- where cell (k,c) of the logical (K,3) array sits in its own buffer (unit: one item) ----
ColMajor(l) == l \in {"F", "f32F", "i32F"}
Addr(l, k, c) == CASE ColMajor(l) -> (c - 1) * K + (k - 1)
                   [] l = "rows2" -> 6 * (k - 1) + (c - 1)
                   [] l = "cols2" -> 6 * (k - 1) + 2 * (c - 1)
                   [] l = "rev"   -> 3 * (K - k) + (c - 1)
                   [] OTHER       -> 3 * (k - 1) + (c - 1)      \* C, f32, i64, be, unaligned, readonly: item type differs, not the map
\* the layout of the array the indexer HOLDS in .gv when the assignment is asked for
HeldLayout(b, p, l) == IF p = "rings" \/ b = "readgvfile" THEN "C"
                       ELSE IF b \in {"from_colfile", "from_colfile_and_ucell"} THEN "F"
                       ELSE IF b = "set_gv" THEN l
                       ELSE IF ColMajor(l) THEN "F" ELSE "C"                    \* astype(float): native items, same axis order
\* the layout combinations enumerated: UBIs C ordered for every g-vector layout x build x prep (a text file keeps no
\* layout); the other UBI layouts with C and F g-vectors on a directly built indexer
Combos == {c \in GvLayouts \X UbiLayouts \X Builds \X Preps :
             /\ c[2] = "C" \/ (c[1] \in {"C", "F"} /\ c[3] = "indexer" /\ c[4] = "direct")
             /\ c[3] = "readgvfile" => c[1] = "C"}

\* ---- what the kernel reads as component c of peak k ----------------------------------------------
Comp(kc) == IF kc[2] <= R THEN tab[kc[2]][kc[1]] ELSE E
\* memory order of numpy's "K": ascending address, negative strides flipped first
KAddr(l, kc) == IF l = "rev" THEN Addr("C", kc[1], kc[2]) ELSE Addr(l, kc[1], kc[2])
MemCell(l, i) == CHOOSE kc \in Cells : Cardinality({x \in Cells : KAddr(l, x) < KAddr(l, kc)}) = i
Item(i) == IF Flatten = "wrapper" THEN <<(i \div 3) + 1, (i % 3) + 1>>
           ELSE MemCell(HeldLayout(build, prep, glay), i)
\* a peak of which the kernel reads a cell of a non-finite logical peak scores NaN on every row: never below the cut
NonFin(k) == nf[k] # "fin"
IntLayouts == {"i64", "i32F"}
SeenNF(k) == \E c \in 0..2 : NonFin(Item(3 * (k - 1) + c)[1])
Seen == [r \in Rows |-> [k \in Peaks |-> IF SeenNF(k) THEN E ELSE Comp(Item(3 * (k - 1) + (r - 1)))]]
\* what the reference computes: a non-finite peak is indexed by no grain
Logical == [r \in Rows |-> [k \in Peaks |-> IF NonFin(k) THEN E ELSE tab[r][k]]]

Kern == INSTANCE ScoreAssign WITH err <- Seen
Prop == INSTANCE ScoreAssign WITH err <- Logical

Init == /\ tab \in [Rows -> [Peaks -> 0..E]]
        /\ nf \in [Peaks -> {"fin"} \cup NFKinds]
        /\ NFKinds # {} => \E k \in Peaks : NonFin(k)
        /\ \E c \in Combos : glay = c[1] /\ ulay = c[2] /\ build = c[3] /\ prep = c[4]
        /\ (\E k \in Peaks : NonFin(k)) => (glay \notin IntLayouts /\ prep = "direct")
        /\ order \in Prop!Orders
        /\ lab0 \in [Peaks -> Prop!LInit]
        /\ dr0 \in [Peaks -> DInit]
        /\ labels = lab0 /\ drlv2 = dr0
        /\ call = 0 /\ pend = {} /\ nret = 0 /\ rets = <<>> /\ snaps = <<>>
Next == UNCHANGED lay /\ Kern!Next
Spec == Init /\ [][Next]_vars

LayoutBlind == Seen = Logical
ClosedForm == Prop!ClosedForm
Counts == Prop!Counts
Represent == Prop!Represent
BestGrain == Prop!BestGrain
Unassigned == Prop!Unassigned
StoredError == Prop!StoredError
ReturnedCounts == Prop!ReturnedCounts
Histogram == Prop!Histogram
Sane == Prop!Sane
OrderIndependent == Prop!OrderIndependent

Emit == (Prop!Finished /\ EmitOn) =>
   PrintT("@@" \o ToJson([err |-> tab, order |-> order, lab0 |-> lab0, dr0 |-> dr0, labels |-> labels, drlv2 |-> drlv2,
                          rets |-> rets, snaps |-> snaps, noties |-> IF Prop!NoTies THEN 1 ELSE 0,
                          pass |-> IF Prop!SinglePass /\ Prop!Fresh THEN 1 ELSE 0,
                          glay |-> glay, ulay |-> ulay, build |-> build, prep |-> prep, nf |-> nf]))
=============================================================================

------------------------------ MODULE TraceRings ------------------------------
(***************************************************************************)
(* C03, second half: powder rings partition the sorted reflection list.    *)
(*                                                                         *)
(* MODELS   ImageD11/unitcell.py:488-507  unitcell.makerings(limit, tol)   *)
(*   (also reached through indexing.indexer.assigntorings, indexing.py:    *)
(*   437-457, whose ring table is unitcell.ringds / ringhkls and whose     *)
(*   per-peak ring assignment `ra` is the nearest ring within ds_tol).     *)
(*                                                                         *)
(* The input of one run is a sorted sequence `ds` of d-star values as      *)
(* integers (fixed point 1e-7 of the real floats; the harness only logs    *)
(* cases where no comparison with tol lies within the quantisation         *)
(* margin) and an integer tolerance `tol`.                                 *)
(*                                                                         *)
(* VARIABLES  t : number of the input being processed                      *)
(*   ph   : "begin" | "walk" | "assign" | "end"                            *)
(*   i    : cursor into ds (the `for peak in self.peaks[1:]` loop)         *)
(*   rings: the table built so far, a sequence of sequences of indices     *)
(*          into ds (ringhkls in ring order; ringds[j] = ds[rings[j][1]])  *)
(*   why  : first failed clause for this input ("" = none)                 *)
(*                                                                         *)
(* ACTIONS  (one per branch of makerings)                                  *)
(*   Begin  : take input t; in trace mode judge the PROPERTY clauses on    *)
(*            the table the real code returned                             *)
(*   First  : ringds = [peaks[0].ds] ; ringhkls[...] = [peaks[0].hkl]      *)
(*   Join   : abs(peak.ds - ringds[-1]) < tol -> append to the last ring   *)
(*   Open   : otherwise start a new ring                                   *)
(*   Close  : loop finished; in trace mode compare with the recorded table *)
(*   Assign : (assigntorings traces) every g-vector goes to the nearest    *)
(*            ring strictly within tol, first ring on ties, else -1        *)
(*   End    : print the verdict, next input                                *)
(*                                                                         *)
(* PROPERTY (independent of how the table was built) - RingLaws(ds,tol,R): *)
(*   cover      every list index occurs in some ring                       *)
(*   disjoint   no index occurs twice                                      *)
(*   runs       rings are contiguous ascending runs in list order          *)
(*   gap        neighbouring members of a ring differ by less than tol     *)
(*   nonempty   no ring is empty                                           *)
(* and the code's own rule, which implies `gap` on a sorted list:          *)
(*   start      a ring extends exactly while ds - ds(ring start) < tol     *)
(*                                                                         *)
(* TWO USES                                                                *)
(*  FROMFILE = FALSE : TLC enumerates every sorted sequence of length      *)
(*    1..K over 0..V and every tol in 1..T, runs the model and checks      *)
(*    RingLaws /\ StartRule on the model's table as invariants (the lemma  *)
(*    "code rule => stated property", exhaustive in the small scope).      *)
(*  FROMFILE = TRUE : inputs are ndjson lines recorded from the real code  *)
(*    {tid, route, tol, ds[], rs[] (quantised ringds), rm[][] (members of  *)
(*    each ring as 1-based list positions), gds[], ra[] (assigntorings)}.  *)
(*    One verdict line per trace: the failed clause or "".                 *)
(*    Tables made from long lists (BIG instances of HklWalk, 2e4 .. 1e6    *)
(*    reflections, thousands of rings) arrive as WINDOWS: a run of whole,  *)
(*    consecutive rings with their stretch of the list.  The grouping rule *)
(*    restarts at every ring start, so such a run is a trace of its own;   *)
(*    that the whole table is a partition of the whole list into           *)
(*    consecutive runs is judged in linear time by the harness             *)
(*    (c03_lib.judge_rings_np) with the same clauses.                      *)
(***************************************************************************)
EXTENDS Integers, Sequences, FiniteSets, TLC, Json, IOUtils

CONSTANTS FROMFILE, K, V, T

Traces == IF FROMFILE THEN ndJsonDeserialize(IOEnv.TRACE_FILE) ELSE <<>>
NT == Len(Traces)

VARIABLES t, inp, ph, i, rings, why
vars == <<t, inp, ph, i, rings, why>>

Abs(x) == IF x < 0 THEN -x ELSE x
Last(s) == s[Len(s)]
SeqSet(s) == { s[x] : x \in DOMAIN s }
RECURSIVE Flatten(_)
Flatten(ss) == IF ss = <<>> THEN <<>> ELSE Head(ss) \o Flatten(Tail(ss))

(* ---------------- the property on a ring table R over list ds ---------------------- *)
IsSorted(ds) == \A x \in 1..(Len(ds) - 1) : ds[x] <= ds[x + 1]
Cover(ds, R)    == \A x \in 1..Len(ds) : \E j \in DOMAIN R : x \in SeqSet(R[j])
Disjoint(ds, R) == /\ \A j \in DOMAIN R : \A a, c \in DOMAIN R[j] : a # c => R[j][a] # R[j][c]
                   /\ \A j1, j2 \in DOMAIN R : j1 # j2 => SeqSet(R[j1]) \cap SeqSet(R[j2]) = {}
                   /\ \A j \in DOMAIN R : SeqSet(R[j]) \subseteq 1..Len(ds)
Runs(ds, R)     == LET f == Flatten(R) IN Len(f) = Len(ds) /\ \A x \in 1..Len(f) : f[x] = x
Gap(ds, tol, R) == \A j \in DOMAIN R : \A a \in 1..(Len(R[j]) - 1) :
                      Abs(ds[R[j][a + 1]] - ds[R[j][a]]) < tol
NonEmpty(R)     == \A j \in DOMAIN R : Len(R[j]) > 0
RingLaws(ds, tol, R) == Cover(ds, R) /\ Disjoint(ds, R) /\ Runs(ds, R) /\ Gap(ds, tol, R) /\ NonEmpty(R)
\* the code's rule: every member is within tol of the ring start, the first member of the next
\* ring is not
StartRule(ds, tol, R) ==
    /\ \A j \in DOMAIN R : \A a \in DOMAIN R[j] : Abs(ds[R[j][a]] - ds[R[j][1]]) < tol
    /\ \A j \in 2..Len(R) : ~(Abs(ds[R[j][1]] - ds[R[j - 1][1]]) < tol)

FirstFailed(ds, tol, R, rs) ==
    CASE ~IsSorted(ds)        -> "prop:sorted"
      [] ~NonEmpty(R)         -> "prop:nonempty"
      [] ~Disjoint(ds, R)     -> "prop:disjoint"
      [] ~Cover(ds, R)        -> "prop:cover"
      [] ~Runs(ds, R)         -> "prop:runs"
      [] ~Gap(ds, tol, R)     -> "prop:gap"
      [] Len(rs) # Len(R)     -> "prop:ringds-count"
      [] \E j \in DOMAIN R : rs[j] # ds[R[j][1]] -> "prop:ringds-label"
      [] OTHER                -> ""

(* ---------------- inputs -------------------------------------------------------------- *)
SortedSeqs == UNION { { s \in [1..n -> 0..V] : \A x \in 1..(n - 1) : s[x] <= s[x + 1] } : n \in 1..K }
Blank == [ds |-> <<>>, tol |-> 1]

Init == /\ t = 1 /\ ph = "begin" /\ i = 0 /\ rings = <<>> /\ why = ""
        /\ inp = Blank
InitEnum == /\ t = 1 /\ ph = "begin" /\ i = 0 /\ rings = <<>> /\ why = ""
            /\ inp \in [ds : SortedSeqs, tol : 1..T]

ds == inp.ds
tol == inp.tol
N == Len(ds)

Begin == /\ ph = "begin"
         /\ IF FROMFILE
            THEN /\ t <= NT
                 /\ inp' = Traces[t]
                 /\ why' = FirstFailed(Traces[t].ds, Traces[t].tol, Traces[t].rm, Traces[t].rs)
            ELSE UNCHANGED <<inp, why>>
         /\ ph' = IF why' = "" THEN "walk" ELSE "end"
         /\ i' = 1 /\ rings' = <<>> /\ UNCHANGED t

\* peak = self.peaks[0]; self.ringds.append(peak[0]); self.ringhkls[peak[0]] = [peak[1]]
First == /\ ph = "walk" /\ i = 1 /\ N >= 1
         /\ rings' = << <<1>> >> /\ i' = 2
         /\ UNCHANGED <<t, inp, ph, why>>
\* if abs(peak[0] - self.ringds[-1]) < tol: self.ringhkls[self.ringds[-1]].append(peak[1])
Join  == /\ ph = "walk" /\ i > 1 /\ i <= N
         /\ Abs(ds[i] - ds[Last(rings)[1]]) < tol
         /\ rings' = [rings EXCEPT ![Len(rings)] = Append(@, i)] /\ i' = i + 1
         /\ UNCHANGED <<t, inp, ph, why>>
\* else: self.ringds.append(peak[0]); self.ringhkls[self.ringds[-1]] = [peak[1]]
Open  == /\ ph = "walk" /\ i > 1 /\ i <= N
         /\ ~(Abs(ds[i] - ds[Last(rings)[1]]) < tol)
         /\ rings' = Append(rings, <<i>>) /\ i' = i + 1
         /\ UNCHANGED <<t, inp, ph, why>>
\* loop over: the table is final.  Trace mode: it must be the recorded table.
Close == /\ ph = "walk" /\ i = N + 1
         /\ why' = IF FROMFILE /\ rings # inp.rm THEN "conf:table" ELSE ""
         /\ ph' = IF FROMFILE /\ why' = "" /\ inp.route = "assigntorings" THEN "assign" ELSE "end"
         /\ UNCHANGED <<t, inp, i, rings>>

\* indexing.py:451-457  best = tol; for j, dscalc: dserr = |ds - dscalc|; sel = dserr < best
RingOf(g) == LET rs == inp.rs
                 near == { j \in DOMAIN rs : Abs(g - rs[j]) < tol }
             IN IF near = {} THEN -1
                ELSE (CHOOSE j \in near : \A j2 \in near :
                         \/ Abs(g - rs[j]) < Abs(g - rs[j2])
                         \/ (Abs(g - rs[j]) = Abs(g - rs[j2]) /\ j <= j2)) - 1
Assign == /\ ph = "assign"
          /\ why' = IF \A p \in DOMAIN inp.gds : inp.ra[p] = RingOf(inp.gds[p]) THEN "" ELSE "conf:assign"
          /\ ph' = "end"
          /\ UNCHANGED <<t, inp, i, rings>>

End == /\ ph = "end"
       /\ FROMFILE => PrintT("@@" \o ToJson([tid |-> inp.tid, why |-> why, n |-> N, nrings |-> Len(rings)]))
       /\ t' = t + 1 /\ ph' = IF FROMFILE THEN "begin" ELSE "stop"
       /\ i' = 0 /\ rings' = <<>> /\ why' = "" /\ UNCHANGED inp

Next == Begin \/ First \/ Join \/ Open \/ Close \/ Assign \/ End
Spec == Init /\ [][Next]_vars
SpecEnum == InitEnum /\ [][Next]_vars

(* ---------------- invariants ------------------------------------------------------------- *)
\* the model's table obeys the stated property and the start rule on the prefix seen so far
Prefix == IF i >= 1 THEN SubSeq(ds, 1, i - 1) ELSE <<>>
ModelLaws == (ph = "walk" /\ i >= 2) =>
                /\ RingLaws(Prefix, tol, rings)
                /\ StartRule(Prefix, tol, rings)
\* maximality consequence: two different rings never have members within... (start rule only)
TypeOK == /\ ph \in {"begin", "walk", "assign", "end", "stop"}
          /\ t >= 1 /\ (FROMFILE => t <= NT + 1)
=============================================================================

\* thorough: all 25 named lattices, ring table of 12 rings, every ordered ring pair of the first 5 rings + the near-cut
\* ring pairs among the 12 rings, both tie rules, block ends as written (bug) and repaired; Scales_t = the scale
\* exponents of the instance family
SPECIFICATION Spec
CONSTANTS
  MODE = "rule"
  Cells <- Cells_t
  NR = 5
  NRC = 12
  PairSel = "all"
  TieRules = {"fwd", "rev"}
  BugEnds = {TRUE, FALSE}
  CRanges = {0, 2, 710}
  Rots <- Rots_t
  Scales <- Scales_t
INVARIANT TypeOK
INVARIANT CellLaws
INVARIANT ScaleLaw
INVARIANT Complete
INVARIANT Irredundant
INVARIANT NoCrash
INVARIANT BlocksExact
INVARIANT DedupAgrees
INVARIANT EvenBlocks
INVARIANT TrueFound
INVARIANT NoBoundaryTie
INVARIANT EmitCell
INVARIANT EmitDone
CHECK_DEADLOCK FALSE

\* thorough: all 21 named lattices, first 5 rings, every ordered ring pair, both tie rules,
\* block ends as written (bug) and repaired; Scales_t = the scale exponents of the instance family
SPECIFICATION Spec
CONSTANTS
  MODE = "rule"
  Cells <- Cells_t
  NR = 5
  PairSel = "all"
  TieRules = {"fwd", "rev"}
  BugEnds = {TRUE, FALSE}
  CRanges = {0, 2, 710}
  Rots <- Rots_t
  Scales <- Scales_t
INVARIANT TypeOK
INVARIANT CellLaws
INVARIANT ScaleLaw
INVARIANT Complete
INVARIANT Irredundant
INVARIANT NoCrash
INVARIANT BlocksExact
INVARIANT DedupAgrees
INVARIANT EvenBlocks
INVARIANT TrueFound
INVARIANT NoBoundaryTie
INVARIANT EmitCell
INVARIANT EmitDone
CHECK_DEADLOCK FALSE

\* thorough: all 18 named lattices, first 5 rings, every ordered ring pair, both tie rules,
\* block ends as written (bug) and repaired
SPECIFICATION Spec
CONSTANTS
  MODE = "rule"
  Cells <- Cells_t
  NR = 5
  PairSel = "all"
  TieRules = {"fwd", "rev"}
  BugEnds = {TRUE, FALSE}
  CRanges = {0, 2, 710}
  Rots <- Rots_t
INVARIANT TypeOK
INVARIANT CellLaws
INVARIANT Complete
INVARIANT Irredundant
INVARIANT NoCrash
INVARIANT BlocksExact
INVARIANT DedupAgrees
INVARIANT EvenBlocks
INVARIANT TrueFound
INVARIANT NoBoundaryTie
INVARIANT EmitCell
INVARIANT EmitDone
CHECK_DEADLOCK FALSE

\* X07 quick: environment (OMP_NUM_THREADS, affinity, SLURM_CPUS_PER_TASK), os.environ writes
SPECIFICATION Spec
CONSTANTS
  EnvOmp = {0, 3}
  Cores = {1, 2}
  Slurm = {8}
  PutVals = {1}
  SetVals = {}
  NbVals = {}
  Starts = {}
  Hows = {"default"}
  POps = {"putenv", "import", "launch"}
  COps = {"import"}
  NW = 0
  MaxDepth = 3
  BUG_INHERIT = TRUE
  BUG_NBRESET = TRUE
  EmitMode = 1
INVARIANT TypeOK
INVARIANT RegPositive
INVARIANT SafeNeverStuck
INVARIANT StopBound
INVARIANT LateNoWork
PROPERTY SetGet
PROPERTY WarnRule
PROPERTY PatchSafe
PROPERTY OneThreadNeverStuck
PROPERTY Restore
PROPERTY StopSticky
PROPERTY DoneIsFinal
PROPERTY RaiseStops
PROPERTY FlagPerProcess
PROPERTY PbpOneThread
ACTION_CONSTRAINT EmitTransition
VIEW View
CHECK_DEADLOCK FALSE

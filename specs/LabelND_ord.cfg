\* two threads, dynamic grab, the two loads and the two stores of an edge in either order (compiler freedom)
SPECIFICATION Spec
CONSTANTS
  NSet = {1,2,3}
  ESet = {0,1,2,3}
  Threads = {t1, t2}
  Static = FALSE
  OrdSet = {0,1,2,3}
  History = TRUE
  DoEmit = FALSE
  Bug = "none"
  Hist = 0
  DsHist = 0
  DsOps = {}
  NMon = 0
  Neg = FALSE
  Shape = "sorted"
SYMMETRY Sym
INVARIANT TypeOK
INVARIANT InComp
INVARIANT MinFixed
INVARIANT LocalsOK
INVARIANT ZeroAgree
INVARIANT Fixpoint
INVARIANT FixReadsRoot
INVARIANT CleanOK
INVARIANT MergeOK
INVARIANT SweepLegal
INVARIANT SeqExact
INVARIANT EmitInv
CHECK_DEADLOCK FALSE

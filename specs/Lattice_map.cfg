SPECIFICATION Spec
CONSTANTS
  PART = "map"
  CELLS <- CELLS_q
  GENS <- GENS_q
  ROTS <- ROTS_id
  MaxDepth = 0
  FORGET = {}
  NOCOPY = {}
  OBJ = "grain"
  ALIASARG = FALSE
  SAMEKEEP = FALSE
  UNWRITTEN = {}
  EmitMode = 0
INVARIANT NaNExact
INVARIANT Neighbours
INVARIANT EmitMap
CHECK_DEADLOCK FALSE

SPECIFICATION Spec
CONSTANTS
  NG = 2
  MAXCALLS = 5
  MAXFIT = 2
  NP = 1
  E = 3
  LAST_WINS = FALSE
  SORT_OBJ_ONLY = TRUE
  DROP_SETT = FALSE
INVARIANT SavedColumnsOwn
PROPERTY OnlyCurrentGrainMoves
CHECK_DEADLOCK FALSE

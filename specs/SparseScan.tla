------------------------------ MODULE SparseScan ------------------------------
(***************************************************************************)
(* Extra check X03 (specification growth): the multi-frame container       *)
(* ImageD11.sparseframe.SparseScan and the kernels it drives.              *)
(*                                                                         *)
(* Code modelled (pinned tree /repo), one action per public operation /    *)
(* loop body, kernels transcribed statement by statement:                  *)
(*   ImageD11/sparseframe.py:212-265  SparseScan.__init__ (group attrs,    *)
(*                     motor lookup by priority list, nnz -> pointers,     *)
(*                     start/n and "scan::[a:b]" sub-ranges)               *)
(*   ImageD11/sparseframe.py:267-277  getframe(i) (None for empty frames)  *)
(*   ImageD11/sparseframe.py:280-313  cplabel (loop over frames, offset    *)
(*                     nl, np.where(labels > 0, labels + nl, 0))           *)
(*   ImageD11/sparseframe.py:316-361  lmlabel (smooth / signal, shared     *)
(*                     work arrays vmx / imx, labels += nl)                *)
(*   ImageD11/sparseframe.py:363-391  moments (bincounts, frame index)     *)
(*   ImageD11/sparseframe.py:451-459  sparse_moments                       *)
(*   ImageD11/sparseframe.py:625-636  nnz_to_pointer                       *)
(*   src/sparse_image.c:164-247   sparse_connectedpixels  (operator CpK)   *)
(*   src/sparse_image.c:407-450   sparse_blob2Dproperties (actions Blob..) *)
(*   src/sparse_image.c:468-502   sparse_smooth           (actions Sm..)   *)
(*   src/sparse_image.c:525-665   sparse_localmaxlabel    (operator LmK)   *)
(* Declared extents (src/_cImageD11.pyf:261-351): v i j labels s MV iMV    *)
(*   all (nnz); results (npk, NPROPERTY2D = 11).                           *)
(*                                                                         *)
(* Arrays are functions on 0..n-1 (C / numpy indexing).  Every array       *)
(* access of the step just taken is logged with its declared extent in     *)
(* `acc` (slices log both ends against extent+1); invariant InBounds       *)
(* inspects it.  Float data are small integers (exact in binary32); the    *)
(* smoothed signal is carried as numerator over 16, moments as numerator   *)
(* and denominator.                                                        *)
(*                                                                         *)
(* A behaviour = one HDF5 scan group built frame by frame, one             *)
(* SparseScan(...) call and a fixed program of stages on that one object:  *)
(*   build   AddFrame.. (any image over {absent} + Vals; caps on the total  *)
(*           number of pixels per sequence length)                         *)
(*   Load(a,b)         __init__ for frames a..b-1  (a,b) = whole scan, or  *)
(*                     any proper sub-range when SubRanges                 *)
(*   GetFrame(i)       for every i                                         *)
(*   stages (set Stages, ascending, all on the same object; proper         *)
(*   sub-ranges run stage 1 only):                                         *)
(*      1 cplabel(Thr, countall=True)    2 cplabel(Thr, countall=False)    *)
(*      3 lmlabel(countall=True,  smooth=False)   4 (False, False)         *)
(*      5 lmlabel(countall=True,  smooth=True)    6 (False, True)          *)
(*     each stage: LabInit, [SmCopy, SmPixel.. ,] LabelFrame(i) per frame,  *)
(*     LabTotal, Moments(i) per frame + MomentsDone (countall stages),     *)
(*     per non-empty frame BlobStart(i) (= getframe(i) + the two init      *)
(*     loops of the kernel), BlobPixel per pixel, BlobEnd; StageEnd        *)
(*                                                                         *)
(* Variables: file (the scan group: frames as images, datasets row col     *)
(*   intensity nnz, motor datasets), pc, rng (a,b), sc (the SparseScan     *)
(*   object), got (getframe results), stage, lb (labels nlabels nl offs    *)
(*   total signal sigden vmx), L (loop variables i k prow npk), fr (frame  *)
(*   handed to the blob kernel), res (results array), blobs (finished      *)
(*   blob calls of the stage), mom (moments work), out (finished stage     *)
(*   results), acc.                                                        *)
(*                                                                         *)
(* Invariants (InBounds in every state; the others at the check points     *)
(* after Load / the last GetFrame / LabTotal / MomentsDone / the last      *)
(* BlobPixel of a frame - the object does not change in between):          *)
(*   InBounds     every index inside its declared extent                   *)
(*   PtrOK        ipt[0] = 0, ipt[i+1] - ipt[i] = nnz[i], ipt[n] = number  *)
(*                of pixels loaded, nnz = pixel counts of frames a..b-1    *)
(*   LoadOK       row / col / intensity = concatenation of the row-major   *)
(*                pixel lists of frames a..b-1; motors = the first         *)
(*                dataset present in the priority list, sliced [a:b]       *)
(*   GetOK        getframe(i) is None iff frame a+i has no pixel, else     *)
(*                exactly that frame's pixel list (all named arrays)       *)
(*   CpLabelsOK   label 0 exactly on pixels <= Thr; inside a frame the     *)
(*                classes are the 8-connected components numbered in       *)
(*                raster order; offset = labels of earlier frames when     *)
(*                countall, 0 otherwise                                    *)
(*   LmLabelsOK   every pixel labelled, frame i uses exactly               *)
(*                off+1..off+nlabels[i]; on tie-free signals the classes   *)
(*                are the steepest-ascent basins, maxima in raster order   *)
(*   CountsOK     nlabels[i] = number of components / maxima of frame i,   *)
(*                total_labels = sum; countall: the labels of the scan are *)
(*                exactly 1..total and no label occurs in two frames       *)
(*   SmoothOK     16 * signal[k] = 4 v[k] + 2 (edge neighbours) + 1        *)
(*                (corner neighbours), neighbours = listed pixels          *)
(*   MomentsOK    per label: pixel count, sum I, sum I*row, sum I*col,     *)
(*                sum I*omega[frame], sum I*dty[frame] by brute force      *)
(*   BlobOK       per label 1..npk: the seven sums and the bounding box    *)
(*                by brute force over the label's pixels; labels without   *)
(*                pixel in the frame: zeros and 65534 minima               *)
(*   MomentsTotal moments() returns (FIXED = FALSE models the tree: on a   *)
(*                scan without any pixel np.bincount gives integer arrays  *)
(*                and the in-place division raises)                        *)
(*   Emit         one JSON case per finished behaviour                     *)
(* Not modelled: reads of never-written cells of the work arrays MV / iMV  *)
(*   (covered for this kernel by C13); a label > npk handed to the blob    *)
(*   kernel (outside its contract: it prints and writes out of bounds).    *)
(* Configurations (2x3 = NS x NF, alphabet {0 = absent} + Vals):           *)
(*   _qa  2x3 {1,2}: all 729 single frames, pairs with <= 2 pixels;        *)
(*        stages 1 2 6           _qb  1x3 {1,2}: all sequences of <= 3     *)
(*        frames with <= 3 pixels; stages 1 3 6                            *)
(*   _qs  1x2 {2}: every sub-range of <= 3 frames x 3 motor layouts        *)
(*   _t1  2x3 {1,2}: singles + pairs with <= 3 pixels, all stages          *)
(*   _t2  2x3 {1,2}: <= 3 frames with <= 3 pixels, stages 1 3 4 6          *)
(*   _t3  2x3 {1,2,3}: all 4096 single frames, all stages                  *)
(*   _ts  1x3 {2}: every sub-range of <= 3 frames x 12 motor layouts       *)
(*   _asis  FIXED = FALSE: TLC must report MomentsTotal violated           *)
(***************************************************************************)
EXTENDS Dset, Json

CONSTANTS
    NS, NF,         \* frame shape
    Vals,           \* intensity alphabet (positive integers); 0 = pixel not listed
    MaxFrames,      \* sequences of 1..MaxFrames frames
    Cap1, Cap2, Cap3,   \* largest total pixel count of a sequence of 1 / 2 / 3 frames
    Thr,            \* threshold given to cplabel
    Stages,         \* subset of 1..6
    BlobStages,     \* the stages that end with sparse_moments on every frame
    SubRanges,      \* TRUE: also load every proper sub-range [a:b]
    MotorCfgs,      \* set of codes om + 16 * dm : bit m-1 of om (dm) = omeganames[m] (dtynames[m]) present
    FIXED           \* TRUE: moments() on a scan without pixels returns empty arrays

ASSUME Cap3 <= Cap2 /\ Cap2 <= Cap1 /\ MaxFrames \in 1..3 /\ Stages \subseteq 1..6 /\ BlobStages \subseteq Stages
ASSUME \A v \in Vals : v \in 1..9

VARIABLES file, pc, rng, sc, got, stage, lb, L, fr, res, blobs, mom, out, acc
vars == <<file, pc, rng, sc, got, stage, lb, L, fr, res, blobs, mom, out, acc>>

N == NS * NF
Px == 0..(N - 1)
RowOf(p) == p \div NF
ColOf(p) == p % NF
NPROP == 11
BIG == 65534
Poison == -7
MVLOW == -1000000000
NoneV == [none |-> TRUE]
IsNone(x) == x.none

Arr(n, v) == [x \in 0..(n - 1) |-> v]
Size(a) == Cardinality(DOMAIN a)
Rd(a, x) == IF x \in DOMAIN a THEN a[x] ELSE Poison
Wr(a, x, v) == IF x \in DOMAIN a THEN [a EXCEPT ![x] = v] ELSE a
Acc(name, x, ext) == [arr |-> name, ix |-> x, ext |-> ext]
AsSeq(a) == [x \in 1..Size(a) |-> a[x - 1]]
Slice(a, s, e) == [x \in 0..(e - s - 1) |-> Rd(a, s + x)]
Cat(a, b) == [x \in 0..(Size(a) + Size(b) - 1) |-> IF x < Size(a) THEN a[x] ELSE b[x - Size(a)]]
SumF(f) == LET S[x \in -1..(Size(f) - 1)] == IF x = -1 THEN 0 ELSE S[x - 1] + f[x] IN S[Size(f) - 1]
Max2(a, b) == IF a > b THEN a ELSE b
Min2(a, b) == IF a < b THEN a ELSE b
MaxF(f) == LET S[x \in -1..(Size(f) - 1)] == IF x = -1 THEN 0 ELSE Max2(S[x - 1], f[x]) IN S[Size(f) - 1]
\* a slice a[s:e] of an array of n elements: both ends must be inside 0..n
SliceAcc(name, s, e, n) == {Acc(name, s, n + 1), Acc(name, e, n + 1)}

\* the listed pixels of an image, ascending (row-major), as a 0-based array
PixArr(f) == LET F[p \in -1..(N - 1)] == IF p = -1 THEN <<>>
                                         ELSE IF f[p] > 0 THEN Append(F[p - 1], p) ELSE F[p - 1]
                 s == F[N - 1]
             IN [x \in 0..(Len(s) - 1) |-> s[x + 1]]

-----------------------------------------------------------------------------
(* the scan group and the motor datasets *)

Bit(code, m) == (code \div (2 ^ (m - 1))) % 2 = 1
OmVal(m, t) == 100 * m + 10 * t + 3         \* measurement/<omeganames[m]>[t]
DtyVal(m, t) == 7 * m + t + 1               \* measurement/<dtynames[m]>[t]
FirstBit(code) == IF \E m \in 1..4 : Bit(code, m) THEN CHOOSE m \in 1..4 : Bit(code, m) /\ \A q \in 1..(m - 1) : ~Bit(code, q)
                  ELSE 0

CapOf(n) == IF n = 1 THEN Cap1 ELSE IF n = 2 THEN Cap2 ELSE Cap3

L0 == [i |-> 0, k |-> 0, prow |-> 0, npk |-> 0, sm |-> 0]
lb0 == [labels |-> <<>>, nlabels |-> <<>>, nl |-> 0, offs |-> <<>>, total |-> -1, signal |-> <<>>, sigden |-> 1,
        vmx |-> 0]
mom0 == [frame |-> <<>>, n |-> <<>>, sI |-> <<>>, sr |-> <<>>, sc |-> <<>>, so |-> <<>>, sd |-> <<>>, result |-> NoneV]

Init ==
    /\ \E mc \in MotorCfgs :
         file = [frames |-> <<>>, row |-> <<>>, col |-> <<>>, int |-> <<>>, nnz |-> <<>>, mot |-> mc]
    /\ pc = "build" /\ rng = <<0, 0>> /\ sc = NoneV /\ got = <<>> /\ stage = 0 /\ lb = lb0 /\ L = L0
    /\ fr = NoneV /\ res = <<>> /\ blobs = <<>> /\ mom = mom0 /\ out = <<>> /\ acc = {}

\* the segmenter appends the pixels of the next image and its pixel count
\* all images, by number of listed pixels (a constant: TLC evaluates it once)
ImagesWith == [n \in 0..N |-> {f \in [Px -> {0} \cup Vals] : Cardinality({p \in Px : f[p] > 0}) = n}]

AddFrame ==
    /\ pc = "build" /\ Len(file.frames) < MaxFrames
    /\ \E n \in 0..N : \E f \in ImagesWith[n] :
         LET px == PixArr(f) IN
         /\ Size(file.row) + n <= CapOf(Len(file.frames) + 1)
         /\ file' = [file EXCEPT !.frames = Append(@, f),
                                 !.row = Cat(@, [x \in DOMAIN px |-> RowOf(px[x])]),
                                 !.col = Cat(@, [x \in DOMAIN px |-> ColOf(px[x])]),
                                 !.int = Cat(@, [x \in DOMAIN px |-> f[px[x]]]),
                                 !.nnz = Cat(@, Arr(1, Size(px)))]
    /\ acc' = {}
    /\ UNCHANGED <<pc, rng, sc, got, stage, lb, L, fr, res, blobs, mom, out>>

\* nnz_to_pointer, sparseframe.py:625-636 : out[0] = 0 ; np.cumsum(nnz, out = out[1:])
Pointer(nnz) == LET n == Size(nnz)
                    P[x \in 0..n] == IF x = 0 THEN 0 ELSE P[x - 1] + nnz[x - 1]
                IN [x \in 0..n |-> P[x]]

\* SparseScan.__init__ for frames a..b-1 (start = a, n = b - a, or "scan::[a:b]")
Load ==
    /\ pc = "build" /\ Len(file.frames) >= 1
    /\ \E a \in 0..(Len(file.frames) - 1) : \E b \in (a + 1)..Len(file.frames) :
        /\ SubRanges \/ (a = 0 /\ b = Len(file.frames))
        /\ LET nfr == Len(file.frames)
               iptall == Pointer(file.nnz)                      \* ipt = nnz_to_pointer(nnz)
               s == Rd(iptall, a)
               e == Rd(iptall, b)
               nnz == Slice(file.nnz, a, b)                     \* self.nnz = nnz[start:end]
               om == FirstBit(file.mot % 16)
               dm == FirstBit(file.mot \div 16)
           IN /\ sc' = [none |-> FALSE, shape |-> <<b - a, NS, NF>>,
                        row |-> Slice(file.row, s, e), col |-> Slice(file.col, s, e),
                        intensity |-> Slice(file.int, s, e),
                        nnz |-> nnz, ipt |-> Pointer(nnz),
                        names |-> <<"row", "col", "intensity">>,
                        omega |-> IF om = 0 THEN NoneV ELSE [none |-> FALSE, v |-> [t \in 0..(b - a - 1) |-> OmVal(om, a + t)]],
                        dty |-> IF dm = 0 THEN NoneV ELSE [none |-> FALSE, v |-> [t \in 0..(b - a - 1) |-> DtyVal(dm, a + t)]]]
              /\ rng' = <<a, b>>
              /\ acc' = {Acc("ipt", a, nfr + 1), Acc("ipt", b, nfr + 1)} \cup SliceAcc("nnz[:]", a, b, nfr)
                        \cup SliceAcc("row[:]", s, e, Size(file.row)) \cup SliceAcc("motor[:]", a, b, nfr)
    /\ pc' = "get" /\ L' = L0
    /\ UNCHANGED <<file, got, stage, lb, fr, res, blobs, mom, out>>

NFr == sc.shape[1]          \* frames held by the object
NPx == Size(sc.row)         \* pixels held by the object

\* getframe(i), sparseframe.py:267-277 ; labels = the current label array when 'labels' is in names
FrameOf(i, labels) ==
    LET s == Rd(sc.ipt, i)
        e == Rd(sc.ipt, i + 1)
    IN IF s = e THEN NoneV
       ELSE [none |-> FALSE, shape |-> <<sc.shape[2], sc.shape[3]>>, nnz |-> e - s,
             row |-> Slice(sc.row, s, e), col |-> Slice(sc.col, s, e),
             names |-> sc.names,
             px |-> [nm \in {sc.names[x] : x \in 1..Len(sc.names)} |->
                       CASE nm = "row" -> Slice(sc.row, s, e)
                         [] nm = "col" -> Slice(sc.col, s, e)
                         [] nm = "intensity" -> Slice(sc.intensity, s, e)
                         [] nm = "labels" -> Slice(labels, s, e)]]
FrameAcc(i) == {Acc("ipt", i, NFr + 1), Acc("ipt", i + 1, NFr + 1)}
               \cup SliceAcc("row[:]", Rd(sc.ipt, i), Rd(sc.ipt, i + 1), NPx)

GetFrame ==
    /\ pc = "get" /\ L.i < NFr
    /\ got' = Append(got, FrameOf(L.i, <<>>))
    /\ acc' = FrameAcc(L.i)
    /\ L' = [L EXCEPT !.i = L.i + 1]
    /\ UNCHANGED <<file, pc, rng, sc, stage, lb, fr, res, blobs, mom, out>>

\* the stages run on this object
FullRange == rng[1] = 0 /\ rng[2] = Len(file.frames)
MyStages == IF FullRange THEN Stages ELSE Stages \cap {1}
NextStage(s) == IF \E t \in MyStages : t > s THEN CHOOSE t \in MyStages : t > s /\ \A u \in MyStages : u > s => t <= u
                ELSE 0
Kind(s) == IF s \in {1, 2} THEN "cp" ELSE "lm"
CountAll(s) == s \in {1, 3, 5}
Smooth(s) == s \in {5, 6}

GetDone ==
    /\ pc = "get" /\ L.i >= NFr
    /\ stage' = NextStage(0)
    /\ pc' = IF NextStage(0) = 0 THEN "done" ELSE "lab_init"
    /\ acc' = {} /\ L' = L0
    /\ UNCHANGED <<file, rng, sc, got, lb, fr, res, blobs, mom, out>>

-----------------------------------------------------------------------------
(* cplabel / lmlabel preamble, sparseframe.py:290-294, 325-337 *)

LabInit ==
    /\ pc = "lab_init"
    /\ lb' = [labels |-> Arr(NPx, 0), nlabels |-> Arr(NFr, 0), nl |-> 0, offs |-> <<>>, total |-> -1,
              signal |-> IF Kind(stage) = "cp" THEN <<>>
                         ELSE IF Smooth(stage) THEN Arr(NPx, Poison)        \* np.empty
                         ELSE sc.intensity,                                  \* intensity.astype(float32)
              sigden |-> IF Smooth(stage) THEN 16 ELSE 1,
              vmx |-> IF Kind(stage) = "cp" THEN 0 ELSE MaxF(sc.nnz)]       \* npxmax = self.nnz.max()
    /\ sc' = [sc EXCEPT !.names = IF \E x \in 1..Len(@) : @[x] = "labels" THEN @ ELSE Append(@, "labels")]
    /\ pc' = "lab_frame" /\ L' = L0 /\ acc' = {}
    /\ UNCHANGED <<file, rng, got, stage, fr, res, blobs, mom, out>>

-----------------------------------------------------------------------------
(* shared loops of the two labelling kernels; c = [v, i, j, n]               *)

\* while (ir > i[pp]) pp++ ;   result [q, acc] ; a read outside the list stops the walk (and is logged)
RECURSIVE W1(_, _, _)
W1(c, q, ir) ==
    IF q \notin 0..(c.n - 1) THEN [q |-> q, acc |-> {Acc("i", q, c.n)}]
    ELSE IF ir > c.i[q] THEN LET r == W1(c, q + 1, ir) IN [q |-> r.q, acc |-> r.acc \cup {Acc("i", q, c.n)}]
    ELSE [q |-> q, acc |-> {Acc("i", q, c.n)}]

\* while (((j[k] - j[pp]) > 1) && (i[pp] == ir)) pp++      (localmax: (j[pp] + 1) < j[k], the same test)
RECURSIVE W2(_, _, _, _)
W2(c, q, k, ir) ==
    IF q \notin 0..(c.n - 1) THEN [q |-> q, acc |-> {Acc("j", q, c.n)}]
    ELSE IF (c.j[k] - c.j[q]) > 1 /\ c.i[q] = ir
         THEN LET r == W2(c, q + 1, k, ir) IN [q |-> r.q, acc |-> r.acc \cup {Acc("j", q, c.n), Acc("i", q, c.n)}]
    ELSE [q |-> q, acc |-> {Acc("j", q, c.n), Acc("i", q, c.n)}]

-----------------------------------------------------------------------------
(* sparse_connectedpixels, sparse_image.c:164-247 ; state m = [lab, S, pp, acc] *)

\* for (p = pp; j[p] <= j[k] + 1; p++) { if (i[p] == ir) { if (labels[p] > 0) match(...) } else break; }
RECURSIVE CpFor(_, _, _, _, _)
CpFor(c, k, ir, p, m) ==       \* m = [x, S, lab, acc]
    IF p \notin 0..(c.n - 1) THEN [m EXCEPT !.acc = @ \cup {Acc("j", p, c.n)}]
    ELSE IF ~(c.j[p] <= c.j[k] + 1) THEN [m EXCEPT !.acc = @ \cup {Acc("j", p, c.n)}]
    ELSE IF c.i[p] # ir THEN [m EXCEPT !.acc = @ \cup {Acc("j", p, c.n), Acc("i", p, c.n)}]
    ELSE LET m1 == IF m.lab[p] > 0 THEN LET t == Match([x |-> m.x, S |-> m.S], m.lab[p])
                                        IN [m EXCEPT !.x = t.x, !.S = t.S]
                   ELSE m
         IN CpFor(c, k, ir, p + 1, [m1 EXCEPT !.acc = @ \cup {Acc("j", p, c.n), Acc("i", p, c.n), Acc("labels", p, c.n)}])

\* newlabel: if (labels[k] == 0) S = dset_new(&S, &labels[k]);
CpNew(m, k, x, pp) ==
    IF x = 0 THEN LET nw == DsNew(m.S) IN [lab |-> [m.lab EXCEPT ![k] = nw[2]], S |-> nw[1], pp |-> pp, acc |-> m.acc]
    ELSE [lab |-> [m.lab EXCEPT ![k] = x], S |-> m.S, pp |-> pp, acc |-> m.acc]

CpStep(c, thr, m, k) ==
    LET m0 == [m EXCEPT !.lab[k] = 0, !.acc = @ \cup {Acc("labels", k, c.n), Acc("v", k, c.n)}]
    IN IF c.v[k] <= thr THEN m0
       ELSE IF k = 0 THEN CpNew(m0, k, 0, m0.pp)
       ELSE LET west == IF c.j[k - 1] + 1 = c.j[k] /\ c.i[k - 1] = c.i[k] /\ m0.lab[k - 1] > 0
                        THEN m0.lab[k - 1] ELSE 0
                m1 == [m0 EXCEPT !.acc = @ \cup {Acc("j", k - 1, c.n), Acc("i", k - 1, c.n), Acc("labels", k - 1, c.n)}]
            IN IF c.i[k] = 0 THEN CpNew(m1, k, west, m1.pp)
               ELSE LET ir == c.i[k] - 1
                        q1 == W1(c, m1.pp, ir)
                        m2 == [m1 EXCEPT !.acc = @ \cup q1.acc]
                    IN IF q1.q \notin 0..(c.n - 1) THEN [m2 EXCEPT !.pp = q1.q]     \* (logged as out of bounds)
                       ELSE IF c.i[q1.q] = c.i[k] THEN CpNew(m2, k, west, q1.q)     \* nothing on the row above
                       ELSE LET q2 == W2(c, q1.q, k, ir)
                                m3 == [m2 EXCEPT !.acc = @ \cup q2.acc]
                            IN IF q2.q \notin 0..(c.n - 1) THEN [m3 EXCEPT !.pp = q2.q]
                               ELSE LET t == CpFor(c, k, ir, q2.q, [x |-> west, S |-> m3.S, lab |-> m3.lab, acc |-> m3.acc])
                                    IN CpNew([lab |-> t.lab, S |-> t.S, pp |-> q2.q, acc |-> t.acc], k, t.x, q2.q)

\* CAP: the model's initial capacity of the disjoint set (16384 in the code; same growth rule)
CAP == 4
CpK(c, thr, labels0) ==
    LET F[k \in -1..(c.n - 1)] == IF k = -1 THEN [lab |-> labels0, S |-> DsInit(CAP), pp |-> 0, acc |-> {}]
                                  ELSE CpStep(c, thr, F[k - 1], k)
        m == F[c.n - 1]
        cm == DsCompress(m.S)                       \* T = dset_compress(&S, &np)
    IN [labels |-> [k \in 0..(c.n - 1) |-> IF m.lab[k] > 0 THEN cm[1][m.lab[k]] ELSE m.lab[k]],
        np |-> cm[2], acc |-> m.acc]

-----------------------------------------------------------------------------
(* sparse_localmaxlabel, sparse_image.c:525-665 ; state m = [MV, iMV, lab, pp, acc] *)

\* the two-way comparison of pixel k with an earlier neighbour p
LmCmp(c, m, k, p) ==
    IF c.v[k] > c.v[p]
    THEN IF c.v[k] > m.MV[p] THEN [m EXCEPT !.iMV[p] = k, !.MV[p] = c.v[k]] ELSE m       \* steal
    ELSE IF c.v[p] > m.MV[k] THEN [m EXCEPT !.iMV[k] = p, !.MV[k] = c.v[p]] ELSE m       \* point to it

\* for (p = pp; j[p] <= j[k] + 1; p++) { if (i[p] != ir) break; compare }
RECURSIVE LmFor(_, _, _, _, _)
LmFor(c, k, ir, p, m) ==
    IF p \notin 0..(c.n - 1) THEN [m EXCEPT !.acc = @ \cup {Acc("j", p, c.n)}]
    ELSE IF ~(c.j[p] <= c.j[k] + 1) THEN [m EXCEPT !.acc = @ \cup {Acc("j", p, c.n)}]
    ELSE IF c.i[p] # ir THEN [m EXCEPT !.acc = @ \cup {Acc("j", p, c.n), Acc("i", p, c.n)}]
    ELSE LmFor(c, k, ir, p + 1, [LmCmp(c, m, k, p) EXCEPT !.acc = @ \cup {Acc("j", p, c.n), Acc("i", p, c.n),
                                                                             Acc("v", p, c.n), Acc("MV", p, c.n)}])

LmStep(c, m, k) ==      \* loop body, k >= 1
    LET m0 == [m EXCEPT !.iMV[k] = k, !.MV[k] = MVLOW, !.acc = @ \cup {Acc("iMV", k, c.n), Acc("MV", k, c.n)}]
        ir == c.i[k] - 1
        q1 == W1(c, m0.pp, ir)
        m1 == [m0 EXCEPT !.acc = @ \cup q1.acc, !.pp = q1.q]
        m2 == IF q1.q \notin 0..(c.n - 1) THEN m1
              ELSE IF c.i[q1.q] < c.i[k]
                   THEN LET q2 == W2(c, q1.q, k, ir)
                            m1b == [m1 EXCEPT !.acc = @ \cup q2.acc, !.pp = q2.q]
                        IN IF q2.q \notin 0..(c.n - 1) THEN m1b ELSE LmFor(c, k, ir, q2.q, m1b)
                   ELSE m1
        p == k - 1
        m3 == IF c.i[k] = c.i[p] /\ c.j[k] = c.j[p] + 1 THEN LmCmp(c, m2, k, p) ELSE m2
    IN IF c.v[k] > m3.MV[k] THEN [m3 EXCEPT !.iMV[k] = k, !.MV[k] = c.v[k]] ELSE m3

\* while (iMV[p] != p) { p = iMV[p]; pnext++ }        result <<root, steps>> ; fuel: no cycle
RECURSIVE LmClimb(_, _, _, _)
LmClimb(iMV, p, cnt, fuel) ==
    IF p \notin DOMAIN iMV \/ fuel = 0 THEN <<-1, cnt>>
    ELSE IF iMV[p] = p THEN <<p, cnt>> ELSE LmClimb(iMV, iMV[p], cnt + 1, fuel - 1)

\* while (iMV[p] != p) { labels[p] = labels[k]; pnext = iMV[p]; iMV[p] = p; p = pnext; }
RECURSIVE LmFlat(_, _, _, _)
LmFlat(m, p, lk, fuel) ==
    IF p \notin DOMAIN m.iMV \/ fuel = 0 THEN [m EXCEPT !.acc = @ \cup {Acc("iMV", -1, 0)}]
    ELSE IF m.iMV[p] = p THEN m
    ELSE LmFlat([m EXCEPT !.lab[p] = lk, !.iMV[p] = p], m.iMV[p], lk, fuel - 1)

LmRoot(c, m, k) ==
    LET cl == LmClimb(m.iMV, m.iMV[k], 0, c.n + 1) IN
    IF cl[1] = -1 THEN [m EXCEPT !.acc = @ \cup {Acc("iMV", -1, 0)}]
    ELSE LET m1 == [m EXCEPT !.lab[k] = m.lab[cl[1]]]
         IN IF cl[2] > 0 THEN LmFlat([m1 EXCEPT !.iMV[k] = k], m1.iMV[k], m1.lab[k], c.n + 1) ELSE m1

LmK(c) ==       \* nnz >= 1 (the caller skips empty frames); MV / iMV are the caller's work arrays
    LET M[k \in 0..(c.n - 1)] ==
            IF k = 0 THEN [MV |-> [Arr(c.n, Poison) EXCEPT ![0] = c.v[0]], iMV |-> [Arr(c.n, Poison) EXCEPT ![0] = 0],
                           lab |-> Arr(c.n, Poison), pp |-> 0,
                           acc |-> {Acc("iMV", 0, c.n), Acc("MV", 0, c.n), Acc("v", 0, c.n)}]
            ELSE LmStep(c, M[k - 1], k)
        m == M[c.n - 1]
        \* count the maxima : labels[k] = -1 ; if (iMV[k] == k) labels[k] = ++pp
        C[k \in -1..(c.n - 1)] ==
            IF k = -1 THEN [lab |-> m.lab, pp |-> 0]
            ELSE IF m.iMV[k] = k THEN [lab |-> [C[k - 1].lab EXCEPT ![k] = C[k - 1].pp + 1], pp |-> C[k - 1].pp + 1]
            ELSE [lab |-> [C[k - 1].lab EXCEPT ![k] = -1], pp |-> C[k - 1].pp]
        R[k \in -1..(c.n - 1)] == IF k = -1 THEN [m EXCEPT !.lab = C[c.n - 1].lab] ELSE LmRoot(c, R[k - 1], k)
    IN [labels |-> R[c.n - 1].lab, np |-> C[c.n - 1].pp, acc |-> R[c.n - 1].acc]

-----------------------------------------------------------------------------
(* sparse_smooth, sparse_image.c:468-502 ; s carried as numerator over 16 (m = 1/16) *)

FrS == Rd(sc.ipt, L.i)          \* s, e of the frame being labelled
FrE == Rd(sc.ipt, L.i + 1)
FrN == FrE - FrS
\* the arrays handed to the labelling kernel: cplabel labels self.intensity, lmlabel labels self.signal
FrC == [v |-> Slice(IF Kind(stage) = "lm" THEN lb.signal ELSE sc.intensity, FrS, FrE),
        i |-> Slice(sc.row, FrS, FrE), j |-> Slice(sc.col, FrS, FrE), n |-> FrN]
SmC == [v |-> Slice(sc.intensity, FrS, FrE), i |-> Slice(sc.row, FrS, FrE), j |-> Slice(sc.col, FrS, FrE), n |-> FrN]

\* for (k = 0; k < nnz; k++) s[k] = v[k] * m;  prow = 0;
SmCopy ==
    /\ pc = "lab_frame" /\ L.i < NFr /\ Kind(stage) = "lm" /\ Smooth(stage) /\ FrN > 0 /\ L.sm = 0
    /\ lb' = [lb EXCEPT !.signal = [x \in DOMAIN @ |-> IF x >= FrS /\ x < FrE THEN sc.intensity[x] ELSE @[x]]]
    /\ L' = [L EXCEPT !.k = 0, !.prow = 0]
    /\ pc' = "sm_px"
    /\ acc' = FrameAcc(L.i) \cup {Acc("s", x, FrN) : x \in 0..(FrN - 1)} \cup {Acc("v", x, FrN) : x \in 0..(FrN - 1)}
    /\ UNCHANGED <<file, rng, sc, got, stage, fr, res, blobs, mom, out>>

\* while ((int)i[prow] < (int)(i[k] - 1)) prow++;
RECURSIVE SmW(_, _, _)
SmW(c, q, k) ==
    IF q \notin 0..(c.n - 1) THEN [q |-> q, acc |-> {Acc("i", q, c.n)}]
    ELSE IF c.i[q] < c.i[k] - 1 THEN LET r == SmW(c, q + 1, k) IN [q |-> r.q, acc |-> r.acc \cup {Acc("i", q, c.n)}]
    ELSE [q |-> q, acc |-> {Acc("i", q, c.n)}]

\* while (i[p] <= (i[k] + 1)) { r = di*di + dj*dj; if (r < 3) s[k] += v[p] * (m * (3 - r)); p++; if (p == nnz) break; }
RECURSIVE SmIn(_, _, _, _)
SmIn(c, k, p, t) ==     \* t = [s, acc], s = the running value of s[k] (x16)
    IF p \notin 0..(c.n - 1) THEN [t EXCEPT !.acc = @ \cup {Acc("i", p, c.n)}]
    ELSE IF ~(c.i[p] <= c.i[k] + 1) THEN [t EXCEPT !.acc = @ \cup {Acc("i", p, c.n)}]
    ELSE LET di == c.i[p] - c.i[k]
             dj == c.j[p] - c.j[k]
             r == di * di + dj * dj
             t1 == [s |-> IF r < 3 THEN t.s + c.v[p] * (3 - r) ELSE t.s,
                    acc |-> t.acc \cup {Acc("i", p, c.n), Acc("j", p, c.n)} \cup (IF r < 3 THEN {Acc("v", p, c.n)} ELSE {})]
         IN IF p + 1 = c.n THEN t1 ELSE SmIn(c, k, p + 1, t1)

SmPixel ==
    /\ pc = "sm_px" /\ L.k < FrN
    /\ LET c == SmC
           w == SmW(c, L.prow, L.k)
           t == IF w.q \in 0..(c.n - 1) THEN SmIn(c, L.k, w.q, [s |-> Rd(lb.signal, FrS + L.k), acc |-> {}])
                ELSE [s |-> Rd(lb.signal, FrS + L.k), acc |-> {}]
       IN /\ lb' = [lb EXCEPT !.signal = Wr(@, FrS + L.k, t.s)]
          /\ L' = [L EXCEPT !.k = L.k + 1, !.prow = w.q]
          /\ acc' = w.acc \cup t.acc \cup {Acc("s", L.k, FrN), Acc("i", L.k, FrN)}
    /\ UNCHANGED <<file, pc, rng, sc, got, stage, fr, res, blobs, mom, out>>

SmDone ==
    /\ pc = "sm_px" /\ L.k >= FrN
    /\ pc' = "lab_frame" /\ L' = [L EXCEPT !.sm = 1] /\ acc' = {}
    /\ UNCHANGED <<file, rng, sc, got, stage, lb, fr, res, blobs, mom, out>>

-----------------------------------------------------------------------------
(* the body of the frame loop of cplabel / lmlabel *)

LabelFrame ==
    /\ pc = "lab_frame" /\ L.i < NFr
    /\ (Kind(stage) = "lm" /\ Smooth(stage) /\ FrN > 0) => L.sm = 1
    /\ LET s == FrS
           e == FrE
           npx == Rd(sc.nnz, L.i)
       IN IF npx > 0
          THEN LET kr == IF Kind(stage) = "cp" THEN CpK(FrC, Thr, Slice(lb.labels, s, e)) ELSE LmK(FrC)
                   \* cp: np.where(labels > 0, labels + nl, 0) ; lm: labels += nl
                   newlab == [x \in 0..(e - s - 1) |->
                                IF Kind(stage) = "cp" THEN (IF kr.labels[x] > 0 THEN kr.labels[x] + lb.nl ELSE 0)
                                ELSE kr.labels[x] + lb.nl]
               IN /\ lb' = [lb EXCEPT !.labels = [x \in DOMAIN @ |-> IF x >= s /\ x < e THEN newlab[x - s] ELSE @[x]],
                                      !.nlabels = Wr(@, L.i, kr.np),
                                      !.offs = Append(@, lb.nl),
                                      !.nl = IF CountAll(stage) THEN lb.nl + kr.np ELSE lb.nl]
                  /\ acc' = kr.acc \cup FrameAcc(L.i) \cup {Acc("nnz", L.i, NFr), Acc("nlabels", L.i, NFr)}
                            \cup (IF Kind(stage) = "lm" THEN SliceAcc("vmx[:]", 0, npx, lb.vmx) ELSE {})
          ELSE /\ lb' = [lb EXCEPT !.nlabels = Wr(@, L.i, 0), !.offs = Append(@, lb.nl)]
               /\ acc' = FrameAcc(L.i) \cup {Acc("nnz", L.i, NFr), Acc("nlabels", L.i, NFr)}
    /\ L' = [L EXCEPT !.i = L.i + 1, !.sm = 0, !.k = 0, !.prow = 0]
    /\ UNCHANGED <<file, pc, rng, sc, got, stage, fr, res, blobs, mom, out>>

\* self.total_labels = self.nlabels.sum()
LabTotal ==
    /\ pc = "lab_frame" /\ L.i >= NFr
    /\ lb' = [lb EXCEPT !.total = SumF(lb.nlabels)]
    /\ pc' = IF CountAll(stage) THEN "mom_frame" ELSE "blob_start"
    /\ mom' = IF CountAll(stage)
              THEN LET z == Arr(SumF(lb.nlabels) + 1, 0)
                   IN [frame |-> Arr(NPx, Poison), n |-> z, sI |-> z, sr |-> z, sc |-> z, so |-> z, sd |-> z,
                       result |-> NoneV]
              ELSE mom0
    /\ L' = L0 /\ acc' = {}
    /\ UNCHANGED <<file, rng, sc, got, stage, fr, res, blobs, out>>

-----------------------------------------------------------------------------
(* moments(), sparseframe.py:363-391.  Moments(i): frame[ipt[i]:ipt[i+1]] = i and the contribution of
   the pixels of frame i to the six bincounts (minlength = total_labels + 1)                           *)

Moments ==
    /\ pc = "mom_frame" /\ L.i < NFr
    /\ LET s == Rd(sc.ipt, L.i)
           e == Rd(sc.ipt, L.i + 1)
           ext == lb.total + 1
           \* bin b collects the pixels x in s..e-1 with labels[x] = b
           add(bins, w(_)) == [b \in DOMAIN bins |->
                                 bins[b] + SumF([x \in 0..(e - s - 1) |-> IF lb.labels[s + x] = b THEN w(s + x) ELSE 0])]
           one(x) == 1
           wI(x) == sc.intensity[x]
           wr(x) == sc.intensity[x] * sc.row[x]
           wc(x) == sc.intensity[x] * sc.col[x]
           wo(x) == IF IsNone(sc.omega) THEN 0 ELSE sc.intensity[x] * sc.omega.v[L.i]
           wd(x) == IF IsNone(sc.dty) THEN 0 ELSE sc.intensity[x] * sc.dty.v[L.i]
       IN /\ mom' = [mom EXCEPT !.frame = [x \in DOMAIN @ |-> IF x >= s /\ x < e THEN L.i ELSE @[x]],
                                !.n = add(@, one), !.sI = add(@, wI), !.sr = add(@, wr), !.sc = add(@, wc),
                                !.so = add(@, wo), !.sd = add(@, wd)]
          /\ acc' = FrameAcc(L.i) \cup {Acc("bincount", lb.labels[x], ext) : x \in s..(e - 1)}
                    \cup {Acc("motor", L.i, NFr)}
    /\ L' = [L EXCEPT !.i = L.i + 1]
    /\ UNCHANGED <<file, pc, rng, sc, got, stage, lb, fr, res, blobs, out>>

\* [1:] drops the background bin ; the divisions
MomentsDone ==
    /\ pc = "mom_frame" /\ L.i >= NFr
    /\ IF ~FIXED /\ NPx = 0
       THEN pc' = "raised" /\ mom' = mom         \* integer arrays from np.bincount([]) ; `/=` raises
       ELSE /\ pc' = "blob_start"
            /\ LET tail(a) == [x \in 0..(Size(a) - 2) |-> a[x + 1]]
               IN mom' = [mom EXCEPT !.result = [none |-> FALSE, npx |-> tail(mom.n), sumI |-> tail(mom.sI), srow |-> tail(mom.sr),
                                                 scol |-> tail(mom.sc),
                                                 omega |-> IF IsNone(sc.omega) THEN <<>> ELSE tail(mom.so),
                                                 dty |-> IF IsNone(sc.dty) THEN <<>> ELSE tail(mom.sd)]]
    /\ L' = L0 /\ acc' = {}
    /\ UNCHANGED <<file, rng, sc, got, stage, lb, fr, res, blobs, out>>

-----------------------------------------------------------------------------
(* sparse_moments(getframe(i), "intensity", "labels") -> sparse_blob2Dproperties, sparse_image.c:407-450
   npk: the largest label the frame can hold (countall: labels of earlier frames included)             *)

NpkOf(i) == lb.offs[i + 1] + lb.nlabels[i]

BlobSkip ==     \* getframe(i) is None
    /\ pc = "blob_start" /\ L.i < NFr /\ stage \in BlobStages /\ IsNone(FrameOf(L.i, lb.labels))
    /\ L' = [L EXCEPT !.i = L.i + 1]
    /\ acc' = FrameAcc(L.i)
    /\ UNCHANGED <<file, pc, rng, sc, got, stage, lb, fr, res, blobs, mom, out>>

\* lines 414-420: the two initialisation loops
BlobStart ==
    /\ pc = "blob_start" /\ L.i < NFr /\ stage \in BlobStages /\ ~IsNone(FrameOf(L.i, lb.labels))
    /\ fr' = FrameOf(L.i, lb.labels)
    /\ LET npk == NpkOf(L.i)
       IN /\ res' = [x \in 0..(npk * NPROP - 1) |-> IF x % NPROP \in {9, 10} THEN BIG ELSE 0]
          /\ L' = [L EXCEPT !.k = 0, !.npk = npk]
          /\ acc' = FrameAcc(L.i) \cup {Acc("results", x, npk * NPROP) : x \in 0..(npk * NPROP - 1)}
                    \cup {Acc("results", k * NPROP + 9, npk * NPROP) : k \in 0..(npk - 1)}
                    \cup {Acc("results", k * NPROP + 10, npk * NPROP) : k \in 0..(npk - 1)}
    /\ pc' = "blob_px"
    /\ UNCHANGED <<file, rng, sc, got, stage, lb, blobs, mom, out>>

BlobBackground ==       \* labels[k] == 0 : continue
    /\ pc = "blob_px" /\ L.k < fr.nnz
    /\ Rd(fr.px["labels"], L.k) = 0
    /\ L' = [L EXCEPT !.k = L.k + 1]
    /\ acc' = {Acc("labels", L.k, fr.nnz)}
    /\ UNCHANGED <<file, pc, rng, sc, got, stage, lb, fr, res, blobs, mom, out>>

BlobPixel ==
    /\ pc = "blob_px" /\ L.k < fr.nnz
    /\ Rd(fr.px["labels"], L.k) # 0
    /\ LET kpk == (Rd(fr.px["labels"], L.k) - 1) * NPROP
           v == Rd(fr.px["intensity"], L.k)
           s == Rd(fr.row, L.k)
           f == Rd(fr.col, L.k)
           add(a, x, d) == Wr(a, x, Rd(a, x) + d)
           r1 == add(add(add(add(add(add(add(res, kpk, 1), kpk + 1, v), kpk + 2, v * f), kpk + 3, v * s),
                             kpk + 4, v * f * f), kpk + 5, v * s * f), kpk + 6, v * s * s)
           r2 == IF Rd(r1, kpk + 8) < s THEN Wr(r1, kpk + 8, s) ELSE r1         \* bb_mx_s
           r3 == IF Rd(r2, kpk + 7) < f THEN Wr(r2, kpk + 7, f) ELSE r2         \* bb_mx_f
           r4 == IF Rd(r3, kpk + 10) > s THEN Wr(r3, kpk + 10, s) ELSE r3       \* bb_mn_s
           r5 == IF Rd(r4, kpk + 9) > f THEN Wr(r4, kpk + 9, f) ELSE r4         \* bb_mn_f
       IN /\ res' = r5
          /\ acc' = {Acc("labels", L.k, fr.nnz), Acc("v", L.k, fr.nnz), Acc("i", L.k, fr.nnz), Acc("j", L.k, fr.nnz)}
                    \cup {Acc("results", kpk + x, L.npk * NPROP) : x \in 0..10}
    /\ L' = [L EXCEPT !.k = L.k + 1]
    /\ UNCHANGED <<file, pc, rng, sc, got, stage, lb, fr, blobs, mom, out>>

BlobEnd ==
    /\ pc = "blob_px" /\ L.k >= fr.nnz
    /\ blobs' = Append(blobs, [i |-> L.i, npk |-> L.npk, res |-> res, frame |-> fr])
    /\ pc' = "blob_start"
    /\ L' = [L EXCEPT !.i = L.i + 1, !.k = 0]
    /\ acc' = {}
    /\ UNCHANGED <<file, rng, sc, got, stage, lb, fr, res, mom, out>>

\* the finished stage: what the harness compares with
StageRec == [stage |-> stage, labels |-> lb.labels, nlabels |-> lb.nlabels, total |-> lb.total,
             signal |-> lb.signal, sigden |-> lb.sigden, names |-> sc.names, mom |-> mom.result,
             blobs |-> blobs]

StageEnd ==
    /\ pc = "blob_start" /\ (L.i >= NFr \/ stage \notin BlobStages)
    /\ out' = Append(out, StageRec)
    /\ stage' = NextStage(stage)
    /\ pc' = IF NextStage(stage) = 0 THEN "done" ELSE "lab_init"
    /\ L' = L0 /\ acc' = {} /\ fr' = NoneV /\ res' = <<>> /\ blobs' = <<>> /\ lb' = lb0 /\ mom' = mom0
    /\ UNCHANGED <<file, rng, sc, got>>

Next ==
    \/ AddFrame \/ Load \/ GetFrame \/ GetDone \/ LabInit \/ SmCopy \/ SmPixel \/ SmDone \/ LabelFrame \/ LabTotal
    \/ Moments \/ MomentsDone \/ BlobSkip \/ BlobStart \/ BlobBackground \/ BlobPixel \/ BlobEnd \/ StageEnd

Spec == Init /\ [][Next]_vars

-----------------------------------------------------------------------------
(* Invariants.  Everything below is stated on the images file.frames (the input), not on the
   pointer arithmetic of the actions.                                                          *)

InBounds == \A a \in acc : a.ix >= 0 /\ a.ix < a.ext

Loaded == ~IsNone(sc)
\* check points: the object does not change between them, so each statement is evaluated once per
\* behaviour (per stage, per frame) instead of in every state
AfterLoad == pc = "get" /\ L.i = 0
AfterGet == pc = "get" /\ L.i >= NFr
Img(i) == file.frames[rng[1] + i + 1]           \* the image behind frame i of the object
Listed(i) == {p \in Px : Img(i)[p] > 0}
\* position of pixel p of frame i in the object's flat arrays (by counting, not by pointers)
GIdx(i, p) == Cardinality({tp \in (0..(i - 1)) \X Px : Img(tp[1])[tp[2]] > 0})
              + Cardinality({q \in Listed(i) : q < p})
AllPix == {tp \in (0..(NFr - 1)) \X Px : Img(tp[1])[tp[2]] > 0}

PtrOK ==
    AfterLoad =>
        /\ NFr = rng[2] - rng[1] /\ Size(sc.nnz) = NFr /\ DOMAIN sc.ipt = 0..NFr
        /\ sc.ipt[0] = 0 /\ sc.ipt[NFr] = NPx
        /\ \A i \in 0..(NFr - 1) : sc.ipt[i + 1] - sc.ipt[i] = sc.nnz[i] /\ sc.nnz[i] = Cardinality(Listed(i))

LoadOK ==
    AfterLoad =>
        /\ NPx = Cardinality(AllPix) /\ Size(sc.col) = NPx /\ Size(sc.intensity) = NPx
        /\ \A tp \in AllPix : LET x == GIdx(tp[1], tp[2]) IN
              /\ sc.row[x] = RowOf(tp[2]) /\ sc.col[x] = ColOf(tp[2]) /\ sc.intensity[x] = Img(tp[1])[tp[2]]
        /\ sc.shape = <<rng[2] - rng[1], NS, NF>>
        /\ LET pm(code) == {m \in 1..4 : Bit(code, m)}
               first(S) == CHOOSE m \in S : \A q \in S : m <= q
               om == pm(file.mot % 16)
               dm == pm(file.mot \div 16)
           IN /\ IsNone(sc.omega) <=> om = {}
              /\ om # {} => sc.omega.v = [t \in 0..(NFr - 1) |-> OmVal(first(om), rng[1] + t)]
              /\ IsNone(sc.dty) <=> dm = {}
              /\ dm # {} => sc.dty.v = [t \in 0..(NFr - 1) |-> DtyVal(first(dm), rng[1] + t)]

\* a frame record g is exactly frame i (labels: lab = the scan's label array or <<>> before labelling)
IsFrame(g, i, lab) ==
    IF Listed(i) = {} THEN IsNone(g)
    ELSE /\ ~IsNone(g) /\ g.nnz = Cardinality(Listed(i)) /\ g.shape = <<NS, NF>>
         /\ DOMAIN g.row = 0..(g.nnz - 1) /\ DOMAIN g.col = 0..(g.nnz - 1)
         /\ \A nm \in DOMAIN g.px : DOMAIN g.px[nm] = 0..(g.nnz - 1)
         /\ \A p \in Listed(i) : LET k == Cardinality({q \in Listed(i) : q < p}) IN
               /\ g.row[k] = RowOf(p) /\ g.col[k] = ColOf(p)
               /\ g.px["row"][k] = RowOf(p) /\ g.px["col"][k] = ColOf(p) /\ g.px["intensity"][k] = Img(i)[p]
               /\ ("labels" \in DOMAIN g.px) => g.px["labels"][k] = lab[GIdx(i, p)]

GetOK ==
    AfterGet =>
        /\ Len(got) = NFr
        /\ \A x \in 1..Len(got) : /\ IsFrame(got[x], x - 1, <<>>)
                                   /\ ~IsNone(got[x]) => DOMAIN got[x].px = {"row", "col", "intensity"}

\* ---- labelling ---------------------------------------------------------------------------
Labelled == /\ stage # 0 /\ lb.total >= 0          \* the state LabTotal leads to
            /\ \/ pc = "mom_frame" /\ L.i = 0
               \/ pc = "blob_start" /\ L.i = 0 /\ ~CountAll(stage)

\* 8-connected components of the pixels above the threshold, numbered by their first pixel in raster order
Adj(p, q) == p # q /\ (RowOf(p) - RowOf(q)) \in {-1, 0, 1} /\ (ColOf(p) - ColOf(q)) \in {-1, 0, 1}
RECURSIVE Reach(_, _)
Reach(set, within) == LET nxt == set \cup {q \in within : \E p \in set : Adj(p, q)}
                      IN IF nxt = set THEN set ELSE Reach(nxt, within)
MinOf(set) == CHOOSE m \in set : \A x \in set : m <= x
Above(i) == {p \in Listed(i) : Img(i)[p] > Thr}
CompMin(i, p) == MinOf(Reach({p}, Above(i)))
NComp(i) == Cardinality({CompMin(i, p) : p \in Above(i)})
CompNo(i, p) == Cardinality({CompMin(i, q) : q \in {r \in Above(i) : CompMin(i, r) <= CompMin(i, p)}})
SumTo(i, g(_)) == SumF([t \in 0..(i - 1) |-> g(t)])

CpLabelsOK ==
    (Labelled /\ Kind(stage) = "cp") =>
        \A i \in 0..(NFr - 1) : \A p \in Listed(i) :
            lb.labels[GIdx(i, p)] = IF p \in Above(i)
                                    THEN CompNo(i, p) + (IF CountAll(stage) THEN SumTo(i, NComp) ELSE 0)
                                    ELSE 0

\* the signal lmlabel works on, per frame and pixel, as an exact numerator over lb.sigden
Weight(p, q) == IF p = q THEN 4 ELSE IF ~Adj(p, q) THEN 0
                ELSE IF RowOf(p) = RowOf(q) \/ ColOf(p) = ColOf(q) THEN 2 ELSE 1
SmoothDef(i, p) == SumF([q \in Px |-> IF q \in Listed(i) THEN Weight(p, q) * Img(i)[q] ELSE 0])
Sig(i, p) == IF Smooth(stage) THEN SmoothDef(i, p) ELSE Img(i)[p]

SmoothOK ==
    (Labelled /\ Kind(stage) = "lm") =>
        /\ lb.sigden = IF Smooth(stage) THEN 16 ELSE 1
        /\ \A i \in 0..(NFr - 1) : \A p \in Listed(i) : lb.signal[GIdx(i, p)] = Sig(i, p)

\* steepest ascent on the listed pixels; defined when every 3x3 block has one largest listed pixel
Block(i, p) == {q \in Listed(i) : q = p \/ Adj(p, q)}
TieFree(i) == \A p \in Listed(i) : Cardinality({m \in Block(i, p) : \A x \in Block(i, p) : Sig(i, m) >= Sig(i, x)}) = 1
Up(i, p) == CHOOSE m \in Block(i, p) : \A x \in Block(i, p) : Sig(i, m) >= Sig(i, x)
RECURSIVE Term(_, _)
Term(i, p) == IF Up(i, p) = p THEN p ELSE Term(i, Up(i, p))
Maxima(i) == {p \in Listed(i) : Up(i, p) = p}
Basin(i, p) == Cardinality({m \in Maxima(i) : m <= Term(i, p)})
LabelsOf(i) == {lb.labels[GIdx(i, p)] : p \in Listed(i)}
OffOf(i) == IF CountAll(stage) THEN SumTo(i, LAMBDA t : lb.nlabels[t]) ELSE 0

LmLabelsOK ==
    (Labelled /\ Kind(stage) = "lm") =>
        \A i \in 0..(NFr - 1) :
            /\ LabelsOf(i) = (OffOf(i) + 1)..(OffOf(i) + lb.nlabels[i])
            /\ TieFree(i) => /\ lb.nlabels[i] = Cardinality(Maxima(i))
                             /\ \A p \in Listed(i) : lb.labels[GIdx(i, p)] = OffOf(i) + Basin(i, p)

CountsOK ==
    Labelled =>
        /\ DOMAIN lb.nlabels = 0..(NFr - 1) /\ DOMAIN lb.labels = 0..(NPx - 1)
        /\ lb.total = SumF(lb.nlabels)
        /\ Kind(stage) = "cp" => \A i \in 0..(NFr - 1) : lb.nlabels[i] = NComp(i)
        /\ \A i \in 0..(NFr - 1) : lb.nlabels[i] = Cardinality(LabelsOf(i) \ {0})
        /\ \A i \in 0..(NFr - 1) : Listed(i) = {} => lb.nlabels[i] = 0
        /\ IF CountAll(stage)
           THEN /\ UNION {LabelsOf(i) \ {0} : i \in 0..(NFr - 1)} = 1..lb.total
                /\ \A i, k \in 0..(NFr - 1) : i # k => (LabelsOf(i) \cap LabelsOf(k)) \subseteq {0}
           ELSE \A i \in 0..(NFr - 1) : LabelsOf(i) \ {0} = 1..lb.nlabels[i]
        /\ \E x \in 1..Len(sc.names) : sc.names[x] = "labels"
        /\ Cardinality({x \in 1..Len(sc.names) : sc.names[x] = "labels"}) = 1

\* ---- moments -----------------------------------------------------------------------------
MomentsTotal == pc # "raised"

FrameIdx(x) == CHOOSE i \in 0..(NFr - 1) : \E p \in Listed(i) : GIdx(i, p) = x
MomentsOK ==
    (pc = "blob_start" /\ L.i = 0 /\ ~IsNone(mom.result)) =>
        LET r == mom.result
            sum(l, w(_)) == SumF([x \in 0..(NPx - 1) |-> IF lb.labels[x] = l THEN w(x) ELSE 0])
        IN /\ DOMAIN r.npx = 0..(lb.total - 1) /\ DOMAIN r.sumI = 0..(lb.total - 1)
           /\ DOMAIN r.srow = 0..(lb.total - 1) /\ DOMAIN r.scol = 0..(lb.total - 1)
           /\ \A l \in 1..lb.total :
                /\ r.npx[l - 1] = Cardinality({x \in 0..(NPx - 1) : lb.labels[x] = l})
                /\ r.npx[l - 1] >= 1 /\ r.sumI[l - 1] >= 1
                /\ r.sumI[l - 1] = sum(l, LAMBDA x : sc.intensity[x])
                /\ r.srow[l - 1] = sum(l, LAMBDA x : sc.intensity[x] * sc.row[x])
                /\ r.scol[l - 1] = sum(l, LAMBDA x : sc.intensity[x] * sc.col[x])
                /\ ~IsNone(sc.omega) => r.omega[l - 1] = sum(l, LAMBDA x : sc.intensity[x] * OmVal(FirstBit(file.mot % 16), rng[1] + FrameIdx(x)))
                /\ ~IsNone(sc.dty) => r.dty[l - 1] = sum(l, LAMBDA x : sc.intensity[x] * DtyVal(FirstBit(file.mot \div 16), rng[1] + FrameIdx(x)))
           /\ IsNone(sc.omega) => r.omega = <<>>
           /\ IsNone(sc.dty) => r.dty = <<>>

\* ---- blob properties ---------------------------------------------------------------------
BlobRow(i, P) ==        \* the 11 properties of the pixel set P of frame i
    LET sum(w(_)) == SumF([p \in Px |-> IF p \in P THEN w(p) ELSE 0])
        mx(w(_)) == CHOOSE m \in {w(p) : p \in P} : \A p \in P : m >= w(p)
        mn(w(_)) == CHOOSE m \in {w(p) : p \in P} : \A p \in P : m <= w(p)
        I(p) == Img(i)[p]
    IN IF P = {} THEN <<0, 0, 0, 0, 0, 0, 0, 0, 0, BIG, BIG>>
       ELSE <<Cardinality(P), sum(I), sum(LAMBDA p : I(p) * ColOf(p)), sum(LAMBDA p : I(p) * RowOf(p)),
              sum(LAMBDA p : I(p) * ColOf(p) * ColOf(p)), sum(LAMBDA p : I(p) * RowOf(p) * ColOf(p)),
              sum(LAMBDA p : I(p) * RowOf(p) * RowOf(p)),
              mx(ColOf), mx(RowOf), mn(ColOf), mn(RowOf)>>

BlobOK ==
    (pc = "blob_px" /\ L.k >= fr.nnz) =>
        /\ IsFrame(fr, L.i, lb.labels) /\ "labels" \in DOMAIN fr.px
        /\ DOMAIN res = 0..(L.npk * NPROP - 1)
        /\ \A p \in Listed(L.i) : lb.labels[GIdx(L.i, p)] \in 0..L.npk
        /\ \A l \in 1..L.npk :
              LET want == BlobRow(L.i, {p \in Listed(L.i) : lb.labels[GIdx(L.i, p)] = l})
              IN \A c \in 0..(NPROP - 1) : res[(l - 1) * NPROP + c] = want[c + 1]

\* ---- emission ----------------------------------------------------------------------------
OptJson(o) == IF IsNone(o) THEN <<>> ELSE <<AsSeq(o.v)>>
FrameJson(g) == IF IsNone(g) THEN <<>>
                ELSE <<[shape |-> g.shape, nnz |-> g.nnz, row |-> AsSeq(g.row), col |-> AsSeq(g.col),
                        names |-> g.names, px |-> [nm \in DOMAIN g.px |-> AsSeq(g.px[nm])]]>>
MomJson(r) == IF IsNone(r) THEN <<>>
              ELSE <<[npx |-> AsSeq(r.npx), sumI |-> AsSeq(r.sumI), srow |-> AsSeq(r.srow), scol |-> AsSeq(r.scol),
                      omega |-> IF IsNone(sc.omega) THEN <<>> ELSE <<AsSeq(r.omega)>>,
                      dty |-> IF IsNone(sc.dty) THEN <<>> ELSE <<AsSeq(r.dty)>>]>>
StageJson(s) == [stage |-> s.stage, labels |-> AsSeq(s.labels), nlabels |-> AsSeq(s.nlabels), total |-> s.total,
                 signal |-> AsSeq(s.signal), sigden |-> s.sigden, names |-> s.names, mom |-> MomJson(s.mom),
                 blobs |-> [x \in 1..Len(s.blobs) |->
                              [i |-> s.blobs[x].i, npk |-> s.blobs[x].npk, res |-> AsSeq(s.blobs[x].res),
                               frame |-> FrameJson(s.blobs[x].frame)]]]
\* the motor datasets of the scan group: entry m = <<values>> when <names>[m] exists, else <<>>
MotFile(code, val(_, _)) == [m \in 1..4 |-> IF Bit(code, m) THEN <<[t \in 1..Len(file.frames) |-> val(m, t - 1)]>> ELSE <<>>]
Case == [ns |-> NS, nf |-> NF, thr |-> Thr, nframes |-> Len(file.frames), mot |-> file.mot,
         omfile |-> MotFile(file.mot % 16, OmVal), dtyfile |-> MotFile(file.mot \div 16, DtyVal),
         blobflags |-> [x \in 1..6 |-> IF x \in BlobStages THEN 1 ELSE 0],
         row |-> AsSeq(file.row), col |-> AsSeq(file.col), intensity |-> AsSeq(file.int), nnz |-> AsSeq(file.nnz),
         a |-> rng[1], b |-> rng[2],
         sc |-> [shape |-> sc.shape, row |-> AsSeq(sc.row), col |-> AsSeq(sc.col), intensity |-> AsSeq(sc.intensity),
                 nnz |-> AsSeq(sc.nnz), ipt |-> AsSeq(sc.ipt), omega |-> OptJson(sc.omega), dty |-> OptJson(sc.dty)],
         got |-> [x \in 1..Len(got) |-> FrameJson(got[x])],
         out |-> [x \in 1..Len(out) |-> StageJson(out[x])]]

Emit == pc = "done" => PrintT("@@" \o ToJson(Case))

=============================================================================

\* random behaviours of 9 operations (tlc -simulate -depth 10), repaired tree
SPECIFICATION Spec
CONSTANTS
  MaxDepth = 9
  DsNames = {"R180", "M360", "M72", "E360", "ZIG", "IRR", "RPT", "F2D", "BADS"}
  StartForms = {"fresh", "imported", "saved", "cached", "sparse"}
  EmitMode = 2
  BUG_SINOHIST = FALSE
  BUG_LOAD360 = FALSE
  BUG_YSTEP = FALSE
  BUG_BADSCAN = FALSE
  BUG_SAVEDEF = FALSE
  BUG_SAVESHAPE = FALSE
  BUG_STALEBINS = FALSE
  BUG_COMPARE = FALSE
INVARIANT TypeOK
INVARIANT Partition
INVARIANT HistTotal
INVARIANT HistMatchesEdges
INVARIANT CentresAreMotors
INVARIANT SaveTotal
INVARIANT SaveTarget
INVARIANT BadScanBest
INVARIANT CompareSound
INVARIANT RoundTripAll
INVARIANT CacheNoMix
INVARIANT EmitFinal
VIEW View
CHECK_DEADLOCK FALSE

----------------------------- MODULE RefineFlow -----------------------------
(***************************************************************************)
(* The refinement protocol of ImageD11.refinegrains.refinegrains            *)
(* (refinegrains.py:202-822) and scripts/makemap.py.                        *)
(* The hazard: the translation of the grain being worked on travels through *)
(* the GLOBAL parameter object (t_x, t_y, t_z), g-vectors are recomputed    *)
(* per grain from it, and `self.gv` / `self.tolerance` are shared scratch.  *)
(*                                                                         *)
(* Peak ownership is explicit: NP peaks, err[g][k] in 0..E the error of    *)
(* grain g (identity, independent of its place in the ubi file) on peak k,  *)
(* E standing for "not within the tolerance" (only the order and the cut    *)
(* matter, as in ScoreAssign.tla of C07); order[p] = the grain listed at   *)
(* place p of the ubi file (labels written by the code are places).  A      *)
(* position refinement moves the grain, so its row of err is re-chosen.     *)
(*                                                                         *)
(* Translations are abstract values: <<"read", g, 0>> (from the grain file),   *)
(* <<"fit", g, n>> (stored after the n-th position refinement of g),        *)
(* <<"trial", g, 0>> (a simplex trial point for g), <<"global",0,0>>.      *)
(*                                                                         *)
(* variables  par_t      translation held by the parameter object           *)
(*            grain_t[g] translation held by grain g                        *)
(*            gen, lab   generate_grains done / labels valid (assignlabels  *)
(*                       done and no translation changed since)             *)
(*            nfit[g]    number of position refinements stored for g        *)
(*            tol        "user" | "one"  (refinepositions sets 1.0)         *)
(*            gvfor      <<g, translation>> the shared self.gv was made for *)
(*            call, step, cur   running public call, its program counter,   *)
(*                       the grain it is working on                         *)
(*            ncalls     public calls made so far (bounded)                 *)
(*            bad        first protocol violation observed ("" = none)      *)
(*            err, order (above) ; own[k] label of peak k (0 = none, else  *)
(*                       a place) ; drl[k] error stored for it (E initial)  *)
(*            ind[p]     the peak list gr.ind taken by the second loop      *)
(*            savedpk[p] rows savegrains wrote hkl for                      *)
(*            sobj, skey the (grain object, key) pairs of the running        *)
(*                       refineubis / savegrains loop: step i works on the  *)
(*                       grain OBJECT of place sobj[i] after loading the    *)
(*                       translation of KEY skey[i].  savegrains(sort_npks) *)
(*                       orders the keys by decreasing npks = |ind| (ties   *)
(*                       in any order), else by place; the pairs are built  *)
(*                       from the keys, so skey = sobj                      *)
(*            col[k]     <<place, translation>> the per-peak columns (gx..l, *)
(*                       tth / eta / omegacalc per grain) of peak k were    *)
(*                       last filled with: the ubi of that place and that   *)
(*                       translation ; fresh = savegrains just returned     *)
(* actions    one per inner step: SetTranslation, KernelGv (compute_gv in   *)
(*            assignlabels, translation passed by argument), ScoreAssign    *)
(*            (closest.c score_and_assign: if (err < tol^2 && err <         *)
(*            drlv2[k]) take the peak and store the error ; else if         *)
(*            (labels[k] == label) release it - the competing-owner rule),  *)
(*            ComputeGv (python route, translation from the parameter       *)
(*            object), Gof (simplex trial), StoreTranslation, Refine,       *)
(*            PutHkl ; and the public entries Generate, AssignLabels,       *)
(*            RefinePositions, RefineUbis, SaveGrains                       *)
(* checked    GvUsesOwnTranslation, LabelsResetFirst, TolRestored,          *)
(*            OnlyCurrentGrainMoves, SavedWithFinalTranslation, NoBad ;     *)
(*            BestOwner (after the first loop every peak is owned by the    *)
(*            grain with the smallest error inside the tolerance - the      *)
(*            first listed on exact ties - and by nobody if there is none), *)
(*            StoredError, OrderIndependent (without ties the owner, as a   *)
(*            grain, is a function of err alone: the order of the ubi file  *)
(*            does not matter), IndIsOwned, SavedRowsDisjoint ; NoBad also  *)
(*            covers "hkl written to rows the grain does not own" ;         *)
(*            SavedColumnsOwn (when savegrains returns, the columns of      *)
(*            every owned peak were filled with the ubi and the translation *)
(*            of its owner, for both values of sort_npks), SaveOrder        *)
(*            StoredIsFitted (the translation a grain holds after a         *)
(*            position refinement is the fitted value, also when the start  *)
(*            was handed over as integers: START_INT)                       *)
(* SIZE       the kernel walks the NP rows in chunks of BLOCK (4096 in the   *)
(*            code).  In the rule as written the chunking cannot be seen    *)
(*            (Visited = all rows) ; it names the dimension the harness      *)
(*            binds: peak files with more than BLOCK rows and a remainder,  *)
(*            every row still owned by its best grain (BestOwner)           *)
(* bounds     NG grains, NP peaks, E error levels, MAXCALLS public calls :  *)
(*            _q 2/1/3/5, _t 3/1/3/6, _t2 2/2/2/5 ; _bug (DROP_SETT),       *)
(*            _bug2 (LAST_WINS), _bug3 (SORT_OBJ_ONLY), _bug4 (TAIL_COUNT,   *)
(*            NP 3, BLOCK 2) and _bug5 (KEEP_DTYPE with START_INT) are      *)
(*            seeded defects that must be caught                            *)
(***************************************************************************)
EXTENDS Integers, Sequences, FiniteSets, TLC

CONSTANTS NG, MAXCALLS, MAXFIT, NP, E,
          DROP_SETT,   \* TRUE: refineubis/savegrains forget set_translation (a seeded protocol defect: must be caught)
          LAST_WINS,   \* TRUE: score_and_assign labels every peak inside the tolerance (the last grain listed wins instead
                       \*       of the best fitting one; a seeded defect: BestOwner / OrderIndependent must catch it)
          SORT_OBJ_ONLY, \* TRUE: savegrains(sort_npks) re-orders the grain objects but not the keys they are paired with
                       \*       (a seeded defect: SavedColumnsOwn / NoBad must catch it)
          BLOCK,       \* rows per chunk of the kernel's loop over the peak file (closest.c: schedule(static, 4096))
          TAIL_COUNT,  \* TRUE: the rows after the last whole chunk are visited up to row (NP % BLOCK) instead of row NP (a seeded
                       \*       defect - count taken for an end index: BestOwner must catch it as soon as NP > BLOCK, NP % BLOCK # 0)
          START_INT,   \* TRUE: the starting translations were handed over as integers (grid nodes: grain.grain(ubi, [x, y, z]))
          KEEP_DTYPE   \* TRUE: a grain keeps the type of the translation it was given, so the in-place store of refinepositions
                       \*       truncates the fitted value (a seeded defect: StoredIsFitted must catch it when START_INT)
Grains == 1..NG
Peaks == 1..NP
Perms == {p \in [Grains -> Grains] : \A i, j \in Grains : i # j => p[i] # p[j]}
T_NONE == <<"none", 0, 0>>
T_GLOBAL == <<"global", 0, 0>>

VARIABLES par_t, grain_t, gen, lab, nfit, tol, gvfor, call, step, cur, ncalls, bad, reset, presented, savedt,
          err, order, own, drl, ind, savedpk, sobj, skey, col, fresh
pk == <<err, order, own, drl, ind, savedpk>>
sav == <<sobj, skey, col>>
vars == <<par_t, grain_t, gen, lab, nfit, tol, gvfor, call, step, cur, ncalls, bad, reset, presented, savedt, pk, sav, fresh>>
IdPerm == [g \in Grains |-> g]
C_NONE == <<0, T_NONE>>

Init == /\ par_t = T_GLOBAL /\ grain_t = [g \in Grains |-> T_NONE] /\ gen = FALSE /\ lab = FALSE
        /\ nfit = [g \in Grains |-> 0] /\ tol = "user" /\ gvfor = <<0, T_NONE>>
        /\ call = "idle" /\ step = 0 /\ cur = 0 /\ ncalls = 0 /\ bad = ""
        /\ reset = FALSE /\ presented = {} /\ savedt = [g \in Grains |-> T_NONE]
        /\ err \in [Grains -> [Peaks -> 0..E]] /\ order \in Perms
        /\ own = [k \in Peaks |-> 0] /\ drl = [k \in Peaks |-> E]
        /\ ind = [g \in Grains |-> {}] /\ savedpk = [g \in Grains |-> {}]
        /\ sobj = IdPerm /\ skey = IdPerm /\ col = [k \in Peaks |-> C_NONE] /\ fresh = FALSE

Idle == call = "idle" /\ bad = ""
Enter(c) == /\ Idle /\ ncalls < MAXCALLS /\ call' = c /\ step' = 1 /\ cur' = 1 /\ ncalls' = ncalls + 1 /\ fresh' = FALSE
Keep(vs) == UNCHANGED vs
Flag(msg) == bad' = IF bad = "" THEN msg ELSE bad

\* ---- generate_grains: grains get the translation read from the grain file; labels reset ------------
Generate == /\ Enter("generate")
            /\ grain_t' = [g \in Grains |-> IF grain_t[g] = T_NONE THEN <<"read", g, 0>> ELSE grain_t[g]]
            /\ gen' = TRUE /\ lab' = FALSE
            /\ own' = [k \in Peaks |-> 0] /\ drl' = [k \in Peaks |-> E]          \* reset_labels
            /\ Keep(<<par_t, nfit, tol, gvfor, bad, reset, presented, savedt, err, order, ind, savedpk, sav>>)
GenerateDone == /\ call = "generate" /\ call' = "idle" /\ step' = 0 /\ cur' = 0
                /\ Keep(<<par_t, grain_t, gen, lab, nfit, tol, gvfor, ncalls, bad, reset, presented, savedt, pk, sav, fresh>>)

\* ---- assignlabels: reset ; for g: set_translation, C compute_gv(t = gr.translation), score_and_assign ; second loop
StartAssign(c) == /\ Enter(c) /\ gen
                  /\ reset' = TRUE /\ presented' = {}                \* int_tmp = -1 ; drlv2 = 1
                  /\ own' = [k \in Peaks |-> 0] /\ drl' = [k \in Peaks |-> E]
                  /\ Keep(<<par_t, grain_t, gen, lab, nfit, tol, gvfor, bad, savedt, err, order, ind, savedpk, sav>>)
AssignLabels == StartAssign("assign")
\* one grain of the first loop (steps: 1 set_translation, 2 kernel gv, 3 score_and_assign)
AssignSetT == /\ call \in {"assign", "refpos"} /\ step = 1 /\ cur <= NG
              /\ par_t' = grain_t[cur] /\ step' = 2
              /\ Keep(<<grain_t, gen, lab, nfit, tol, gvfor, call, cur, ncalls, bad, reset, presented, savedt, pk, sav, fresh>>)
AssignKernelGv == /\ call \in {"assign", "refpos"} /\ step = 2
                  /\ gvfor' = <<cur, grain_t[cur]>>                 \* translation passed by argument: gr.translation
                  /\ step' = 3
                  /\ Keep(<<par_t, grain_t, gen, lab, nfit, tol, call, cur, ncalls, bad, reset, presented, savedt, pk, sav, fresh>>)
\* the loop body of score_and_assign for the grain at place cur (its errors are err[order[cur]])
\* rows 1..NP of the peak file in chunks of BLOCK ; the rows the loop of one call visits
NB == NP \div BLOCK
Visited == IF TAIL_COUNT THEN {k \in Peaks : k <= NB * BLOCK \/ (k > NB * BLOCK /\ k <= NP % BLOCK)} ELSE Peaks
Better(k) == err[order[cur]][k] < E /\ err[order[cur]][k] < drl[k]
TakeLabel(k) == IF LAST_WINS THEN err[order[cur]][k] < E ELSE Better(k)
AssignScore == /\ call \in {"assign", "refpos"} /\ step = 3
               /\ IF ~reset /\ presented = {} THEN Flag("score_and_assign before labels and errors were reset")
                  ELSE IF gvfor[1] # cur THEN Flag("score_and_assign on another grain's g-vectors") ELSE bad' = bad
               /\ presented' = presented \cup {cur} /\ reset' = FALSE
               /\ own' = [k \in Peaks |-> IF k \notin Visited THEN own[k] ELSE IF TakeLabel(k) THEN cur ELSE IF own[k] = cur THEN 0 ELSE own[k]]
               /\ drl' = [k \in Peaks |-> IF k \in Visited /\ Better(k) THEN err[order[cur]][k] ELSE drl[k]]
               /\ IF cur < NG THEN cur' = cur + 1 /\ step' = 1 ELSE cur' = 1 /\ step' = 4
               /\ Keep(<<par_t, grain_t, gen, lab, nfit, tol, gvfor, call, ncalls, savedt, err, order, ind, savedpk, sav, fresh>>)
\* second loop: per grain set_translation + tth/eta per grain (uses the parameter object)
AssignSecond == /\ call \in {"assign", "refpos"} /\ step = 4
                /\ par_t' = grain_t[cur]
                /\ IF cur < NG THEN cur' = cur + 1 /\ step' = 4
                   ELSE /\ cur' = 1 /\ step' = IF call = "assign" THEN 99 ELSE 10
                /\ lab' = (cur = NG \/ lab)
                /\ ind' = [ind EXCEPT ![cur] = {k \in Peaks : own[k] = cur}]        \* gr.ind = compress(int_tmp == g)
                /\ Keep(<<grain_t, gen, nfit, tol, gvfor, call, ncalls, bad, reset, presented, savedt, err, order, own, drl, savedpk, sav, fresh>>)
AssignDone == /\ call = "assign" /\ step = 99 /\ call' = "idle" /\ step' = 0 /\ cur' = 0
              /\ Keep(<<par_t, grain_t, gen, lab, nfit, tol, gvfor, ncalls, bad, reset, presented, savedt, pk, sav, fresh>>)

\* ---- refinepositions: assignlabels ; tol = 1.0 ; for g: set_translation ; simplex(gof) ; store ; refine ; tol back
RefinePositions == StartAssign("refpos")
RPTol == /\ call = "refpos" /\ step = 10 /\ tol' = "one" /\ step' = 11
         /\ Keep(<<par_t, grain_t, gen, lab, nfit, gvfor, call, cur, ncalls, bad, reset, presented, savedt, pk, sav, fresh>>)
RPSetT == /\ call = "refpos" /\ step = 11 /\ par_t' = grain_t[cur] /\ step' = 12
          /\ Keep(<<grain_t, gen, lab, nfit, tol, gvfor, call, cur, ncalls, bad, reset, presented, savedt, pk, sav, fresh>>)
\* a simplex trial: applyargs puts the trial translation into the parameter object, compute_gv(g) uses it
RPGof == /\ call = "refpos" /\ step \in {12, 13}
         /\ par_t' = <<"trial", cur, 0>> /\ gvfor' = <<cur, <<"trial", cur, 0>>>> /\ step' = 13
         /\ Keep(<<grain_t, gen, lab, nfit, tol, call, cur, ncalls, bad, reset, presented, savedt, pk, sav, fresh>>)
\* grains[key].translation = parameterobj t_x,t_y,t_z  (the last trial) ; then refine(ubi) on the shared gv
\* translation[i] = t_i writes INTO the array the grain holds: the value it keeps is the fitted one only if that array is a float array
Stored(g, n) == IF KEEP_DTYPE /\ START_INT THEN <<"trunc", g, n>> ELSE <<"fit", g, n>>
RPStore == /\ call = "refpos" /\ step = 13 /\ nfit[cur] < MAXFIT
           /\ grain_t' = [grain_t EXCEPT ![cur] = Stored(cur, nfit[cur] + 1)]
           /\ nfit' = [nfit EXCEPT ![cur] = nfit[cur] + 1]
           /\ par_t' = <<"fit", cur, nfit[cur] + 1>>        \* same numbers: the object still holds them
           /\ gvfor' = <<cur, <<"fit", cur, nfit[cur] + 1>>>>
           /\ lab' = lab
           /\ IF cur < NG THEN cur' = cur + 1 /\ step' = 11 ELSE cur' = 1 /\ step' = 14
           /\ \E row \in [Peaks -> 0..E] : err' = [err EXCEPT ![order[cur]] = row]    \* the grain moved: new errors
           /\ Keep(<<gen, tol, call, ncalls, bad, reset, presented, savedt, order, own, drl, ind, savedpk, sav, fresh>>)
RPDone == /\ call = "refpos" /\ step = 14 /\ tol' = "user" /\ call' = "idle" /\ step' = 0 /\ cur' = 0
          /\ Keep(<<par_t, grain_t, gen, lab, nfit, gvfor, ncalls, bad, reset, presented, savedt, pk, sav, fresh>>)

\* ---- refineubis / savegrains: for g: set_translation ; compute_gv(g) ; refine / put hkl --------------------
\* the (object, key) pairs: refineubis sorts the keys ; savegrains(sort_npks) lists them by decreasing npks
ByNpks(q) == \A i, j \in Grains : i < j => Cardinality(ind[q[i]]) >= Cardinality(ind[q[j]])
PerGrain(c) == /\ Enter(c) /\ gen /\ lab
               /\ IF c = "save"
                  THEN \E sort \in BOOLEAN : \E q \in Perms :
                          /\ (IF sort THEN ByNpks(q) ELSE q = IdPerm)
                          /\ sobj' = q /\ skey' = (IF SORT_OBJ_ONLY THEN IdPerm ELSE q)
                  ELSE sobj' = IdPerm /\ skey' = IdPerm
               /\ Keep(<<par_t, grain_t, gen, lab, nfit, tol, gvfor, bad, reset, presented, savedt, pk, col>>)
RefineUbis == PerGrain("refubi")
SaveGrains == PerGrain("save")
Obj == sobj[cur]            \* the place of the grain object of this step of the loop
PGSetT == /\ call \in {"refubi", "save"} /\ step = 1 /\ par_t' = (IF DROP_SETT THEN par_t ELSE grain_t[skey[cur]]) /\ step' = 2
          /\ Keep(<<grain_t, gen, lab, nfit, tol, gvfor, call, cur, ncalls, bad, reset, presented, savedt, pk, sav, fresh>>)
\* compute_gv(g): translation comes from the parameter object
PGComputeGv == /\ call \in {"refubi", "save"} /\ step = 2
               /\ gvfor' = <<Obj, par_t>>
               /\ IF par_t # grain_t[Obj] THEN Flag("compute_gv with a translation that is not the grain's own") ELSE bad' = bad
               /\ step' = 3
               /\ Keep(<<par_t, grain_t, gen, lab, nfit, tol, call, cur, ncalls, reset, presented, savedt, pk, sav, fresh>>)
PGUse == /\ call \in {"refubi", "save"} /\ step = 3
         /\ IF gvfor[1] # Obj THEN Flag("refine / hkl output on another grain's g-vectors")
            ELSE IF ind[Obj] # {k \in Peaks : own[k] = Obj} THEN Flag("refine / hkl output on rows the grain does not own")
            ELSE bad' = bad
         /\ savedt' = IF call = "save" THEN [savedt EXCEPT ![Obj] = gvfor[2]] ELSE savedt
         /\ savedpk' = IF call = "save" THEN [savedpk EXCEPT ![Obj] = ind[Obj]] ELSE savedpk     \* numpy.put(h, g.ind, ...)
         \* numpy.put(gx .. l, g.ind, values from the object's ubi and the shared g-vectors) ; tth / eta / omegacalc per grain
         /\ col' = IF call = "save" THEN [k \in Peaks |-> IF k \in ind[Obj] THEN <<Obj, gvfor[2]>> ELSE col[k]] ELSE col
         /\ fresh' = (call = "save" /\ cur = NG)
         /\ IF cur < NG THEN cur' = cur + 1 /\ step' = 1 ELSE cur' = 0 /\ step' = 0 /\ call' = "idle"
         /\ (cur < NG => call' = call)
         /\ Keep(<<par_t, grain_t, gen, lab, nfit, tol, gvfor, ncalls, reset, presented, err, order, own, drl, ind, sobj, skey>>)

Next == Generate \/ GenerateDone \/ AssignLabels \/ AssignSetT \/ AssignKernelGv \/ AssignScore \/ AssignSecond
        \/ AssignDone \/ RefinePositions \/ RPTol \/ RPSetT \/ RPGof \/ RPStore \/ RPDone
        \/ RefineUbis \/ SaveGrains \/ PGSetT \/ PGComputeGv \/ PGUse
Spec == Init /\ [][Next]_vars

\* ---- properties ---------------------------------------------------------------------------------
NoBad == bad = ""
\* whenever the shared g-vectors are used for grain g outside a simplex they were made with g's own translation
GvUsesOwnTranslation ==
   (call \in {"refubi", "save"} /\ step = 3) => (gvfor[1] = Obj /\ gvfor[2] = grain_t[Obj])
KernelGvOwn == (call \in {"assign", "refpos"} /\ step = 3) => gvfor = <<cur, grain_t[cur]>>
TolRestored == call = "idle" => tol = "user"
TolOneOnlyInSimplex == tol = "one" => call = "refpos"
\* only the grain being refined changes its translation (action property)
OnlyCurrentGrainMoves == [][\A g \in Grains : grain_t'[g] # grain_t[g] => (call \in {"generate", "idle"} \/ (call = "refpos" /\ g = cur))]_vars
\* what savegrains wrote for g was computed with the translation g holds at that time
SavedWithOwn == \A g \in Grains : (savedt[g] # T_NONE /\ call = "idle") =>
                   (savedt[g] = grain_t[g] \/ nfit[g] > 0)      \* (a later refinement may have moved it on)
\* ---- ownership (the statement is independent of the loop: a brute-force minimum) ---------------------
FirstLoopDone == call \in {"assign", "refpos"} /\ step = 4
MinErr(k) == LET vals == {err[g][k] : g \in Grains} IN CHOOSE m \in vals : \A v \in vals : m <= v
\* place of the first listed grain among those attaining the minimum ; 0 when no grain is within the tolerance
WinnerPlace(k) == IF MinErr(k) >= E THEN 0
                  ELSE LET c == {p \in Grains : err[order[p]][k] = MinErr(k)} IN CHOOSE p \in c : \A q \in c : p <= q
BestOwner == FirstLoopDone => \A k \in Peaks : own[k] = WinnerPlace(k)
StoredError == FirstLoopDone => \A k \in Peaks : drl[k] = (IF MinErr(k) < E THEN MinErr(k) ELSE E)
NoTie(k) == \A g, h \in Grains : (g # h /\ err[g][k] < E) => err[g][k] # err[h][k]
\* without ties the owning GRAIN is the argmin of err alone: it does not depend on the order of the ubi file
OrderIndependent == FirstLoopDone => \A k \in Peaks : NoTie(k) =>
      (IF own[k] = 0 THEN 0 ELSE order[own[k]]) = (IF MinErr(k) >= E THEN 0 ELSE CHOOSE g \in Grains : err[g][k] = MinErr(k))
\* the per-grain peak lists are the labels of the last completed pass ; savegrains writes hkl for exactly those rows
PassRunning == call \in {"assign", "refpos"} /\ step <= 4
IndIsOwned == (lab /\ ~PassRunning) => \A p \in Grains : ind[p] = {k \in Peaks : own[k] = p}
\* (rows written by savegrains = rows owned at that time: flagged in PGUse, see NoBad) ; a peak is never saved for two grains
\* by one savegrains call
SavedRowsDisjoint == (call = "idle" /\ \A p \in Grains : savedt[p] # T_NONE /\ savedpk[p] = ind[p]) =>
                        \A p, q \in Grains : p # q => savedpk[p] \cap savedpk[q] = {}
\* when savegrains returns every owned peak carries the columns of its owner: that grain's ubi, that grain's translation
SavedColumnsOwn == fresh => \A k \in Peaks : own[k] # 0 => col[k] = <<own[k], grain_t[own[k]]>>
\* the loops visit every grain once ; a sorted save lists the grains by decreasing number of peaks
SaveOrder == (call \in {"refubi", "save"}) =>
                /\ \A g \in Grains : \E i \in Grains : sobj[i] = g
                /\ (call = "refubi" => sobj = IdPerm)
\* whatever type the start was handed over in: the translation a grain holds after its n-th position refinement is the fitted one
StoredIsFitted == \A g \in Grains : nfit[g] > 0 => grain_t[g] = <<"fit", g, nfit[g]>>
EachGrainOncePerPass == (call \in {"assign", "refpos"} /\ step = 4) => presented = Grains
=============================================================================

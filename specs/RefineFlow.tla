----------------------------- MODULE RefineFlow -----------------------------
(***************************************************************************)
(* The refinement protocol of ImageD11.refinegrains.refinegrains            *)
(* (refinegrains.py:202-822) and scripts/makemap.py.                        *)
(* The hazard: the translation of the grain being worked on travels through *)
(* the GLOBAL parameter object (t_x, t_y, t_z), g-vectors are recomputed    *)
(* per grain from it, and `self.gv` / `self.tolerance` are shared scratch.  *)
(*                                                                         *)
(* Translations are abstract values: <<"read", g, 0>> (from the grain file),   *)
(* <<"fit", g, n>> (stored after the n-th position refinement of g),        *)
(* <<"trial", g, 0>> (a simplex trial point for g), <<"global",0,0>>.      *)
(*                                                                         *)
(* variables  par_t      translation held by the parameter object           *)
(*            grain_t[g] translation held by grain g                        *)
(*            gen, lab   generate_grains done / labels valid (assignlabels  *)
(*                       done and no translation changed since)             *)
(*            nfit[g]    number of position refinements stored for g        *)
(*            tol        "user" | "one"  (refinepositions sets 1.0)         *)
(*            gvfor      <<g, translation>> the shared self.gv was made for *)
(*            call, step, cur   running public call, its program counter,   *)
(*                       the grain it is working on                         *)
(*            ncalls     public calls made so far (bounded)                 *)
(*            bad        first protocol violation observed ("" = none)      *)
(* actions    one per inner step: SetTranslation, KernelGv (compute_gv in   *)
(*            assignlabels, translation passed by argument), ScoreAssign,   *)
(*            ComputeGv (python route, translation from the parameter       *)
(*            object), Gof (simplex trial), StoreTranslation, Refine,       *)
(*            PutHkl ; and the public entries Generate, AssignLabels,       *)
(*            RefinePositions, RefineUbis, SaveGrains                       *)
(* checked    GvUsesOwnTranslation, LabelsResetFirst, TolRestored,          *)
(*            OnlyCurrentGrainMoves, SavedWithFinalTranslation, NoBad       *)
(***************************************************************************)
EXTENDS Integers, Sequences, FiniteSets, TLC

CONSTANTS NG, MAXCALLS, MAXFIT,
          DROP_SETT    \* TRUE: refineubis/savegrains forget set_translation (a seeded protocol defect: must be caught)
Grains == 1..NG
T_NONE == <<"none", 0, 0>>
T_GLOBAL == <<"global", 0, 0>>

VARIABLES par_t, grain_t, gen, lab, nfit, tol, gvfor, call, step, cur, ncalls, bad, reset, presented, savedt
vars == <<par_t, grain_t, gen, lab, nfit, tol, gvfor, call, step, cur, ncalls, bad, reset, presented, savedt>>

Init == /\ par_t = T_GLOBAL /\ grain_t = [g \in Grains |-> T_NONE] /\ gen = FALSE /\ lab = FALSE
        /\ nfit = [g \in Grains |-> 0] /\ tol = "user" /\ gvfor = <<0, T_NONE>>
        /\ call = "idle" /\ step = 0 /\ cur = 0 /\ ncalls = 0 /\ bad = ""
        /\ reset = FALSE /\ presented = {} /\ savedt = [g \in Grains |-> T_NONE]

Idle == call = "idle" /\ bad = ""
Enter(c) == /\ Idle /\ ncalls < MAXCALLS /\ call' = c /\ step' = 1 /\ cur' = 1 /\ ncalls' = ncalls + 1
Keep(vs) == UNCHANGED vs
Flag(msg) == bad' = IF bad = "" THEN msg ELSE bad

\* ---- generate_grains: grains get the translation read from the grain file; labels reset ------------
Generate == /\ Enter("generate")
            /\ grain_t' = [g \in Grains |-> IF grain_t[g] = T_NONE THEN <<"read", g, 0>> ELSE grain_t[g]]
            /\ gen' = TRUE /\ lab' = FALSE
            /\ Keep(<<par_t, nfit, tol, gvfor, bad, reset, presented, savedt>>)
GenerateDone == /\ call = "generate" /\ call' = "idle" /\ step' = 0 /\ cur' = 0
                /\ Keep(<<par_t, grain_t, gen, lab, nfit, tol, gvfor, ncalls, bad, reset, presented, savedt>>)

\* ---- assignlabels: reset ; for g: set_translation, C compute_gv(t = gr.translation), score_and_assign ; second loop
StartAssign(c) == /\ Enter(c) /\ gen
                  /\ reset' = TRUE /\ presented' = {}                \* int_tmp = -1 ; drlv2 = 1
                  /\ Keep(<<par_t, grain_t, gen, lab, nfit, tol, gvfor, bad, savedt>>)
AssignLabels == StartAssign("assign")
\* one grain of the first loop (steps: 1 set_translation, 2 kernel gv, 3 score_and_assign)
AssignSetT == /\ call \in {"assign", "refpos"} /\ step = 1 /\ cur <= NG
              /\ par_t' = grain_t[cur] /\ step' = 2
              /\ Keep(<<grain_t, gen, lab, nfit, tol, gvfor, call, cur, ncalls, bad, reset, presented, savedt>>)
AssignKernelGv == /\ call \in {"assign", "refpos"} /\ step = 2
                  /\ gvfor' = <<cur, grain_t[cur]>>                 \* translation passed by argument: gr.translation
                  /\ step' = 3
                  /\ Keep(<<par_t, grain_t, gen, lab, nfit, tol, call, cur, ncalls, bad, reset, presented, savedt>>)
AssignScore == /\ call \in {"assign", "refpos"} /\ step = 3
               /\ IF ~reset /\ presented = {} THEN Flag("score_and_assign before labels and errors were reset")
                  ELSE IF gvfor[1] # cur THEN Flag("score_and_assign on another grain's g-vectors") ELSE bad' = bad
               /\ presented' = presented \cup {cur} /\ reset' = FALSE
               /\ IF cur < NG THEN cur' = cur + 1 /\ step' = 1 ELSE cur' = 1 /\ step' = 4
               /\ Keep(<<par_t, grain_t, gen, lab, nfit, tol, gvfor, call, ncalls, savedt>>)
\* second loop: per grain set_translation + tth/eta per grain (uses the parameter object)
AssignSecond == /\ call \in {"assign", "refpos"} /\ step = 4
                /\ par_t' = grain_t[cur]
                /\ IF cur < NG THEN cur' = cur + 1 /\ step' = 4
                   ELSE /\ cur' = 1 /\ step' = IF call = "assign" THEN 99 ELSE 10
                /\ lab' = (cur = NG \/ lab)
                /\ Keep(<<grain_t, gen, nfit, tol, gvfor, call, ncalls, bad, reset, presented, savedt>>)
AssignDone == /\ call = "assign" /\ step = 99 /\ call' = "idle" /\ step' = 0 /\ cur' = 0
              /\ Keep(<<par_t, grain_t, gen, lab, nfit, tol, gvfor, ncalls, bad, reset, presented, savedt>>)

\* ---- refinepositions: assignlabels ; tol = 1.0 ; for g: set_translation ; simplex(gof) ; store ; refine ; tol back
RefinePositions == StartAssign("refpos")
RPTol == /\ call = "refpos" /\ step = 10 /\ tol' = "one" /\ step' = 11
         /\ Keep(<<par_t, grain_t, gen, lab, nfit, gvfor, call, cur, ncalls, bad, reset, presented, savedt>>)
RPSetT == /\ call = "refpos" /\ step = 11 /\ par_t' = grain_t[cur] /\ step' = 12
          /\ Keep(<<grain_t, gen, lab, nfit, tol, gvfor, call, cur, ncalls, bad, reset, presented, savedt>>)
\* a simplex trial: applyargs puts the trial translation into the parameter object, compute_gv(g) uses it
RPGof == /\ call = "refpos" /\ step \in {12, 13}
         /\ par_t' = <<"trial", cur, 0>> /\ gvfor' = <<cur, <<"trial", cur, 0>>>> /\ step' = 13
         /\ Keep(<<grain_t, gen, lab, nfit, tol, call, cur, ncalls, bad, reset, presented, savedt>>)
\* grains[key].translation = parameterobj t_x,t_y,t_z  (the last trial) ; then refine(ubi) on the shared gv
RPStore == /\ call = "refpos" /\ step = 13 /\ nfit[cur] < MAXFIT
           /\ grain_t' = [grain_t EXCEPT ![cur] = <<"fit", cur, nfit[cur] + 1>>]
           /\ nfit' = [nfit EXCEPT ![cur] = nfit[cur] + 1]
           /\ par_t' = <<"fit", cur, nfit[cur] + 1>>        \* same numbers: the object still holds them
           /\ gvfor' = <<cur, <<"fit", cur, nfit[cur] + 1>>>>
           /\ lab' = lab
           /\ IF cur < NG THEN cur' = cur + 1 /\ step' = 11 ELSE cur' = 1 /\ step' = 14
           /\ Keep(<<gen, tol, call, ncalls, bad, reset, presented, savedt>>)
RPDone == /\ call = "refpos" /\ step = 14 /\ tol' = "user" /\ call' = "idle" /\ step' = 0 /\ cur' = 0
          /\ Keep(<<par_t, grain_t, gen, lab, nfit, gvfor, ncalls, bad, reset, presented, savedt>>)

\* ---- refineubis / savegrains: for g: set_translation ; compute_gv(g) ; refine / put hkl --------------------
PerGrain(c) == /\ Enter(c) /\ gen /\ lab
               /\ Keep(<<par_t, grain_t, gen, lab, nfit, tol, gvfor, bad, reset, presented, savedt>>)
RefineUbis == PerGrain("refubi")
SaveGrains == PerGrain("save")
PGSetT == /\ call \in {"refubi", "save"} /\ step = 1 /\ par_t' = (IF DROP_SETT THEN par_t ELSE grain_t[cur]) /\ step' = 2
          /\ Keep(<<grain_t, gen, lab, nfit, tol, gvfor, call, cur, ncalls, bad, reset, presented, savedt>>)
\* compute_gv(g): translation comes from the parameter object
PGComputeGv == /\ call \in {"refubi", "save"} /\ step = 2
               /\ gvfor' = <<cur, par_t>>
               /\ IF par_t # grain_t[cur] THEN Flag("compute_gv with a translation that is not the grain's own") ELSE bad' = bad
               /\ step' = 3
               /\ Keep(<<par_t, grain_t, gen, lab, nfit, tol, call, cur, ncalls, reset, presented, savedt>>)
PGUse == /\ call \in {"refubi", "save"} /\ step = 3
         /\ IF gvfor[1] # cur THEN Flag("refine / hkl output on another grain's g-vectors") ELSE bad' = bad
         /\ savedt' = IF call = "save" THEN [savedt EXCEPT ![cur] = gvfor[2]] ELSE savedt
         /\ IF cur < NG THEN cur' = cur + 1 /\ step' = 1 ELSE cur' = 0 /\ step' = 0 /\ call' = "idle"
         /\ (cur < NG => call' = call)
         /\ Keep(<<par_t, grain_t, gen, lab, nfit, tol, gvfor, ncalls, reset, presented>>)

Next == Generate \/ GenerateDone \/ AssignLabels \/ AssignSetT \/ AssignKernelGv \/ AssignScore \/ AssignSecond
        \/ AssignDone \/ RefinePositions \/ RPTol \/ RPSetT \/ RPGof \/ RPStore \/ RPDone
        \/ RefineUbis \/ SaveGrains \/ PGSetT \/ PGComputeGv \/ PGUse
Spec == Init /\ [][Next]_vars

\* ---- properties ---------------------------------------------------------------------------------
NoBad == bad = ""
\* whenever the shared g-vectors are used for grain g outside a simplex they were made with g's own translation
GvUsesOwnTranslation ==
   (call \in {"refubi", "save"} /\ step = 3) => (gvfor[1] = cur /\ gvfor[2] = grain_t[cur])
KernelGvOwn == (call \in {"assign", "refpos"} /\ step = 3) => gvfor = <<cur, grain_t[cur]>>
TolRestored == call = "idle" => tol = "user"
TolOneOnlyInSimplex == tol = "one" => call = "refpos"
\* only the grain being refined changes its translation (action property)
OnlyCurrentGrainMoves == [][\A g \in Grains : grain_t'[g] # grain_t[g] => (call \in {"generate", "idle"} \/ (call = "refpos" /\ g = cur))]_vars
\* what savegrains wrote for g was computed with the translation g holds at that time
SavedWithOwn == \A g \in Grains : (savedt[g] # T_NONE /\ call = "idle") =>
                   (savedt[g] = grain_t[g] \/ nfit[g] > 0)      \* (a later refinement may have moved it on)
EachGrainOncePerPass == (call \in {"assign", "refpos"} /\ step = 4) => presented = Grains
=============================================================================

\* DataSet histories, longer, over the operations that touch the caches: every sequence of 6 operations
\* out of ds.pk2d, ds.pk4d, set_monitor (two monitors), reset_peaks_cache, closed by reading pk2d and
\* pk4d (5^6 = 15625 histories per graph; thorough tier, e.g. monitor 1, both tables, monitor 2, closing reads)
SPECIFICATION Spec
CONSTANTS
  NSet = {3}
  ESet = {1}
  Threads = {t1}
  Static = FALSE
  OrdSet = {0}
  History = FALSE
  DoEmit = TRUE
  Bug = "none"
  Hist = 0
  DsHist = 6
  DsOps = {"pk2d", "pk4d", "setmon", "reset"}
  NMon = 2
  Neg = FALSE
  Shape = "simple"
INVARIANT TypeOK
INVARIANT CleanOK
INVARIANT MergeOK
INVARIANT DsCacheOK
INVARIANT DsLaw
INVARIANT EmitInv
INVARIANT EmitDs
CHECK_DEADLOCK FALSE

SPECIFICATION Spec
CONSTANTS
  G = 2
  R = 2
  K = 2
  E = 2
  N = 0
  LInitU = TRUE
  LInitNN = {}
  DInit = {2}
  EmitOn = FALSE
  GvLayouts = {"C", "F", "rev"}
  UbiLayouts = {"C"}
  Builds = {"indexer", "from_colfile"}
  Preps = {"direct", "rings"}
  NFKinds = {}
  Flatten = "ravelK"
INVARIANT BestGrain
CHECK_DEADLOCK FALSE

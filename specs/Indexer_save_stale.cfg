SPECIFICATION Spec
CONSTANTS
  NOISY = FALSE
  PAIRS <- PAIRS_cross
  NP = 8
  NR = 2
  NC = 5
  MINPKS = 0
  MAXGRAINS = 3
  UNIQ_NUM = 1
  UNIQ_DEN = 2
  NPASS = 2
  MINPKS2 = 1
  NCAP = 0
  ALLHITS = FALSE
  NSAVE = 2
  FRESH = FALSE
  NRESET = 0
  SHARE = FALSE
INVARIANT NoRepeat
CHECK_DEADLOCK FALSE

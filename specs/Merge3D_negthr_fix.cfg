SPECIFICATION Spec
CONSTANTS
  NS = 1
  NF = 3
  MAXFR = 2
  VALS = {0, 1, 2, 3}
  THR <- Neg2
  PATTERN = FALSE
  OM0 = 0
  OMSTEP = 1
  OMSEQ <- NoSeq
  VSHIFT <- Neg2
  MAXFIX = TRUE
  NANV <- Neg1
  EMITSTEPS = TRUE
INVARIANT NoBad
INVARIANT ShapeOK
INVARIANT LinkOK
INVARIANT NoSame1
INVARIANT ScanLive
INVARIANT Conserved
INVARIANT KernelPost
INVARIANT PrefixOK
INVARIANT DoneOK
INVARIANT EmitDone
INVARIANT EmitStep
CHECK_DEADLOCK FALSE

\* the publish-before-built variant of generate_group: HeldClosedAlways is expected to be VIOLATED (teeth of the invariant)
SPECIFICATION SpecC
CONSTANTS
  Names = {"cubic", "hexagonal", "trigonal", "rhombohedralP", "tetragonal", "orthorhombic", "monoclinic_c", "monoclinic_a", "monoclinic_b", "triclinic"}
  QMax = 1
  HMax = 1
  MaxCalls = 1
  DoScan = FALSE
  TrigonalFixed = TRUE
  BigHkls = {}
  BlockSize = 0
  ListMax = 0
  ListPool = {}
  ListSizes = {}
  ConcPairs = {{"monoclinic_c"}, {"tetragonal"}}
  CoarseNames = {}
  Stride = 1
  PublishEarly = TRUE
INVARIANT ConcTypeOK
INVARIANT HeldClosedAlways
CHECK_DEADLOCK TRUE

SPECIFICATION Spec
CONSTANTS
  NG = 3
  MAXCALLS = 6
  MAXFIT = 2
  DROP_SETT = FALSE
INVARIANT NoBad
INVARIANT GvUsesOwnTranslation
INVARIANT KernelGvOwn
INVARIANT TolRestored
INVARIANT TolOneOnlyInSimplex
INVARIANT SavedWithOwn
INVARIANT EachGrainOncePerPass
PROPERTY OnlyCurrentGrainMoves
CHECK_DEADLOCK FALSE

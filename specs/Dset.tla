-------------------------------- MODULE Dset --------------------------------
(***************************************************************************)
(* The disjoint-set array of src/blobs.c:196-289 as operators on a         *)
(* function S : 0..len-1 -> Int  (S[0] = allocated length, S[len-1] =      *)
(* number of sets made so far, S[i] = parent of i for 1 <= i <= current).  *)
(*                                                                         *)
(*  DsInit(cap)      dset_initialise(cap)                                  *)
(*  DsNew(S)         dset_new: <<S', newlabel>>; doubles the array when    *)
(*                   current + 3 > length (the code starts at 16384; the   *)
(*                   models start at CAP = 4 so that growth happens on     *)
(*                   tiny images)                                          *)
(*  DsFind(S, x)     dset_find with path compression: <<S', root>>         *)
(*  DsUnion(S,a,b)   dset_makeunion = find, find, link (higher -> lower)   *)
(*  DsCompress(S)    dset_compress: <<T, npk, S'>>, T[i] = final label     *)
(*  DsOK(S)          the structural invariant that keeps every index the   *)
(*                   code uses inside the allocation (C20)                 *)
(***************************************************************************)
EXTENDS Integers, Sequences, FiniteSets, TLC

DsInit(cap) == [i \in 0..(cap - 1) |-> IF i = 0 THEN cap ELSE 0]
DsLen(S) == S[0]
DsCur(S) == S[S[0] - 1]

DsNew(S) ==
  LET len == S[0]
      cur == S[len - 1] + 1
      S1  == [S EXCEPT ![len - 1] = cur]
      S2  == IF cur + 3 > len
             THEN [i \in 0..(2 * len - 1) |->
                     IF i = 0 THEN 2 * len
                     ELSE IF i = 2 * len - 1 THEN cur
                     ELSE IF i >= len - 1 THEN 0
                     ELSE S1[i]]
             ELSE S1
  IN << [S2 EXCEPT ![cur] = cur], cur >>

RECURSIVE DsFind(_, _)
DsFind(S, x) == IF S[x] = x THEN << S, x >>
                ELSE LET r == DsFind(S, S[x]) IN << [r[1] EXCEPT ![x] = r[2]], r[2] >>

\* dset_link(S, r2, r1): the higher number is changed to point to the lower
DsLink(S, a, b) == IF b > a THEN [S EXCEPT ![b] = a]
                   ELSE IF b < a THEN [S EXCEPT ![a] = b] ELSE S

DsUnion(S, r1, r2) ==
  LET fa == DsFind(S, r1)
      fb == DsFind(fa[1], r2)
  IN DsLink(fb[1], fa[2], fb[2])

\* match(X, Y, S) of blobs.h on a record [x, S]
Match(st, y) == IF st.x = 0 THEN [st EXCEPT !.x = y]
                ELSE IF st.x # y THEN [st EXCEPT !.S = DsUnion(st.S, st.x, y)]
                ELSE st

\* T = dset_initialise(current + 3); for i in 1..current ...
DsCompress(S) ==
  LET cur == DsCur(S)
      F[i \in 0..cur] ==
        IF i = 0 THEN [T |-> [k \in 0..(cur + 2) |-> IF k = 0 THEN cur + 3 ELSE 0], n |-> 0, S |-> S]
        ELSE LET p == F[i - 1]
             IN IF p.S[i] = i
                THEN [T |-> [p.T EXCEPT ![i] = p.n + 1], n |-> p.n + 1, S |-> p.S]
                ELSE LET f == DsFind(p.S, i)
                     IN [T |-> [p.T EXCEPT ![i] = p.T[f[2]]], n |-> p.n, S |-> f[1]]
  IN << F[cur].T, F[cur].n, F[cur].S >>

DsOK(S) ==
  LET len == S[0] IN
  /\ DOMAIN S = 0..(len - 1)
  /\ len >= 4
  /\ S[len - 1] >= 0
  /\ S[len - 1] + 3 <= len                     \* room for the next dset_new
  /\ \A i \in 1..S[len - 1] : 1 <= S[i] /\ S[i] <= i    \* parents point down: find terminates in range
  /\ \A i \in (S[len - 1] + 1)..(len - 2) : S[i] = 0    \* unused part is zero
=============================================================================

------------------------------- MODULE Orient -------------------------------
(***************************************************************************)
(* C05 - two indexed reflections determine the orientation (Busing-Levy).  *)
(*                                                                         *)
(* MODELS   ImageD11/unitcell.py                                           *)
(*   136-149  cosangles_many      cos of the angle of every hkl pair       *)
(*   528-549  getanglehkls        per ring pair cache of filter_pairs      *)
(*   551-611  orient              nearest / crange lookup, UBIlist         *)
(*   671-681  BTmat               (float triad: finished by the harness)   *)
(*   689-755  filter_pairs        sort, cut into blocks, keep one pair per *)
(*                                class of "indexes the same"              *)
(*   758-777  ubi_equiv           de-duplication of the candidates         *)
(*          src/cdiffraction.c 240-275 quickorient (float triad, harness)  *)
(*                                                                         *)
(* ARITHMETIC  a cell is an integer symmetric positive definite reciprocal *)
(* metric G ( = gi * scale ); Q(h) = h.G.h .  A ring is the set of allowed *)
(* hkl with one value of Q (the harness scales the cell so that distinct Q *)
(* are further apart than makerings' tolerance and verifies the real ring  *)
(* table against Rings below).  Inside one ring pair Q1, Q2 are constant,  *)
(* so  cos(ha,hb) = N/sqrt(Q1 Q2) with N = ha.G.hb : sorting by cosine is  *)
(* sorting by the integer N, blocks of equal angle are blocks of equal N,  *)
(* |cos| < 0.98  <=>  2500 N^2 < 2401 Q1 Q2, and                           *)
(* |cos_k - cos_obs| < cr/1000  <=>  10^6 (Nk-Nobs)^2 < cr^2 Q1 Q2.        *)
(*                                                                         *)
(* "Indexes the same" (filter_pairs 736-748: the orientation made from the *)
(* block's first pair with the BT matrix of pair x indexes the 15 probe    *)
(* vectors HKL0 of an already kept orientation, HKL0 containing the three  *)
(* basis vectors) is modelled by its meaning: pairs x, y are equivalent    *)
(* iff some M in Aut+(G) = { M integer : M^T G M = G, det M = +1 } has     *)
(* M x1 = y1 and M x2 = y2 (hkl are columns; g = B h, R B = B M).          *)
(* Aut+(G) is computed by brute force: the columns of M are images of the  *)
(* basis vectors, searched in a box that provably contains every vector of *)
(* the same length (AutBoxOK).  ubi_equiv is the same relation on          *)
(* orientations: candidates from pairs x, y (any blocks) describe the same *)
(* lattice iff some M in Aut+(G) maps the triad of x on the triad of y     *)
(* (M x1 = y1 and M x2 in the half plane of y1,y2) - UbiEquiv.             *)
(*                                                                         *)
(* VARIABLES                                                               *)
(*   cs    : the case [cell, r1, r2, tie, bug, t]  (t = trace line or 0)   *)
(*   pc    : "cell" (ghost: print the cell table) | "sort" | "open" |      *)
(*           "test" | "crash" | "done" | "cand" | "out" | "badtrace"       *)
(*   order : the hkl pairs <<ha,hb>> in sorted order (c2as / hi / hj)      *)
(*   inds  : the block ends (`inds`, 0-based as in the code)               *)
(*   bi    : position in inds (the `for i in inds` loop), i = inds[bi]     *)
(*   p, j  : `p` (block start) and `j` (pair under test), 0-based          *)
(*   kept  : 0-based positions in `order` of the pairs appended to `pairs` *)
(*   first : position in kept where the current block's gtest list starts  *)
(*   obs, lmode, cand, ubil : orient(): N of the observed pair, lookup     *)
(*           mode (0 = nearest, else crange*1000), candidate positions in  *)
(*           kept (`best`), classes left by ubi_equiv                      *)
(*                                                                         *)
(* ACTIONS (one per branch of filter_pairs' loop body / stage of orient)   *)
(*   PrintCell | SortPairs | SkipBlock (|cos| >= 0.98) | KeepSingle        *)
(*   (len(c) = 1) | KeepCrash (len(c) = 0: c.max() raises) | KeepFirst |   *)
(*   TestSame | TestNew | CloseBlock | Finish | Lookup | Dedup             *)
(*                                                                         *)
(* TIE ORDER  np.argsort is not stable and mathematically equal cosines    *)
(* differ in the last bits, so the order inside a block is not determined  *)
(* by the exact model.  MODE = "rule": TLC sorts with each tie rule of     *)
(* TieRules ("fwd" flat index ascending, "rev" descending) - the property  *)
(* is checked for both.  MODE = "trace": the sorted order recorded from    *)
(* the real code (ndjson file IOEnv.TRACE_FILE, one line per ring pair:    *)
(* {cell, r1, r2, order:[[ha,hb],..]}) is validated (ValidTrace: it is a   *)
(* permutation of Ring(r1) x Ring(r2) and N never decreases) and the       *)
(* model is run on it; the harness compares the kept list, order included. *)
(*                                                                         *)
(* BUG  cs.bug = TRUE models the block ends as written at the pinned       *)
(* commit, `inds = [...] + [len(c2as) - 1]` (unitcell.py:709): the last    *)
(* pair of the last block is never examined.  FALSE = `len(c2as)`.         *)
(*                                                                         *)
(* PROPERTY (independent of the block machine)                             *)
(*   Complete    at "done": every pair of the two rings with |cos| < 0.98  *)
(*               is equivalent to a kept pair        (fails for bug=TRUE)  *)
(*   Irredundant no two kept pairs are equivalent                          *)
(*   NoCrash     the len(c) = 0 branch is unreachable (rings contain -h    *)
(*               with h, so blocks have even length)                       *)
(*   BlocksExact kept pairs are in non-decreasing N; positions increase    *)
(*   DedupAgrees inside one block UbiEquiv = Equiv                         *)
(*   TrueFound   at "out" (crange mode, bug=FALSE): every pair of the      *)
(*               observed block is equivalent to exactly one class member  *)
(*               representative; classes are pairwise inequivalent         *)
(*   AutGroup    Aut+(G) is a group of the expected order                  *)
(*                                                                         *)
(* BOUNDS  Cells (named lattices, first NR rings each), all ordered ring   *)
(* pairs (RingPairs), TieRules, BugEnds, CRanges; chosen in the .cfg.      *)
(***************************************************************************)
EXTENDS ExactLA, Json, IOUtils, SequencesExt

CONSTANTS MODE,        \* "rule" | "trace"
          Cells,       \* set of cell records (see CellsAll)
          NR,          \* number of rings per cell
          PairSel,     \* "all" ordered ring pairs | "upper" (r1 <= r2) | "low" (r1 <= r2 <= 3)
          TieRules,    \* subset of {"fwd", "rev"}
          BugEnds,     \* subset of BOOLEAN
          CRanges,     \* crange values * 1000 (0 = nearest mode)
          Rots         \* set of <<ax, ay, az>> angle triples: U = Rx.Ry.Rz

(* ---------------- named lattices -------------------------------------------------------- *)
Sym(a, b, c, d, e, f) == << <<a, f, e>>, <<f, b, d>>, <<e, d, c>> >>    \* 11 22 33 23 13 12
C(id, G, cen, box, order) == [id |-> id, G |-> G, cen |-> cen, box |-> box, naut |-> order]
CellsAll == {
   C("cubP",  Sym(1,1,1,0,0,0), "P", 3, 24),
   C("cubI",  Sym(1,1,1,0,0,0), "I", 3, 24),
   C("cubF",  Sym(1,1,1,0,0,0), "F", 3, 24),
   C("tetP",  Sym(2,2,3,0,0,0), "P", 2, 8),
   C("tetI",  Sym(2,2,3,0,0,0), "I", 2, 8),
   C("tetPs", Sym(1,1,2,0,0,0), "P", 2, 8),          \* pseudo-symmetric: Q(110) = Q(001)
   C("hexP",  Sym(2,2,3,0,0,1), "P", 2, 12),
   C("hexR",  Sym(2,2,1,0,0,1), "R", 3, 12),
   C("ortP",  Sym(2,3,5,0,0,0), "P", 2, 4),
   C("ortC",  Sym(2,3,5,0,0,0), "C", 2, 4),
   C("ortF",  Sym(2,3,5,0,0,0), "F", 3, 4),
   C("ortPs", Sym(3,4,7,0,0,0), "P", 2, 4),          \* pseudo-symmetric: Q(110) = Q(001)
   C("monP",  Sym(3,2,5,0,1,0), "P", 2, 2),
   C("monC",  Sym(3,2,5,0,1,0), "C", 2, 2),
   C("rhoP",  Sym(3,3,3,1,1,1), "P", 2, 6),
   C("rhoO",  Sym(3,3,3,-1,-1,-1), "P", 2, 6),
   C("triP",  Sym(4,5,7,2,1,1), "P", 2, 1),
   C("triQ",  Sym(3,4,5,1,-1,1), "P", 2, 1) }
Cells_q == { c \in CellsAll : c.id \in {"cubF", "hexP", "monP", "triP"} }
Cells_t == CellsAll
Cells_tri == { c \in CellsAll : c.id \in {"triP", "triQ", "monP"} }
CellById(id) == CHOOSE c \in CellsAll : c.id = id

Rots_q == { <<AngZero, AngZero, AngZero>>, << <<4,3,5>>, <<5,-12,13>>, <<0,1,1>> >>,
            << <<0,-1,1>>, <<-7,24,25>>, <<3,-4,5>> >> }
Rots_t == Rots_q \cup { << <<0,1,1>>, AngZero, AngZero >>, << <<0,1,1>>, <<0,1,1>>, <<-1,0,1>> >>,
                        << AngZero, <<-1,0,1>>, AngZero >>, << <<12,5,13>>, <<4,3,5>>, <<24,7,25>> >>,
                        << <<-7,24,25>>, <<0,-1,1>>, <<12,5,13>> >>, << <<3,-4,5>>, <<3,-4,5>>, <<3,-4,5>> >>,
                        << AngZero, AngZero, <<5,-12,13>> >>, << <<24,7,25>>, AngZero, <<0,1,1>> >>,
                        << <<-1,0,1>>, <<5,-12,13>>, <<4,3,5>> >> }
RotNum(t) == M2T(MM(MM(Rx(t[1]), Ry(t[2])), Rz(t[3])))
RotDen(t) == t[1][3] * t[2][3] * t[3][3]
\* (det = +den^3 does not fit 32 bits for three Pythagorean angles: the harness checks it)
ASSUME \A t \in Rots_t : IsOrthoScaled(RotNum(t), RotDen(t))

(* ---------------- metric, rings, absences ------------------------------------------------- *)
QF(G, u, v) == Dot(u, MV(G, v))
PD(G) == G[1][1] > 0 /\ G[1][1]*G[2][2] - G[1][2]*G[1][2] > 0 /\ Det(G) > 0
AdjD(G) == LET A == Adj(G) IN <<A[1][1], A[2][2], A[3][3]>>
ASSUME \A c \in CellsAll : IsSym(c.G) /\ PD(c.G)

Absent(cen, h) ==
  CASE cen = "P" -> FALSE
    [] cen = "B" -> (h[1] + h[3]) % 2 # 0
    [] cen = "C" -> (h[1] + h[2]) % 2 # 0
    [] cen = "I" -> (h[1] + h[2] + h[3]) % 2 # 0
    [] cen = "F" -> (h[1] + h[2]) % 2 # 0 \/ (h[1] + h[3]) % 2 # 0 \/ (h[2] + h[3]) % 2 # 0
    [] cen = "R" -> (-h[1] + h[2] + h[3]) % 3 # 0

Box(K) == { h \in (-K..K) \X (-K..K) \X (-K..K) : h # <<0,0,0>> }
\* no vector with a coordinate beyond K has Q <= q :  h_i^2 <= Q (G^-1)_ii = Q Adj_ii / det
BoxOK(G, K, q) == \A i \in Idx : (K + 1)*(K + 1)*Det(G) > q*AdjD(G)[i]

SetMin(S) == CHOOSE x \in S : \A y \in S : x <= y
RECURSIVE FirstN(_, _)
FirstN(S, n) == IF n = 0 \/ S = {} THEN <<>> ELSE LET m == SetMin(S) IN <<m>> \o FirstN(S \ {m}, n - 1)

AllowedBox(c) == { h \in Box(c.box) : ~Absent(c.cen, h) }
\* TLCEval: evaluate these constant tables once (TLC applies [x \in S |-> e] lazily, without memo)
RingQsOf == TLCEval([c \in Cells |-> FirstN({ QF(c.G, h, h) : h \in AllowedBox(c) }, NR)])
RingSetOf == TLCEval([c \in Cells |-> [r \in 1..NR |-> { h \in AllowedBox(c) : QF(c.G, h, h) = RingQsOf[c][r] }]])
RingsCompleteFor(c) == Len(RingQsOf[c]) = NR /\ BoxOK(c.G, c.box, RingQsOf[c][NR])

LexLess(u, v) == \/ u[1] < v[1] \/ (u[1] = v[1] /\ u[2] < v[2])
                 \/ (u[1] = v[1] /\ u[2] = v[2] /\ u[3] < v[3])
RingSeqOf == TLCEval([c \in Cells |-> [r \in 1..NR |-> SortSeq(SetToSeq(RingSetOf[c][r]), LexLess)]])

(* ---------------- Aut+(G) by brute force ------------------------------------------------------- *)
RECURSIVE MinK(_, _, _)
MinK(G, q, K) == IF BoxOK(G, K, q) THEN K ELSE MinK(G, q, K + 1)
AutBox(G) == MinK(G, Max2(G[1][1], Max2(G[2][2], G[3][3])), 1)
AutP(G) == LET K == AutBox(G)
               V(i) == { v \in Box(K) : QF(G, v, v) = G[i][i] }
           IN { M2T(Transpose(<<c1, c2, c3>>)) : <<c1, c2, c3>> \in
                  { t \in V(1) \X V(2) \X V(3) :
                       /\ QF(G, t[1], t[2]) = G[1][2] /\ QF(G, t[1], t[3]) = G[1][3]
                       /\ QF(G, t[2], t[3]) = G[2][3]
                       /\ Det(<<t[1], t[2], t[3]>>) = 1 } }
AutOf == TLCEval([c \in Cells |-> AutP(c.G)])
\* independent statement of membership (entries of M, not columns): M^T G M = G, det = 1
IsAut(G, M) == M2T(MM(MM(Transpose(M), G), M)) = G /\ Det(M) = 1
AutGroupFor(c) ==
    LET A == AutOf[c] IN
    /\ Cardinality(A) = c.naut
    /\ I3 \in A
    /\ \A M \in A : IsAut(c.G, M) /\ M2T(Adj(M)) \in A
    /\ \A M1, M2 \in A : M2T(MM(M1, M2)) \in A
    \* the brute force of DESIGN.md (all matrices with entries -1..1) finds nothing else
    /\ \A M \in [Idx -> [Idx -> {-1, 0, 1}]] : (Det(M) = 1 /\ IsAut(c.G, M)) => M2T(M) \in A

Equiv(c, x, y) == \E M \in AutOf[c] : MV(M, x[1]) = y[1] /\ MV(M, x[2]) = y[2]
\* same orientation from the same observed g1, g2 (any angle): triad of x is mapped on triad of y
SameSense(u, v) == Cross(u, v) = <<0,0,0>> /\ Dot(u, v) > 0
UbiEquiv(c, x, y) == \E M \in AutOf[c] :
      /\ MV(M, x[1]) = y[1]
      /\ SameSense(Cross(y[1], MV(M, x[2])), Cross(y[1], y[2]))

(* ---------------- cases ------------------------------------------------------------------------- *)
Traces == IF MODE = "trace" THEN ndJsonDeserialize(IOEnv.TRACE_FILE) ELSE <<>>
NT == Len(Traces)

RingPairs == CASE PairSel = "all"   -> (1..NR) \X (1..NR)
               [] PairSel = "upper" -> { rp \in (1..NR) \X (1..NR) : rp[1] <= rp[2] }
               [] PairSel = "low"   -> { rp \in (1..NR) \X (1..NR) : rp[1] <= rp[2] /\ rp[2] <= 3 }

VARIABLES cs, pc, order, inds, bi, p, j, kept, first, obs, lmode, cand, ubil
vars == <<cs, pc, order, inds, bi, p, j, kept, first, obs, lmode, cand, ubil>>

cell == CellById(cs.cell)
G0 == cell.G
Q1 == RingQsOf[cell][cs.r1]
Q2 == RingQsOf[cell][cs.r2]
N == Len(order)
Ord(x) == order[x + 1]                      \* 0-based access, as the code's hi[x], hj[x]
NK(x) == QF(G0, Ord(x)[1], Ord(x)[2])       \* the sort key (cos * sqrt(Q1 Q2))
NKp(pr) == QF(G0, pr[1], pr[2])
SmallN(n) == 2500*n*n < 2401*Q1*Q2          \* abs(cos) < 0.98
Small(x) == SmallN(NK(x))

\* the pairs in mgrid order: flat index f = i*len(h2) + j
FlatPairs(c, r1, r2) ==
    LET a == RingSeqOf[c][r1]  b == RingSeqOf[c][r2] IN
    [f \in 1..(Len(a)*Len(b)) |-> << a[((f - 1) \div Len(b)) + 1], b[((f - 1) % Len(b)) + 1] >>]
RuleOrder(c, r1, r2, tie) ==
    LET fp == FlatPairs(c, r1, r2)
        key == [f \in DOMAIN fp |-> QF(c.G, fp[f][1], fp[f][2])]
        less(a, b) == \/ key[a] < key[b]
                      \/ (key[a] = key[b] /\ IF tie = "fwd" THEN a < b ELSE a > b)
        perm == SortSeq([f \in DOMAIN fp |-> f], less)
    IN [x \in DOMAIN fp |-> fp[perm[x]]]

\* a recorded order is acceptable iff it is a permutation of ring1 x ring2 in non-decreasing N
ValidTrace(c, r1, r2, o) ==
    /\ Len(o) = Cardinality(RingSetOf[c][r1]) * Cardinality(RingSetOf[c][r2])
    /\ \A x \in DOMAIN o : o[x][1] \in RingSetOf[c][r1] /\ o[x][2] \in RingSetOf[c][r2]
    /\ Cardinality({ o[x] : x \in DOMAIN o }) = Len(o)
    /\ \A x \in 1..(Len(o) - 1) : QF(c.G, o[x][1], o[x][2]) <= QF(c.G, o[x + 1][1], o[x + 1][2])

\* inds = list(np.arange(1, len(dc)+1)[dc]) + [len(c2as) - 1]      (unitcell.py:708-709)
IndsOf(c, o, bug) ==
    LET n == Len(o)
        key(x) == QF(c.G, o[x + 1][1], o[x + 1][2])
        S == { i \in 1..(n - 1) : key(i) > key(i - 1) }
    IN SortSeq(SetToSeq(S), <) \o << IF bug THEN n - 1 ELSE n >>

Blank == /\ order = <<>> /\ inds = <<>> /\ bi = 0 /\ p = 0 /\ j = 0 /\ kept = <<>> /\ first = 0
         /\ obs = 0 /\ lmode = 0 /\ cand = <<>> /\ ubil = {}
Init == /\ Blank
        /\ \/ /\ pc = "cell"
              /\ cs \in [cell : {c.id : c \in Cells}, r1 : {0}, r2 : {0}, tie : {"-"}, bug : {FALSE}, t : {0}]
           \/ /\ pc = "sort" /\ MODE = "rule"
              /\ \E rp \in RingPairs :
                   cs \in [cell : {c.id : c \in Cells}, r1 : {rp[1]}, r2 : {rp[2]}, tie : TieRules,
                           bug : BugEnds, t : {0}]
           \/ /\ pc = "sort" /\ MODE = "trace"
              /\ \E t \in 1..NT :
                   cs \in [cell : {Traces[t].cell}, r1 : {Traces[t].r1}, r2 : {Traces[t].r2}, tie : {"trace"},
                           bug : BugEnds, t : {t}]

keepLater == <<obs, lmode, cand, ubil>>

PrintCell == /\ pc = "cell" /\ pc' = "celldone"
             /\ UNCHANGED <<cs, order, inds, bi, p, j, kept, first, keepLater>>

\* order = np.argsort(c2a.ravel()) ... inds = ...; p = 0          (unitcell.py:698-710)
SortPairs ==
    /\ pc = "sort"
    /\ LET o == IF MODE = "trace" THEN Traces[cs.t].order ELSE RuleOrder(cell, cs.r1, cs.r2, cs.tie) IN
       IF MODE = "trace" /\ ~ValidTrace(cell, cs.r1, cs.r2, o)
       THEN pc' = "badtrace" /\ UNCHANGED <<order, inds, bi>>
       ELSE order' = o /\ inds' = IndsOf(cell, o, cs.bug) /\ bi' = 1 /\ pc' = "open"
    /\ UNCHANGED <<cs, p, j, kept, first, keepLater>>

InLoop == pc = "open" /\ bi <= Len(inds)
I == inds[bi]
\* else: p = i; continue                                           (unitcell.py:720-722)
SkipBlock  == /\ InLoop /\ ~Small(p)
              /\ p' = I /\ bi' = bi + 1
              /\ UNCHANGED <<cs, pc, order, inds, j, kept, first, keepLater>>
\* keep the first one; if len(c) == 1: p = i; continue             (unitcell.py:713-725)
KeepSingle == /\ InLoop /\ Small(p) /\ I - p = 1
              /\ kept' = Append(kept, p) /\ first' = Len(kept) + 1
              /\ p' = I /\ bi' = bi + 1
              /\ UNCHANGED <<cs, pc, order, inds, j, keepLater>>
\* c = c2as[p:i] is empty: c.max() raises ValueError              (unitcell.py:726)
KeepCrash  == /\ InLoop /\ Small(p) /\ I - p = 0
              /\ kept' = Append(kept, p) /\ first' = Len(kept) + 1
              /\ pc' = "crash"
              /\ UNCHANGED <<cs, order, inds, bi, p, j, keepLater>>
\* gtest = [orientation of the first pair]; for j in range(p+1, i) (unitcell.py:730-737)
KeepFirst  == /\ InLoop /\ Small(p) /\ I - p > 1
              /\ kept' = Append(kept, p) /\ first' = Len(kept) + 1
              /\ j' = p + 1 /\ pc' = "test"
              /\ UNCHANGED <<cs, order, inds, bi, p, keepLater>>
KnownHere(x) == \E k \in first..Len(kept) : Equiv(cell, Ord(kept[k]), Ord(x))
\* npk == 15 for some gt: newpair = False                          (unitcell.py:742-748)
TestSame   == /\ pc = "test" /\ j < I /\ KnownHere(j)
              /\ j' = j + 1
              /\ UNCHANGED <<cs, pc, order, inds, bi, p, kept, first, keepLater>>
\* if newpair: pairs.append(...)                                   (unitcell.py:749-753)
TestNew    == /\ pc = "test" /\ j < I /\ ~KnownHere(j)
              /\ kept' = Append(kept, j) /\ j' = j + 1
              /\ UNCHANGED <<cs, pc, order, inds, bi, p, first, keepLater>>
\* p = i                                                           (unitcell.py:754)
CloseBlock == /\ pc = "test" /\ j = I
              /\ p' = I /\ bi' = bi + 1 /\ pc' = "open"
              /\ UNCHANGED <<cs, order, inds, j, kept, first, keepLater>>
Finish     == /\ pc = "open" /\ bi > Len(inds)
              /\ pc' = "done"
              /\ UNCHANGED <<cs, order, inds, bi, p, j, kept, first, keepLater>>

(* ---------------- orient(): lookup and de-duplication -------------------------------------------- *)
KeptN(k) == NK(kept[k])
BlockNs == { NK(x) : x \in 0..(N - 1) }
\* crange > 0 : best = arange(len(c2ab))[abs(c2ab - costheta) < crange]       (unitcell.py:565-566)
\* else       : the nearest entry (searchsorted + neighbour comparison, 570-575); entries of the
\*              observed block are at distance ~1e-16 of each other: any of them may be returned
InRange(k, n, cr) == 1000000*(KeptN(k) - n)*(KeptN(k) - n) < cr*cr*Q1*Q2
Nearest(n) == LET d(k) == Abs(KeptN(k) - n)
              IN { k \in DOMAIN kept : \A k2 \in DOMAIN kept : d(k) <= d(k2) }
Lookup == /\ pc = "done" /\ kept # <<>>
          /\ \E n \in { m \in BlockNs : SmallN(m) } : \E cr \in CRanges :
               /\ obs' = n /\ lmode' = cr
               /\ cand' = IF cr = 0 THEN SetToSortSeq(Nearest(n), <)
                          ELSE SetToSortSeq({ k \in DOMAIN kept : InRange(k, n, cr) }, <)
          /\ pc' = "cand"
          /\ UNCHANGED <<cs, order, inds, bi, p, j, kept, first, ubil>>
\* ubi_equiv: one orientation per class (nearest mode: the single candidate, whichever it was)
ClassOf(k, S) == { k2 \in S : UbiEquiv(cell, Ord(kept[k]), Ord(kept[k2])) }
Dedup  == /\ pc = "cand"
          /\ LET S == { cand[x] : x \in DOMAIN cand } IN
             ubil' = IF lmode = 0 THEN { {k} : k \in S } ELSE { ClassOf(k, S) : k \in S }
          /\ pc' = "out"
          /\ UNCHANGED <<cs, order, inds, bi, p, j, kept, first, obs, lmode, cand>>

Next == PrintCell \/ SortPairs \/ SkipBlock \/ KeepSingle \/ KeepCrash \/ KeepFirst
        \/ TestSame \/ TestNew \/ CloseBlock \/ Finish \/ Lookup \/ Dedup
Spec == Init /\ [][Next]_vars

(* ---------------- the property ----------------------------------------------------------------------- *)
AtEnd == pc \in {"done", "cand", "out"}
KeptPairs == { Ord(kept[k]) : k \in DOMAIN kept }
RepsOf(x) == { k \in DOMAIN kept : Equiv(cell, Ord(kept[k]), Ord(x)) }
CompleteNow == \A x \in 0..(N - 1) : Small(x) => RepsOf(x) # {}
IrredundantNow == \A k1, k2 \in DOMAIN kept : k1 # k2 => ~Equiv(cell, Ord(kept[k1]), Ord(kept[k2]))
Complete    == (pc = "done" /\ ~cs.bug) => CompleteNow
CompleteAsIs == (pc = "done" /\ cs.bug) => CompleteNow           \* expected to FAIL (Orient_asis.cfg)
Irredundant == pc = "done" => IrredundantNow
NoCrash     == pc # "crash"
BlocksExact == pc = "done" =>
                 /\ \A k \in 1..(Len(kept) - 1) : kept[k] < kept[k + 1] /\ KeptN(k) <= KeptN(k + 1)
                 /\ \A k \in DOMAIN kept : Small(kept[k])
                 \* a block that may be kept has its first member kept
                 /\ \A x \in 0..(N - 1) : (Small(x) /\ (x = 0 \/ NK(x - 1) < NK(x))) =>
                        (\E k \in DOMAIN kept : kept[k] = x)
DedupAgrees == pc = "done" =>
                 \A x, y \in 0..(N - 1) : (NK(x) = NK(y) /\ Small(x)) =>
                        (UbiEquiv(cell, Ord(x), Ord(y)) <=> Equiv(cell, Ord(x), Ord(y)))
\* equal angle blocks are closed under Friedel inversion of both members: even length
EvenBlocks  == pc = "done" => \A n \in BlockNs : Cardinality({ x \in 0..(N - 1) : NK(x) = n }) % 2 = 0
TrueFound   == (pc = "out" /\ lmode > 0 /\ ~cs.bug) =>
                 /\ \A x \in 0..(N - 1) : NK(x) = obs =>
                      Cardinality({ cl \in ubil : \E k \in cl : Equiv(cell, Ord(kept[k]), Ord(x)) }) = 1
                 /\ \A c1, c2 \in ubil : c1 # c2 =>
                      \A k1 \in c1, k2 \in c2 : ~UbiEquiv(cell, Ord(kept[k1]), Ord(kept[k2]))
                 /\ \A c1, c2 \in ubil : c1 # c2 => c1 \cap c2 = {}
\* constant-level laws, evaluated once per cell (in the ghost "cell" states)
CellLaws == pc = "celldone" => (RingsCompleteFor(cell) /\ AutGroupFor(cell))
TypeOK == /\ pc \in {"cell", "celldone", "sort", "open", "test", "crash", "done", "cand", "out", "badtrace"}
          /\ pc \in {"open", "test"} => (p <= N /\ (bi <= Len(inds) => p <= I))

(* ---------------- emission --------------------------------------------------------------------------- *)
Seq2(S) == SetToSortSeq(S, <)
EmitCell == pc = "celldone" =>
   PrintT("@@" \o ToJson([kind |-> "cell", cell |-> cs.cell, G |-> cell.G, cen |-> cell.cen,
        qs |-> RingQsOf[cell], rings |-> [r \in 1..NR |-> RingSeqOf[cell][r]],
        aut |-> SetToSeq(AutOf[cell]),
        rots |-> SetToSeq({ [num |-> RotNum(t), den |-> RotDen(t)] : t \in Rots })]))
EmitDone == pc = "done" =>
   PrintT("@@" \o ToJson([kind |-> "kept", cell |-> cs.cell, r1 |-> cs.r1, r2 |-> cs.r2, tie |-> cs.tie,
        bug |-> cs.bug, t |-> cs.t, n |-> N, q1 |-> Q1, q2 |-> Q2, inds |-> inds,
        kept |-> kept, keptpairs |-> [k \in DOMAIN kept |-> Ord(kept[k])],
        keptn |-> [k \in DOMAIN kept |-> KeptN(k)],
        nk |-> [x \in 1..N |-> NK(x - 1)],
        small |-> [x \in 1..N |-> IF Small(x - 1) THEN 1 ELSE 0],
        reps |-> [x \in 1..N |-> Seq2(RepsOf(x - 1))],
        complete |-> CompleteNow, irredundant |-> IrredundantNow]))
EmitOut == pc = "out" =>
   PrintT("@@" \o ToJson([kind |-> "lookup", cell |-> cs.cell, r1 |-> cs.r1, r2 |-> cs.r2, tie |-> cs.tie,
        bug |-> cs.bug, t |-> cs.t, obs |-> obs, cr |-> lmode, cand |-> cand,
        classes |-> SetToSeq({ Seq2(cl) : cl \in ubil })]))
EmitCrash == pc = "crash" =>
   PrintT("@@" \o ToJson([kind |-> "crash", cell |-> cs.cell, r1 |-> cs.r1, r2 |-> cs.r2, tie |-> cs.tie,
        bug |-> cs.bug, t |-> cs.t, kept |-> kept]))
EmitBad == pc = "badtrace" =>
   PrintT("@@" \o ToJson([kind |-> "badtrace", cell |-> cs.cell, r1 |-> cs.r1, r2 |-> cs.r2, t |-> cs.t]))
=============================================================================

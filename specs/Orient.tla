------------------------------- MODULE Orient -------------------------------
(***************************************************************************)
(* C05 - two indexed reflections determine the orientation (Busing-Levy).  *)
(*                                                                         *)
(* MODELS   ImageD11/unitcell.py  (function : lines at the checked tree)   *)
(*   orient_BL      115-133   the same formula in python (bound: harness)  *)
(*   cosangles_many 136-149   cos of the angle of every hkl pair           *)
(*   getanglehkls   497-518   per ring pair cache of filter_pairs          *)
(*   orient         520-580   nearest / crange lookup, UBIlist             *)
(*   BTmat          640-650   (float triad: finished by the harness)       *)
(*   filter_pairs   658-724   sort, cut into blocks, keep one pair per     *)
(*                            class of "indexes the same"; block ends 678  *)
(*   ubi_equiv      727-746   de-duplication of the candidates             *)
(*          src/cdiffraction.c 240-275 quickorient (float triad, harness)  *)
(*          ImageD11/indexing.py 58-75 ubi_fit_2pks (re-fit of a UBI to    *)
(*          its two reflections; bound by the harness as a fixed point)    *)
(*                                                                         *)
(* ARITHMETIC  a cell is an integer symmetric positive definite reciprocal *)
(* metric G; Q(h) = h.G.h and d*(h) = sqrt(Q(h)) / D with the cell's own   *)
(* D = 1000 tn/td (gi = G / D^2; D = 10: edges of 2-10 A, D = 100: the     *)
(* same integer forms with entries ~100 describe 10 A cells).              *)
(* RINGS are makerings' rings (unitcell.py 457-476): the hkl sorted by d*, *)
(* a reflection joins the current ring iff its d* is less than the ring    *)
(* tolerance (0.001 / A) above the d* of the ring's FIRST member, i.e.     *)
(*   sqrt(Q) - sqrt(Q0) < tn/td   (Merges; exact integer test)             *)
(* so a ring is a run of Q values [q0 .. qmax] and ringds = sqrt(q0)/D.    *)
(* For the small forms (D = 10, Q <= 50) no two Q merge: a ring is a shell *)
(* of one Q.  The pseudo-symmetric forms (ortM, triM, tetN, monN) have     *)
(* rings that merge families of UNEQUAL d* (Q = 100 and 101, 65 and 69..): *)
(* |g| of a reflection is then not the ring's d*.                          *)
(* cos(ha,hb) = N / sqrt(D) with N = ha.G.hb and D = Q(ha) Q(hb) (D varies *)
(* inside a merged ring pair).  Cosines are compared exactly: by sign and  *)
(* N^2/D as fractions (FracCmp: Euclid on quotient / remainder, nothing    *)
(* overflows 32 bits); blocks of equal angle are blocks of equal exact     *)
(* cosine, numbered by their rank (the angle class key of a pair);         *)
(* |cos| < 0.98  <=>  N^2/D < 2401/2500;  for equal D                      *)
(* |cos_k - cos_obs| < cr/1000  <=>  (Nk-Nobs)^2 / D < cr^2 / 10^6, for    *)
(* unequal D (irrational) the difference is decided with certified bounds  *)
(* lo <= 2^21 cos <= hi (CosBnd: binary long division, integer square      *)
(* root) - a difference the bounds cannot decide violates NoBoundaryTie.   *)
(* The code clusters float cosines with a threshold of 1e-8: that blocks   *)
(* of equal exact cosine are its blocks is checked by the harness (the     *)
(* exact cosines of every replayed ring pair differ by more than 1e-6 or   *)
(* not at all; the recorded table is compared with the exact cosines).     *)
(*                                                                         *)
(* NEAR-CUT RING PAIRS  filter_pairs drops every angle class with |cos| >= *)
(* 0.98.  For every cell the ring pairs r1 <= r2 <= NRC that contain the   *)
(* hkl pair with the largest |cos| < 0.98 and the non-collinear pair with  *)
(* the smallest |cos| >= 0.98 are computed (CutOf, ghost cell state)       *)
(* and become cases of their own (CutCase; the harness records them too):  *)
(* the classes next to the cut on both sides are part of every lattice's   *)
(* instance set (the low order rings alone have no pair beyond 0.965).     *)
(*                                                                         *)
(* SCALE  The instance set is Cells x Scales: the cell (id, k) has the     *)
(* reciprocal metric gi = G / D^2 * 4^-k and the ring tolerance 0.001/2^k, *)
(* i.e. the lattice of `id` with                                           *)
(* every edge multiplied by the exact power of two 2^k (k = 0: edges of    *)
(* 2-10 A; k = -3: 0.25-1.25 A; k = 7: 260-1280 A; the long-axis forms     *)
(* tetL / hexL / ortL put a 2.5 : 1 ... 5 : 1 axis ratio on top of that).  *)
(* Every decision of the machine below is a comparison of quantities that  *)
(* are homogeneous of degree 0 in the metric (cosines, ratios of Q), so    *)
(* the rings, Aut+, the sorted order, the blocks, the kept list, the       *)
(* candidates and their classes of (id, k) are those of (id, 0) - which is *)
(* why the machine runs on the integer form G for all k at once (cs.ks =   *)
(* the scales a case stands for) - and the orientations obey               *)
(*   ScaleLaw:  orient(cell scaled by s, g / s) = s . orient(cell, g)      *)
(*              (same list, same order; likewise BT -> s.BT, cosines       *)
(*              unchanged, quickorient(g/s, s.BT) = s.quickorient(g, BT))  *)
(* For s = 2^k this holds in binary64 bit for bit (scaling by a power of   *)
(* two commutes with + - * / sqrt when nothing over/underflows): the       *)
(* harness builds the cell (id, k) from the k = 0 cell by exact scaling    *)
(* and compares bit for bit.  The integer side of the law is checked by    *)
(* TLC on the metrics m.G, m in ScaleMul (squares: the ring tolerance      *)
(* scales with sqrt(m); invariant ScaleLaw: rings, Q ratios, Aut+, sort    *)
(* keys and the 0.98 test do not move).                                    *)
(*                                                                         *)
(* "Indexes the same" (filter_pairs: the orientation made from the block's *)
(* first pair with the BT matrix of pair x indexes the 15 probe vectors    *)
(* HKL0 of an already kept orientation, HKL0 containing the three basis    *)
(* vectors) is modelled by its meaning: pairs x, y are equivalent iff some *)
(* M in Aut+(G) = { M integer : M^T G M = G, det M = +1 } has M x1 = y1    *)
(* and M x2 = y2 (hkl are columns; g = B h, R B = B M).  Aut+(G) is        *)
(* computed by brute force: the columns of M are images of the basis       *)
(* vectors, searched in a box that provably contains every vector of the   *)
(* same length (AutBox / BoxOK); CellLaws re-checks the result against the *)
(* brute force over all matrices with entries -1..1 and the group axioms.  *)
(* ubi_equiv is the same relation on orientations: candidates from pairs   *)
(* x, y (any blocks) describe the same lattice iff some M in Aut+(G) maps  *)
(* the triad of x on the triad of y (M x1 = y1 and M x2 in the half plane  *)
(* of y1, y2) - UbiEquiv.                                                  *)
(*                                                                         *)
(* VARIABLES                                                               *)
(*   cs    : the case [cell (record), r1, r2, tie, bug, t, ks] (t = trace  *)
(*           line, ks = the scale exponents the case stands for)           *)
(*   tab   : tables of the case, computed once (Tables): [h1, h2, qh1,    *)
(*           qh2, aut] (ring hkl sequences, their Q values, Aut+(G)); in   *)
(*           the ghost "cell" states [rt, rings, aut, cut] of the whole    *)
(*           cell (rt = ring table: per ring [q0, qset, qmax]; cut = the   *)
(*           near-cut ring pairs)                                          *)
(*   pc    : "celltab" / "cell" / "celldone" (ghost: the cell table) |     *)
(*           "tab" (tables to be made) | "sort" |                          *)
(*           "cluster" | "open" | "test" | "crash" | "done" | "cand" |     *)
(*           "out" | "badtrace" | "cache" / "own" (2nd / 3rd machine)      *)
(*   order : the sorted pairs, order[x+1] = <<N, f, ha, hb, D, rk, lo, sm>>*)
(*           : c2as[x] = N/sqrt(D), the flat index order[x], h1[hi[x]],    *)
(*           h2[hj[x]], and (filled in by Cluster) the rank of the pair's  *)
(*           angle class, the bounds <<lo, hi>> of 2^21 cos, |cos| < 0.98  *)
(*   inds  : the block ends (`inds`, 0-based as in the code)               *)
(*   bi    : position in inds (the `for i in inds` loop), i = inds[bi]     *)
(*   p, j  : `p` (block start) and `j` (pair under test), 0-based          *)
(*   kept  : 0-based positions in `order` of the pairs appended to `pairs` *)
(*   first : position in kept where the current block's gtest list starts  *)
(*   obs, lmode, cand, ubil : orient(): angle class of the observed pair,  *)
(*           lookup                                                        *)
(*           mode (0 = nearest, else crange*1000), candidate positions in  *)
(*           kept (`best`), classes left by ubi_equiv                      *)
(*                                                                         *)
(* ACTIONS (one per branch of filter_pairs' loop body / stage of orient)   *)
(*   Tables | PrintCell (near-cut ring pairs of the cell) | CutCase (a     *)
(*   near-cut ring pair becomes a case) | SortPairs | Cluster (dc, inds;   *)
(*   validates the order) |                                                *)
(*   SkipBlock (|cos| >= 0.98) | KeepSingle (len(c) = 1) | KeepCrash       *)
(*   (len(c) = 0: c.max() raises) | KeepFirst | TestSame | TestNew |       *)
(*   CloseBlock | Finish | Lookup | Dedup                                  *)
(*   second machine (INIT InitCache, NEXT NextCache): CGet(key) | CRetol   *)
(*   - the getanglehkls cache protocol, invariant CacheFresh               *)
(*   third machine (INIT InitOwn, NEXT NextOwn): OScribP | ORings |       *)
(*   OOrient(s, m) | OScribG - ownership of the constructor's argument and *)
(*   of the results handed out, invariants Owned, ResultsStand             *)
(*                                                                         *)
(* TIE ORDER  np.argsort is not stable and mathematically equal cosines    *)
(* differ in the last bits, so the order inside a block is not determined  *)
(* by the exact model.  MODE = "rule": TLC sorts with each tie rule of     *)
(* TieRules ("fwd" flat index ascending, "rev" descending) - the property  *)
(* is checked for both.  MODE = "trace": the sorted order recorded from    *)
(* the real code (ndjson file IOEnv.TRACE_FILE, one line per ring pair:    *)
(* {cell, r1, r2, ks, order:[[ha,hb],..]}, ks = the scales of the cell at  *)
(* which exactly this order was recorded) is validated (ValidOrder: it is  *)
(* a permutation of ring1 x ring2, the cosine never decreases) and the     *)
(* model is                                                                *)
(* run on it; the harness compares the kept list, order included.  An      *)
(* order that is not valid ends in pc = "badtrace": the code handed its    *)
(* filter_pairs something that is not the cosine table of the ring pair -  *)
(* a conformance violation of the tree (the harness then judges the        *)
(* property without the machine).                                          *)
(*                                                                         *)
(* BUG  cs.bug = TRUE models the block ends as written at the pinned       *)
(* commit, `inds = [...] + [len(c2as) - 1]`: the last pair of the last     *)
(* block is never examined.  FALSE = `len(c2as)`.                          *)
(*                                                                         *)
(* PROPERTY (independent of the block machine)                             *)
(*   Complete    at "done": every pair of the two rings with |cos| < 0.98  *)
(*               is equivalent to a kept pair   (CompleteAsIs: the same    *)
(*               for bug = TRUE, FAILS for triclinic forms)                *)
(*   Irredundant no two kept pairs are equivalent                          *)
(*   NoCrash     the len(c) = 0 branch is unreachable (rings contain -h    *)
(*               with h, so blocks have even length: EvenBlocks)           *)
(*   BlocksExact kept pairs are in non-decreasing cosine; positions        *)
(*               increase;                                                 *)
(*               the first pair of every block with |cos| < 0.98 is kept   *)
(*   DedupAgrees inside one block UbiEquiv = Equiv                         *)
(*   TrueFound   at "out" (crange mode, bug = FALSE): every pair of the    *)
(*               observed block is equivalent to a member of exactly one   *)
(*               class; classes are disjoint and pairwise inequivalent     *)
(*   CellLaws    Aut+(G) is a group of the expected order, nothing missed  *)
(*               by the box; ring boxes complete up to the merge horizon   *)
(*               of the last ring; the near-cut pairs exist and lie on     *)
(*               their sides of the cut                                    *)
(*   ScaleLaw    rings, Aut+, sort keys, |cos| < 0.98 of m.G = those of G  *)
(*   NoBoundaryTie  no candidate decision of Lookup falls on the boundary  *)
(*               or between the certified bounds                           *)
(*   CacheFresh  an entry handed out by getanglehkls was computed under    *)
(*               the ringtol in force                                      *)
(*   Owned       the object holds the numbers it was made from and makes   *)
(*               its rings from them, whatever the caller's array holds    *)
(*   ResultsStand  every result handed out still answers the observation   *)
(*               it was made from, after later calls and overwrites        *)
(*                                                                         *)
(* BOUNDS  Cells (25 named lattices: cubic P/I/F, tetragonal P/I and a     *)
(* pseudo-symmetric one, hexagonal P/R, orthorhombic P/C/F and a pseudo-   *)
(* symmetric one, monoclinic P/C, rhombohedral acute/obtuse, two           *)
(* triclinic, long-axis tetragonal / hexagonal / orthorhombic, and four    *)
(* with rings merging families of unequal d*: almost tetragonal            *)
(* orthorhombic, almost cubic triclinic, almost cubic tetragonal,          *)
(* monoclinic with beta* = 88.3 deg) x Scales (exponents k, edges x 2^k),  *)
(* ordered ring pairs of the first NR rings (PairSel) + the near-cut ring  *)
(* pairs among the first NRC rings, TieRules, BugEnds, CRanges, Rots;      *)
(* chosen in the .cfg files.                                               *)
(***************************************************************************)
EXTENDS ExactLA, Json, IOUtils, SequencesExt, FiniteSetsExt

CONSTANTS MODE,        \* "rule" | "trace"
          Cells,       \* set of cell records (see CellsAll)
          NR,          \* the ordered ring pairs of the first NR rings are cases (PairSel)
          NRC,         \* number of rings per cell (ring table; the near-cut ring pairs are searched among them)
          PairSel,     \* "all" ordered ring pairs | "upper" (r1 <= r2) | "low" (r1 <= r2 <= 3)
          TieRules,    \* subset of {"fwd", "rev"}
          BugEnds,     \* subset of BOOLEAN
          CRanges,     \* crange values * 1000 (0 = nearest mode)
          Rots,        \* set of <<ax, ay, az>> angle triples: U = Rx.Ry.Rz
          Scales       \* set of integers k: the cell with every edge multiplied by 2^k (gi = G / D^2 * 4^-k)

(* ---------------- named lattices -------------------------------------------------------- *)
Sym(a, b, c, d, e, f) == << <<a, f, e>>, <<f, b, d>>, <<e, d, c>> >>    \* 11 22 33 23 13 12
\* box = per axis bound of the hkl box holding the first NRC rings (BoxOK3, CellLaws); naut = order of Aut+(G);
\* tn/td = the ring tolerance in units of sqrt(Q): d* = sqrt(Q)/D with D = 1000 tn/td, makerings' 0.001 = (tn/td)/D
C(id, G, cen, box, order, tn, td) == [id |-> id, G |-> G, cen |-> cen, box |-> box, naut |-> order, tn |-> tn, td |-> td]
CellsAll == {
   C("cubP",  Sym(1,1,1,0,0,0), "P", <<3,3,3>>, 24, 1, 100),
   C("cubI",  Sym(1,1,1,0,0,0), "I", <<5,5,5>>, 24, 1, 100),
   C("cubF",  Sym(1,1,1,0,0,0), "F", <<6,6,6>>, 24, 1, 100),
   C("tetP",  Sym(2,2,3,0,0,0), "P", <<2,2,2>>, 8, 1, 100),
   C("tetI",  Sym(2,2,3,0,0,0), "I", <<4,4,3>>, 8, 1, 100),
   C("tetPs", Sym(1,1,2,0,0,0), "P", <<3,3,2>>, 8, 1, 100),          \* pseudo-symmetric: Q(110) = Q(001)
   C("hexP",  Sym(2,2,3,0,0,1), "P", <<3,3,2>>, 12, 1, 100),
   C("hexR",  Sym(2,2,5,0,0,1), "R", <<5,5,2>>, 12, 1, 100),
   C("ortP",  Sym(2,3,5,0,0,0), "P", <<3,2,1>>, 4, 1, 100),
   C("ortC",  Sym(2,3,5,0,0,0), "C", <<3,3,2>>, 4, 1, 100),
   C("ortF",  Sym(2,3,5,0,0,0), "F", <<5,4,3>>, 4, 1, 100),
   C("ortPs", Sym(3,4,7,0,0,0), "P", <<3,2,2>>, 4, 1, 100),          \* pseudo-symmetric: Q(110) = Q(001)
   C("monP",  Sym(3,2,5,0,1,0), "P", <<2,2,1>>, 2, 1, 100),
   C("monC",  Sym(3,2,5,0,1,0), "C", <<3,4,2>>, 2, 1, 100),
   C("rhoP",  Sym(3,3,3,1,1,1), "P", <<3,3,3>>, 6, 1, 100),
   C("rhoO",  Sym(4,4,4,-1,-1,-1), "P", <<3,3,3>>, 6, 1, 100),
   C("triP",  Sym(4,5,7,2,1,1), "P", <<2,2,1>>, 1, 1, 100),
   C("triQ",  Sym(3,4,5,1,-1,1), "P", <<2,2,1>>, 1, 1, 100),
   \* long-axis forms (axis ratio 4, 4.9, 5): low order rings are the (00l) / (h00) row, one short reciprocal axis
   C("tetL",  Sym(16,16,1,0,0,0), "P", <<1,1,7>>, 8, 1, 100),        \* c = 4 a ; Q(004) = Q(100)
   C("hexL",  Sym(8,8,1,0,0,4), "P", <<2,2,5>>, 12, 1, 100),         \* c = 2.45 a ; Q(003) = Q(101)
   C("ortL",  Sym(1,9,25,0,0,0), "P", <<6,2,1>>, 4, 1, 100),         \* a = 3 b = 5 c ; Q(300) = Q(010)
   \* rings that merge families of UNEQUAL d* (differences of 0.0005 - 0.001 / A, inside makerings' tolerance):
   \* ortM 10 / 9.95 / 8.16 A: (100)+(010), (101)+(011), (200)+(020) ... share rings (Q = 100 and 101, 250 and 251, ..)
   C("ortM",  Sym(100,101,150,0,0,0), "P", <<2,2,2>>, 4, 1, 10),
   \* triM 10 / 9.95 / 9.85 A, angles 1 - 2 deg off 90: (100)+(010), (01-1)+(10-1)... ; angle classes 3e-5 apart
   C("triM",  Sym(100,101,103,1,-1,2), "P", <<2,2,2>>, 1, 1, 10),
   \* tetN 20 / 20 / 19.6 A: every cubic shell is split 2 % in d* but stays one ring
   C("tetN",  Sym(25,25,26,0,0,0), "P", <<3,3,2>>, 8, 1, 10),
   \* monN 45.7 / 39.0 / 41.1 A, beta* = 88.3 deg: (h0l) and (h0-l) share rings (Q = 65 and 69, 106 and 110, ..)
   C("monN",  Sym(30,41,37,0,1,0), "P", <<2,2,2>>, 2, 1, 4) }
Cells_q == { c \in CellsAll : c.id \in {"cubF", "hexP", "monP", "triP", "monC", "rhoP", "ortPs", "tetL", "ortM", "triM"} }
Cells_t == CellsAll
Cells_tri == { c \in CellsAll : c.id \in {"triP", "triQ", "monP"} }
CellById(id) == CHOOSE c \in CellsAll : c.id = id

Rots_q == { <<AngZero, AngZero, AngZero>>, << <<4,3,5>>, <<5,-12,13>>, <<0,1,1>> >>,
            << <<0,-1,1>>, <<-7,24,25>>, <<3,-4,5>> >> }
Rots_t == Rots_q \cup { << <<0,1,1>>, AngZero, AngZero >>, << <<0,1,1>>, <<0,1,1>>, <<-1,0,1>> >>,
                        << <<12,5,13>>, <<4,3,5>>, <<24,7,25>> >>, << <<-7,24,25>>, <<0,-1,1>>, <<12,5,13>> >>,
                        << AngZero, AngZero, <<5,-12,13>> >>, << <<-1,0,1>>, <<5,-12,13>>, <<4,3,5>> >> }
RotNum(t) == M2T(MM(MM(Rx(t[1]), Ry(t[2])), Rz(t[3])))
RotDen(t) == t[1][3] * t[2][3] * t[3][3]
\* (det = +den^3 does not fit 32 bits for three Pythagorean angles: the harness checks it)
ASSUME \A t \in Rots_t : IsOrthoScaled(RotNum(t), RotDen(t))

(* ---------------- metric, rings, absences ------------------------------------------------- *)
QF(G, u, v) == Dot(u, MV(G, v))
PD(G) == G[1][1] > 0 /\ G[1][1]*G[2][2] - G[1][2]*G[1][2] > 0 /\ Det(G) > 0
AdjD(G) == LET A == Adj(G) IN <<A[1][1], A[2][2], A[3][3]>>
ASSUME \A c \in CellsAll : IsSym(c.G) /\ PD(c.G) /\ c.tn > 0 /\ c.td > c.tn
ASSUME NR <= NRC
\* k = -3 : edges 0.25 - 1.25 A ... k = 7 : 260 - 1280 A (tetL: a = 320 A, c = 1280 A)
Scales_q == {-3, 0, 2, 3, 4, 5, 7}
Scales_t == {-3, -1, 0, 2, 3, 4, 5, 7}
ASSUME Scales \subseteq -8..12 /\ 0 \in Scales
ScaleSeq == SetToSortSeq(Scales, <)
\* integer multiples of the metric on which TLC checks the integer side of the scale law (m.G = the cell with
\* edges divided by sqrt(m); squares, because the ring tolerance in units of sqrt(Q) goes with sqrt(m); 4 and 16
\* are members of the harness' family, 9 is not)
ScaleMul == {4, 9, 16}
SqRoot(m) == CHOOSE r \in 1..4 : r * r = m
ScaledCell(c, m) == [c EXCEPT !.G = M2T(MScale(m, c.G)), !.tn = c.tn * SqRoot(m)]

(* ---------------- exact comparisons without overflow --------------------------------------- *)
\* sign of a/b - c/d  (a, c >= 0; b, d > 0): Euclid's algorithm on quotients and remainders - no products
RECURSIVE FracCmp(_, _, _, _)
FracCmp(a, b, c, d) ==
    LET q1 == a \div b   q2 == c \div d   r1 == a % b   r2 == c % d
    IN IF q1 # q2 THEN (IF q1 < q2 THEN -1 ELSE 1)
       ELSE IF r1 = 0 \/ r2 = 0 THEN (IF r1 = r2 THEN 0 ELSE IF r1 = 0 THEN -1 ELSE 1)
       ELSE FracCmp(d, r2, b, r1)              \* r1/b ? r2/d  <=>  d/r2 ? b/r1
ASSUME /\ FracCmp(1, 3, 2, 6) = 0 /\ FracCmp(2, 7, 3, 10) = -1 /\ FracCmp(3, 10, 2, 7) = 1 /\ FracCmp(0, 5, 0, 9) = 0
       /\ FracCmp(2401, 2500, 9604, 10000) = 0 /\ FracCmp(46225, 46226, 46224, 46225) = 1 /\ FracCmp(7, 1, 13, 2) = 1
\* floor(sqrt(n)), 0 <= n < 2^31 (Newton from above)
RECURSIVE IsqN(_, _)
IsqN(n, g) == LET g2 == (g + n \div g) \div 2 IN IF g2 >= g THEN g ELSE IsqN(n, g2)
ISqrt(n) == IF n = 0 THEN 0 ELSE IsqN(n, Min2(n, 46340))
ASSUME ISqrt(0) = 0 /\ ISqrt(1) = 1 /\ ISqrt(99) = 9 /\ ISqrt(100) = 10 /\ ISqrt(1073741824) = 32768 /\ ISqrt(2147395599) = 46339
\* floor(r 2^k / b) for 0 <= r < b < 2^30 : binary long division, q = the bits so far
RECURSIVE BinDiv(_, _, _, _)
BinDiv(q, r, b, k) == IF k = 0 THEN q
                      ELSE IF 2 * r >= b THEN BinDiv(2 * q + 1, 2 * r - b, b, k - 1) ELSE BinDiv(2 * q, 2 * r, b, k - 1)
\* certified bounds of the cosine n / sqrt(d)  (n^2 <= d < 2^30):   <<lo, hi>> with lo <= 2^21 cos <= hi.
\* X = 2^30 cos^2 lies in [x, x + 1), s = floor(sqrt(x)), x = s^2 + rem:
\*   s + rem / (2s + 1) <= sqrt(x) <= 2^15 |cos| < sqrt(x + 1) <= s + (rem + 1) / (2s)        (times 64, floor / ceiling)
CosBnd(n, d) == IF n = 0 THEN <<0, 0>>
                ELSE LET x == IF n * n = d THEN 1073741824 ELSE BinDiv(0, n * n, d, 30)
                         s == ISqrt(x)
                         rem == x - s * s
                         lo == 64 * s + (64 * rem) \div (2 * s + 1)
                         hi == 64 * s + (64 * (rem + 1) + 2 * s - 1) \div (2 * s)
                     IN IF n > 0 THEN <<lo, hi>> ELSE <<-hi, -lo>>
ASSUME /\ CosBnd(1, 1) = <<2097152, 2097153>> /\ CosBnd(-1, 4) = <<-1048577, -1048576>> /\ CosBnd(0, 7) = <<0, 0>>
       /\ CosBnd(1, 2)[1] <= 1482910 /\ CosBnd(1, 2)[2] >= 1482911 /\ CosBnd(1, 2)[2] - CosBnd(1, 2)[1] <= 3
       /\ CosBnd(1, 1000000)[1] <= 2097 /\ CosBnd(1, 1000000)[2] >= 2098 /\ CosBnd(1, 1000000)[2] - CosBnd(1, 1000000)[1] <= 8
\* |cos| < 0.98
SmallND(n, d) == FracCmp(n * n, d, 2401, 2500) < 0

Absent(cen, h) ==
  CASE cen = "P" -> FALSE
    [] cen = "B" -> (h[1] + h[3]) % 2 # 0
    [] cen = "C" -> (h[1] + h[2]) % 2 # 0
    [] cen = "I" -> (h[1] + h[2] + h[3]) % 2 # 0
    [] cen = "F" -> (h[1] + h[2]) % 2 # 0 \/ (h[1] + h[3]) % 2 # 0 \/ (h[2] + h[3]) % 2 # 0
    [] cen = "R" -> (-h[1] + h[2] + h[3]) % 3 # 0

Box(K) == { h \in (-K..K) \X (-K..K) \X (-K..K) : h # <<0,0,0>> }
Box3(K) == { h \in (-K[1]..K[1]) \X (-K[2]..K[2]) \X (-K[3]..K[3]) : h # <<0,0,0>> }
\* no vector with a coordinate beyond K has Q <= q :  h_i^2 <= Q (G^-1)_ii = Q Adj_ii / det
BoxOK(G, K, q) == \A i \in Idx : (K + 1)*(K + 1)*Det(G) > q*AdjD(G)[i]
BoxOK3(G, K, q) == \A i \in Idx : (K[i] + 1)*(K[i] + 1)*Det(G) > q*AdjD(G)[i]

AllowedBox(c) == { h \in Box3(c.box) : ~Absent(c.cen, h) }
\* makerings: a reflection joins the ring whose first member has Q = q0 iff  sqrt(q) - sqrt(q0) < tn/td, i.e.
\* a = td^2 (q - q0) - tn^2 < 2 tn td sqrt(q0)   (the first conjunct bounds a before it is squared)
Merges(c, q0, q) == q = q0 \/ (q > q0 /\ LET a == c.td * c.td * (q - q0) - c.tn * c.tn IN
                       a <= 0 \/ (a < 2 * c.tn * c.td * (ISqrt(q0) + 1) /\ a * a < 4 * c.tn * c.tn * c.td * c.td * q0))
\* the first integer beyond q0 that does not join q0's ring
Horizon(c, q0) == CHOOSE q \in (q0 + 1)..(q0 + 400) : ~Merges(c, q0, q) /\ Merges(c, q0, q - 1)
\* the ring table: qs = the Q values present, ascending; the next ring starts at qs[i]; n rings still wanted
RECURSIVE Runs(_, _, _, _)
Runs(c, qs, i, n) ==
    IF n = 0 \/ i > Len(qs) THEN <<>>
    ELSE LET e == i + Cardinality({ k \in i..Len(qs) : Merges(c, qs[i], qs[k]) }) - 1
         IN << [q0 |-> qs[i], qmax |-> qs[e], qset |-> { qs[k] : k \in i..e }] >> \o Runs(c, qs, e + 1, n - 1)
RingTab(c) == Runs(c, SetToSortSeq({ QF(c.G, h, h) : h \in AllowedBox(c) }, <), 1, NRC)
\* the ring with Q in qset, in TLC's (deterministic) enumeration order of the set
RingSeq(c, qset) == SetToSeq({ h \in AllowedBox(c) : QF(c.G, h, h) \in qset })
QSeq(G, hs) == [i \in DOMAIN hs |-> QF(G, hs[i], hs[i])]

(* ---------------- the ring pairs next to the 0.98 cut -------------------------------------------- *)
\* cos^2 = N^2 / D of every pair of two rings, as <<N^2, D>>
Cos2Set(G, ha, qa, hb, qb) == { LET n == QF(G, ha[i], hb[k]) IN <<n * n, qa[i] * qb[k]>> : i \in DOMAIN ha, k \in DOMAIN hb }
BelowCut(f) == FracCmp(f[1], f[2], 2401, 2500) < 0
FracMax(S) == FoldSet(LAMBDA f, b : IF FracCmp(f[1], f[2], b[1], b[2]) > 0 THEN f ELSE b, <<0, 1>>, S)
FracMin(S) == FoldSet(LAMBDA f, b : IF FracCmp(f[1], f[2], b[1], b[2]) < 0 THEN f ELSE b, <<1, 1>>, S)
\* per ring pair r1 <= r2: the largest cos^2 below the cut and the smallest at or above it that is not collinear (<<1,1>>: none)
CutTable(G, rings, rq) ==
    { LET S == Cos2Set(G, rings[rp[1]], rq[rp[1]], rings[rp[2]], rq[rp[2]])
      IN << rp, FracMax({ f \in S : BelowCut(f) }), FracMin({ f \in S : ~BelowCut(f) /\ f[1] < f[2] }) >>
      : rp \in { rp \in (1..NRC) \X (1..NRC) : rp[1] <= rp[2] } }
CutOf(ct) == LET lo == FracMax({ t[2] : t \in ct })
                 hi == FracMin({ t[3] : t \in ct })
                 \* (when several ring pairs hold the extreme class: the one of lowest order, r2 first)
                 First(S) == { rp \in S : \A o \in S : rp[2] < o[2] \/ (rp[2] = o[2] /\ rp[1] <= o[1]) }
             IN [lo |-> lo, hi |-> hi,
                 pairs |-> First({ t[1] : t \in { t \in ct : FracCmp(t[2][1], t[2][2], lo[1], lo[2]) = 0 } })
                           \cup First({ t[1] : t \in { t \in ct : hi[1] < hi[2] /\ FracCmp(t[3][1], t[3][2], hi[1], hi[2]) = 0 } })]

(* ---------------- Aut+(G) by brute force ------------------------------------------------------- *)
AutBox(G) == LET q == Max2(G[1][1], Max2(G[2][2], G[3][3]))
             IN CHOOSE K \in 1..12 : BoxOK(G, K, q) /\ \A K2 \in 1..(K - 1) : ~BoxOK(G, K2, q)
AutPK(G, K) ==
           LET V(i) == { v \in Box(K) : QF(G, v, v) = G[i][i] }
           IN { M2T(Transpose(<<c1, c2, c3>>)) : <<c1, c2, c3>> \in
                  { t \in V(1) \X V(2) \X V(3) :
                       /\ QF(G, t[1], t[2]) = G[1][2] /\ QF(G, t[1], t[3]) = G[1][3]
                       /\ QF(G, t[2], t[3]) = G[2][3]
                       /\ Det(<<t[1], t[2], t[3]>>) = 1 } }
AutP(G) == AutPK(G, AutBox(G))
\* independent statement of membership (entries of M, not columns): M^T G M = G, det = 1
IsAut(G, M) == M2T(MM(MM(Transpose(M), G), M)) = G /\ Det(M) = 1
AutGroupFor(c, A) ==
    /\ Cardinality(A) = c.naut
    /\ I3 \in A
    /\ \A M \in A : IsAut(c.G, M) /\ M2T(Adj(M)) \in A
    /\ \A M1, M2 \in A : M2T(MM(M1, M2)) \in A
    \* the brute force of DESIGN.md (all matrices with entries -1..1) finds nothing else
    /\ \A M \in [Idx -> [Idx -> {-1, 0, 1}]] : (Det(M) = 1 /\ IsAut(c.G, M)) => M2T(M) \in A

(* ---------------- cases ------------------------------------------------------------------------- *)
Traces == IF MODE = "trace" THEN ndJsonDeserialize(IOEnv.TRACE_FILE) ELSE <<>>
NT == Len(Traces)
\* a trace line stands for the scales of the cell at which exactly this order was recorded
ASSUME \A t \in 1..NT : Traces[t].ks # <<>> /\ \A i \in DOMAIN Traces[t].ks : Traces[t].ks[i] \in Scales

RingPairs == CASE PairSel = "all"   -> (1..NR) \X (1..NR)
               [] PairSel = "upper" -> { rp \in (1..NR) \X (1..NR) : rp[1] <= rp[2] }
               [] PairSel = "low"   -> { rp \in (1..NR) \X (1..NR) : rp[1] <= rp[2] /\ rp[2] <= 3 }

VARIABLES cs, tab, pc, order, inds, bi, p, j, kept, first, obs, lmode, cand, ubil
vars == <<cs, tab, pc, order, inds, bi, p, j, kept, first, obs, lmode, cand, ubil>>

\* The tables of a case are computed once, by the first action (Tables: TLC generates initial states in one thread,
\* successors in all workers), and carried in the state variable `tab` (TLC evaluates definitions lazily and would
\* recompute rings and group in every state):
\*   ghost "cell" states : [rt, rings, rq, aut, cut]      case states : [q01, q02, h1, h2, qh1, qh2, aut]
\* (`\E v \in {e}` binds v to the evaluated e.)  rq / qh = the Q of every member of a ring (they differ in a merged ring);
\* cut is filled in by the next action (PrintCell), from the evaluated tables
CellTab(c) == \E rt \in {RingTab(c)} : \E A \in {AutP(c.G)} :
                 \E rings \in {[r \in 1..Len(rt) |-> RingSeq(c, rt[r].qset)]} :
                 tab' = [rt |-> rt, rings |-> rings, rq |-> [r \in 1..Len(rt) |-> QSeq(c.G, rings[r])], aut |-> A,
                         cut |-> [lo |-> <<0, 1>>, hi |-> <<1, 1>>, pairs |-> {}]]
CaseTab(c, r1, r2) == \E rt \in {RingTab(c)} : \E A \in {AutP(c.G)} :
                 \E h1 \in {RingSeq(c, rt[r1].qset)} : \E h2 \in {RingSeq(c, rt[r2].qset)} :
                 tab' = [q01 |-> rt[r1].q0, q02 |-> rt[r2].q0, h1 |-> h1, h2 |-> h2,
                         qh1 |-> QSeq(c.G, h1), qh2 |-> QSeq(c.G, h2), aut |-> A]

cell == cs.cell                             \* the cell record
G0 == cell.G
N == Len(order)
\* order[x+1] = <<N, f, ha, hb, D, rk, lo, sm>> : c2as[x] = N / sqrt(D), order[x] (flat index), h1[hi[x]], h2[hj[x]]
\* (0-based x as in the code); rk, lo, sm are filled in by Cluster
Ord(x) == <<order[x + 1][3], order[x + 1][4]>>
NN(x) == order[x + 1][1]                    \* N = ha.G.hb
DD(x) == order[x + 1][5]                    \* D = Q(ha) Q(hb) : cos = N / sqrt(D)
NK(x) == order[x + 1][6]                    \* the angle class of the pair: rank of its cosine among the distinct cosines, 1-based
LO(x) == order[x + 1][7][1]                 \* LO <= 2^21 cos <= HI
HI(x) == order[x + 1][7][2]
Small(x) == order[x + 1][8]                 \* abs(cos) < 0.98
\* sign of cos(u) - cos(v), exact
CosCmp(u, v) == IF u[5] = v[5] THEN Sgn(u[1] - v[1])
                ELSE IF Sgn(u[1]) # Sgn(v[1]) THEN Sgn(Sgn(u[1]) - Sgn(v[1]))
                ELSE IF u[1] = 0 THEN 0
                ELSE Sgn(u[1]) * FracCmp(u[1] * u[1], u[5], v[1] * v[1], v[5])

Equiv(x, y) == \E M \in tab.aut : MV(M, x[1]) = y[1] /\ MV(M, x[2]) = y[2]
\* same orientation from the same observed g1, g2 (any angle): triad of x is mapped on triad of y
SameSense(u, v) == Cross(u, v) = <<0,0,0>> /\ Dot(u, v) > 0
UbiEquiv(x, y) == \E M \in tab.aut :
      /\ MV(M, x[1]) = y[1]
      /\ SameSense(Cross(y[1], MV(M, x[2])), Cross(y[1], y[2]))

\* the pairs in mgrid order (flat index f = i*len(h2) + j), tagged with their key and flat index
Tagged ==
    [f \in 1..(Len(tab.h1)*Len(tab.h2)) |->
        LET i == ((f - 1) \div Len(tab.h2)) + 1   k == ((f - 1) % Len(tab.h2)) + 1
        IN << QF(G0, tab.h1[i], tab.h2[k]), f, tab.h1[i], tab.h2[k], tab.qh1[i] * tab.qh2[k], 0, <<0, 0>>, FALSE >>]
LessFwd(u, v) == LET c == CosCmp(u, v) IN c < 0 \/ (c = 0 /\ u[2] < v[2])
LessRev(u, v) == LET c == CosCmp(u, v) IN c < 0 \/ (c = 0 /\ u[2] > v[2])
RuleOrder(tie) == IF tie = "fwd" THEN SortSeq(Tagged, LessFwd) ELSE SortSeq(Tagged, LessRev)
TraceOrder(t) == [x \in DOMAIN Traces[t].order |->
                    LET a == Traces[t].order[x][1]   b == Traces[t].order[x][2]
                    IN << QF(G0, a, b), x, a, b, QF(G0, a, a) * QF(G0, b, b), 0, <<0, 0>>, FALSE >>]

\* a (recorded) order is acceptable iff it is a permutation of ring1 x ring2 in non-decreasing cosine
ValidOrder == \E S1 \in {Range(tab.h1)} : \E S2 \in {Range(tab.h2)} :
    /\ Len(order) = Len(tab.h1) * Len(tab.h2)
    /\ \A x \in DOMAIN order : order[x][3] \in S1 /\ order[x][4] \in S2
    /\ Cardinality({ <<order[x][3], order[x][4]>> : x \in DOMAIN order }) = Len(order)
    /\ \A x \in 1..(Len(order) - 1) : CosCmp(order[x], order[x + 1]) <= 0

\* inds = list(np.arange(1, len(dc)+1)[dc]) + [len(c2as) - 1]      (filter_pairs 677-678)
IndsNow(bug) ==
    SortSeq(SetToSeq({ i \in 1..(Len(order) - 1) : CosCmp(order[i], order[i + 1]) < 0 }), <)
       \o << IF bug THEN Len(order) - 1 ELSE Len(order) >>
\* the angle class (1-based rank of the block) of position x (0-based), from the block ends ii
RankOf(ii, x) == 1 + Cardinality({ k \in 1..Len(ii) : ii[k] <= x })

Blank == /\ order = <<>> /\ inds = <<>> /\ bi = 0 /\ p = 0 /\ j = 0 /\ kept = <<>> /\ first = 0
         /\ obs = 0 /\ lmode = 0 /\ cand = <<>> /\ ubil = {}
Init == /\ Blank /\ tab = <<>>
        /\ \/ /\ pc = "celltab" /\ MODE = "rule"
              /\ cs \in [cell : Cells, r1 : {0}, r2 : {0}, tie : {"-"}, bug : {FALSE}, t : {0}, ks : {ScaleSeq}]
           \/ /\ pc = "tab" /\ MODE = "rule"
              /\ \E rp \in RingPairs :
                   cs \in [cell : Cells, r1 : {rp[1]}, r2 : {rp[2]}, tie : TieRules,
                           bug : BugEnds, t : {0}, ks : {ScaleSeq}]
           \/ /\ pc = "tab" /\ MODE = "trace"
              /\ \E t \in 1..NT :
                   cs \in [cell : {CellById(Traces[t].cell)}, r1 : {Traces[t].r1}, r2 : {Traces[t].r2}, tie : {"trace"},
                           bug : BugEnds, t : {t}, ks : {Traces[t].ks}]

keepLater == <<obs, lmode, cand, ubil>>

Tables == \/ /\ pc = "celltab" /\ CellTab(cs.cell) /\ pc' = "cell"
             /\ UNCHANGED <<cs, order, inds, bi, p, j, kept, first, keepLater>>
          \/ /\ pc = "tab" /\ CaseTab(cs.cell, cs.r1, cs.r2) /\ pc' = "sort"
             /\ UNCHANGED <<cs, order, inds, bi, p, j, kept, first, keepLater>>
\* the ring pairs holding the angle classes next to the 0.98 cut, from the cell's tables
PrintCell == /\ pc = "cell" /\ pc' = "celldone"
             /\ \E ct \in {CutTable(G0, tab.rings, tab.rq)} : tab' = [tab EXCEPT !.cut = CutOf(ct)]
             /\ UNCHANGED <<cs, order, inds, bi, p, j, kept, first, keepLater>>
\* ... each of them is a case (MODE "rule"; in MODE "trace" the harness records them)
CutCase == /\ pc = "celldone" /\ MODE = "rule"
           /\ \E rp \in tab.cut.pairs : \E tie \in TieRules : \E bug \in BugEnds :
                 cs' = [cs EXCEPT !.r1 = rp[1], !.r2 = rp[2], !.tie = tie, !.bug = bug]
           /\ pc' = "tab" /\ tab' = <<>>
           /\ UNCHANGED <<order, inds, bi, p, j, kept, first, keepLater>>

\* order = np.argsort(c2a.ravel()); c2as = ...; hi, hj = ...      (filter_pairs 667-671)
SortPairs ==
    /\ pc = "sort"
    /\ order' = IF MODE = "trace" THEN TraceOrder(cs.t) ELSE RuleOrder(cs.tie)
    /\ pc' = "cluster"
    /\ UNCHANGED <<cs, tab, inds, bi, p, j, kept, first, keepLater>>
\* dc = ...; inds = ...; p = 0                                     (filter_pairs 677-679)
\* (here the model also numbers the angle classes and evaluates, once per pair, the cosine bound and the 0.98 test)
Cluster ==
    /\ pc = "cluster"
    /\ IF ValidOrder
       THEN \E ii \in {IndsNow(FALSE)} :
              /\ inds' = IF cs.bug THEN [ii EXCEPT ![Len(ii)] = Len(order) - 1] ELSE ii
              /\ order' = [x \in DOMAIN order |->
                             << order[x][1], order[x][2], order[x][3], order[x][4], order[x][5],
                                RankOf(ii, x - 1), CosBnd(order[x][1], order[x][5]), SmallND(order[x][1], order[x][5]) >>]
              /\ bi' = 1 /\ pc' = "open"
       ELSE pc' = "badtrace" /\ UNCHANGED <<inds, bi, order>>
    /\ UNCHANGED <<cs, tab, p, j, kept, first, keepLater>>

InLoop == pc = "open" /\ bi <= Len(inds)
I == inds[bi]
\* else: p = i; continue                                           (filter_pairs 689-691)
SkipBlock  == /\ InLoop /\ ~Small(p)
              /\ p' = I /\ bi' = bi + 1
              /\ UNCHANGED <<cs, tab, pc, order, inds, j, kept, first, keepLater>>
\* keep the first one; if len(c) == 1: p = i; continue             (filter_pairs 682-694)
KeepSingle == /\ InLoop /\ Small(p) /\ I - p = 1
              /\ kept' = Append(kept, p) /\ first' = Len(kept) + 1
              /\ p' = I /\ bi' = bi + 1
              /\ UNCHANGED <<cs, tab, pc, order, inds, j, keepLater>>
\* c = c2as[p:i] is empty: c.max() raises ValueError              (filter_pairs 695)
KeepCrash  == /\ InLoop /\ Small(p) /\ I - p = 0
              /\ kept' = Append(kept, p) /\ first' = Len(kept) + 1
              /\ pc' = "crash"
              /\ UNCHANGED <<cs, tab, order, inds, bi, p, j, keepLater>>
\* gtest = [orientation of the first pair]; for j in range(p+1, i) (filter_pairs 699-706)
KeepFirst  == /\ InLoop /\ Small(p) /\ I - p > 1
              /\ kept' = Append(kept, p) /\ first' = Len(kept) + 1
              /\ j' = p + 1 /\ pc' = "test"
              /\ UNCHANGED <<cs, tab, order, inds, bi, p, keepLater>>
KnownHere(x) == \E k \in first..Len(kept) : Equiv(Ord(kept[k]), Ord(x))
\* (M in Aut+ preserves the form, so equivalent pairs have equal N and D, hence equal cosine)
\* npk == 15 for some gt: newpair = False                          (filter_pairs 711-717)
TestSame   == /\ pc = "test" /\ j < I /\ KnownHere(j)
              /\ j' = j + 1
              /\ UNCHANGED <<cs, tab, pc, order, inds, bi, p, kept, first, keepLater>>
\* if newpair: pairs.append(...)                                   (filter_pairs 718-722)
TestNew    == /\ pc = "test" /\ j < I /\ ~KnownHere(j)
              /\ kept' = Append(kept, j) /\ j' = j + 1
              /\ UNCHANGED <<cs, tab, pc, order, inds, bi, p, first, keepLater>>
\* p = i                                                           (filter_pairs 723)
CloseBlock == /\ pc = "test" /\ j = I
              /\ p' = I /\ bi' = bi + 1 /\ pc' = "open"
              /\ UNCHANGED <<cs, tab, order, inds, j, kept, first, keepLater>>
Finish     == /\ pc = "open" /\ bi > Len(inds)
              /\ pc' = "done"
              /\ UNCHANGED <<cs, tab, order, inds, bi, p, j, kept, first, keepLater>>

(* ---------------- orient(): lookup and de-duplication -------------------------------------------- *)
KeptN(k) == NK(kept[k])                     \* angle class of the k-th kept pair
BlockNs == 1..Len(inds)                     \* the angle classes
BlockStart(b) == IF b = 1 THEN 0 ELSE inds[b - 1]      \* position of the first pair of class b
\* crange > 0 : best = arange(len(c2ab))[abs(c2ab - costheta) < crange]       (orient 534-535)
\*   x, y positions; equal D: (Nx - Ny)^2 / D < cr^2 / 10^6, exact.  Unequal D: 2^21 |cos x - cos y| lies in
\*   [DMin, DMax] and 2^21 cr/1000 = cr 262144/125: certainly inside / certainly outside / undecided
DN2(x, y) == (NN(x) - NN(y)) * (NN(x) - NN(y))
DMin(x, y) == Max2(0, Max2(LO(x) - HI(y), LO(y) - HI(x)))
DMax(x, y) == Max2(HI(x) - LO(y), HI(y) - LO(x))
CertIn(x, y, cr)  == DMax(x, y) * 125 < cr * 262144
CertOut(x, y, cr) == DMin(x, y) * 125 >= cr * 262144
InRangeX(x, y, cr) == IF DD(x) = DD(y) THEN FracCmp(DN2(x, y), DD(x), cr * cr, 1000000) < 0 ELSE CertIn(x, y, cr)
Decided(x, y, cr)  == IF DD(x) = DD(y) THEN FracCmp(DN2(x, y), DD(x), cr * cr, 1000000) # 0
                      ELSE CertIn(x, y, cr) \/ CertOut(x, y, cr)
\* else       : the nearest entry (searchsorted + neighbour comparison, 539-544); entries of the
\*              observed block are at distance ~1e-16 of each other: any of them may be returned.
\*   When no kept entry has the observed cosine (written block ends only) the nearest other entry: exact for
\*   equal D, else every entry the certified bounds cannot exclude
Nearest(b) == LET xo == BlockStart(b)
                  E == { k \in DOMAIN kept : KeptN(k) = b }
              IN IF E # {} THEN E
                 ELSE IF \A k \in DOMAIN kept : DD(kept[k]) = DD(xo)
                      THEN { k \in DOMAIN kept : \A k2 \in DOMAIN kept : DN2(kept[k], xo) <= DN2(kept[k2], xo) }
                      ELSE { k \in DOMAIN kept : \A k2 \in DOMAIN kept : DMin(kept[k], xo) <= DMax(kept[k2], xo) }
Lookup == /\ pc = "done" /\ kept # <<>>
          /\ \E b \in { m \in BlockNs : Small(BlockStart(m)) } : \E cr \in CRanges :
               /\ obs' = b /\ lmode' = cr
               /\ cand' = IF cr = 0 THEN SetToSortSeq(Nearest(b), <)
                          ELSE SetToSortSeq({ k \in DOMAIN kept : InRangeX(kept[k], BlockStart(b), cr) }, <)
          /\ pc' = "cand"
          /\ UNCHANGED <<cs, tab, order, inds, bi, p, j, kept, first, ubil>>
\* ubi_equiv: one orientation per class (nearest mode: the single candidate, whichever it was)
ClassOf(k, S) == { k2 \in S : UbiEquiv(Ord(kept[k]), Ord(kept[k2])) }
Dedup  == /\ pc = "cand"
          /\ LET S == { cand[x] : x \in DOMAIN cand } IN
             ubil' = IF lmode = 0 THEN { {k} : k \in S } ELSE { ClassOf(k, S) : k \in S }
          /\ pc' = "out"
          /\ UNCHANGED <<cs, tab, order, inds, bi, p, j, kept, first, obs, lmode, cand>>

Next == Tables \/ PrintCell \/ CutCase \/ SortPairs \/ Cluster \/ SkipBlock \/ KeepSingle \/ KeepCrash \/ KeepFirst
        \/ TestSame \/ TestNew \/ CloseBlock \/ Finish \/ Lookup \/ Dedup
Spec == Init /\ [][Next]_vars

(* ---------------- getanglehkls: the per ring pair cache (unitcell.py getanglehkls) ----------------- *)
\* A second, tiny machine on the same variables (INIT InitCache / NEXT NextCache, Orient_cache.cfg):
\* cs = [tol, ctol, cache, hist, ret]: current ringtol version, the version stored in the cache header,
\* the entries <<key, version they were computed under>>, the operation history (emitted for replay)
\* and the entry returned by the last get.  makerings(limit, tol') changes ringtol (and the ring table);
\* getanglehkls drops every entry when the header's ringtol differs, then computes on a miss.
CKeys == { <<1, 1>>, <<1, 2>>, <<2, 1>> }
CDEPTH == 5
InitCache == /\ pc = "cache" /\ tab = <<>> /\ Blank
             /\ cs = [tol |-> 1, ctol |-> 1, cache |-> {}, hist |-> <<>>, ret |-> <<>>]
CGet(k) == /\ pc = "cache" /\ Len(cs.hist) < CDEPTH
           /\ \E c0 \in { IF cs.tol # cs.ctol THEN {} ELSE cs.cache } :
              \E c1 \in { IF \E e \in c0 : e[1] = k THEN c0 ELSE c0 \cup { <<k, cs.tol>> } } :
                cs' = [cs EXCEPT !.ctol = cs.tol, !.cache = c1,
                                 !.hist = Append(@, <<"get", k[1], k[2], IF c1 = c0 THEN 1 ELSE 0>>),
                                 !.ret = CHOOSE e \in c1 : e[1] = k]
           /\ UNCHANGED <<tab, pc, order, inds, bi, p, j, kept, first, keepLater>>
CRetol  == /\ pc = "cache" /\ Len(cs.hist) < CDEPTH
           /\ cs' = [cs EXCEPT !.tol = 3 - cs.tol, !.hist = Append(@, <<"retol", 3 - cs.tol, 0, 0>>)]
           /\ UNCHANGED <<tab, pc, order, inds, bi, p, j, kept, first, keepLater>>
NextCache == CRetol \/ \E k \in CKeys : CGet(k)
\* what is handed out was computed from the ring table in force
CacheFresh == (pc = "cache" /\ cs.ret # <<>> /\ cs.hist[Len(cs.hist)][1] = "get") => cs.ret[2] = cs.tol
EmitCache == (pc = "cache" /\ Len(cs.hist) = CDEPTH) => PrintT("@@" \o ToJson([kind |-> "cache", hist |-> cs.hist]))

(* ---------------- ownership: the object, the caller's arrays, the results handed out ------------------ *)
\* A third, tiny machine on the same variables (INIT InitOwn / NEXT NextOwn, Orient_own.cfg).  A unit cell is a
\* snapshot of the six numbers it was made from, and what orient() hands out is a snapshot of its answer: whatever the
\* caller does afterwards to the arrays he passed in (the parameter array: a buffer filled for phase after phase, a
\* row / column / slice of a table of cells; the two g-vector arrays) changes neither the object nor an earlier result.
\* Contents are version numbers: 1 = the numbers of the cell / of the first observation; every overwrite by the caller
\* makes a new version (a very different cell, other g-vectors).
\* cs = [how, pbuf, par, box, gbuf, out, hist]
\*   how  : what the constructor was given (OwnHows: a float64 array in four layouts, or a list)
\*   pbuf : version now in the caller's parameter array;   par : version the object holds
\*   box  : version the current ring table (hkl search box, rings) was made from, 0 = no rings yet
\*   gbuf : version now in the caller's g arrays
\*   out  : the results handed out so far, <<g version they were made from, version they hold now, box version used>>
\*   hist : the operations (emitted for replay): <<"scribp">> the caller overwrites his parameter array |
\*          <<"rings">> makerings | <<"orient", s, m>> the caller fills his g arrays with observation s of the grain
\*          and calls orient in lookup mode m | <<"scribg">> the caller overwrites his g arrays
\* The harness replays every history on a real cell and re-judges, after every operation, the object (parameters, B,
\* ring table) and every result handed out so far (the very arrays, not copies).
OwnHows == {"buffer", "row", "column", "tail", "list"}
ODEPTH == 5
OLast(h) == IF h = <<>> THEN "-" ELSE h[Len(h)][1]
InitOwn == /\ pc = "own" /\ tab = <<>> /\ Blank
           /\ cs \in [how : OwnHows, pbuf : {1}, par : {1}, box : {0}, gbuf : {0}, out : {<<>>}, hist : {<<>>}]
OScribP == /\ pc = "own" /\ Len(cs.hist) < ODEPTH /\ OLast(cs.hist) # "scribp"
           /\ cs' = [cs EXCEPT !.pbuf = @ + 1, !.hist = Append(@, <<"scribp", 0, 0>>)]      \* par, box, out: untouched
           /\ UNCHANGED <<tab, pc, order, inds, bi, p, j, kept, first, keepLater>>
ORings  == /\ pc = "own" /\ Len(cs.hist) < ODEPTH /\ OLast(cs.hist) # "rings"
           /\ cs' = [cs EXCEPT !.box = cs.par, !.hist = Append(@, <<"rings", 0, 0>>)]       \* from the object's own numbers
           /\ UNCHANGED <<tab, pc, order, inds, bi, p, j, kept, first, keepLater>>
OOrient(s, m) == /\ pc = "own" /\ Len(cs.hist) < ODEPTH /\ cs.box # 0
                 /\ cs' = [cs EXCEPT !.gbuf = @ + 1, !.out = Append(@, <<cs.gbuf + 1, cs.gbuf + 1, cs.box>>),
                                     !.hist = Append(@, <<"orient", s, m>>)]
                 /\ UNCHANGED <<tab, pc, order, inds, bi, p, j, kept, first, keepLater>>
OScribG == /\ pc = "own" /\ Len(cs.hist) < ODEPTH /\ OLast(cs.hist) = "orient"
           /\ cs' = [cs EXCEPT !.gbuf = @ + 1, !.hist = Append(@, <<"scribg", 0, 0>>)]      \* out: untouched
           /\ UNCHANGED <<tab, pc, order, inds, bi, p, j, kept, first, keepLater>>
NextOwn == OScribP \/ ORings \/ OScribG \/ \E s \in {1, 2}, m \in {0, 2} : OOrient(s, m)
\* the object keeps the numbers it was made from, rings are made from them, every result still is the answer to the
\* observation it was made from
Owned       == pc = "own" => (cs.par = 1 /\ cs.box \in {0, 1})
ResultsStand == pc = "own" => \A i \in DOMAIN cs.out : cs.out[i][1] = cs.out[i][2] /\ cs.out[i][3] = 1
\* (histories that end with the caller's last word: the harness re-judges everything after the last operation)
EmitOwn == (pc = "own" /\ Len(cs.hist) = ODEPTH /\ cs.out # <<>>) =>
              PrintT("@@" \o ToJson([kind |-> "own", how |-> cs.how, hist |-> cs.hist]))

(* ---------------- the property ----------------------------------------------------------------------- *)
AtEnd == pc \in {"done", "cand", "out"}
KeptPairs == { Ord(kept[k]) : k \in DOMAIN kept }
RepsOf(x) == { k \in DOMAIN kept : KeptN(k) = NK(x) /\ Equiv(Ord(kept[k]), Ord(x)) }
CompleteNow == \A x \in 0..(N - 1) : Small(x) => RepsOf(x) # {}
IrredundantNow == \A k1, k2 \in DOMAIN kept : (k1 # k2 /\ KeptN(k1) = KeptN(k2)) => ~Equiv(Ord(kept[k1]), Ord(kept[k2]))
Complete    == (pc = "done" /\ ~cs.bug) => CompleteNow
CompleteAsIs == (pc = "done" /\ cs.bug) => CompleteNow           \* expected to FAIL (Orient_asis.cfg)
Irredundant == pc = "done" => IrredundantNow
NoCrash     == pc # "crash"
BlocksExact == pc = "done" =>
                 /\ \A k \in 1..(Len(kept) - 1) : kept[k] < kept[k + 1] /\ KeptN(k) <= KeptN(k + 1)
                 /\ \A k \in DOMAIN kept : Small(kept[k])
                 \* a block that may be kept has its first member kept
                 /\ \A x \in 0..(N - 1) : (Small(x) /\ (x = 0 \/ NK(x - 1) < NK(x))) =>
                        (\E k \in DOMAIN kept : kept[k] = x)
DedupAgrees == pc = "done" =>
                 \A x, y \in 0..(N - 1) : (NK(x) = NK(y) /\ Small(x)) =>
                        (UbiEquiv(Ord(x), Ord(y)) <=> Equiv(Ord(x), Ord(y)))
\* equal angle blocks are closed under Friedel inversion of both members: even length
EvenBlocks  == pc = "done" => \A b \in 1..Len(inds) :
                  ((IF b = Len(inds) THEN N ELSE inds[b]) - BlockStart(b)) % 2 = 0
TrueFound   == (pc = "out" /\ lmode > 0 /\ ~cs.bug) =>
                 /\ \A x \in 0..(N - 1) : NK(x) = obs =>
                      Cardinality({ cl \in ubil : \E k \in cl : Equiv(Ord(kept[k]), Ord(x)) }) = 1
                 /\ \A c1, c2 \in ubil : c1 # c2 =>
                      \A k1 \in c1, k2 \in c2 : ~UbiEquiv(Ord(kept[k1]), Ord(kept[k2]))
                 /\ \A c1, c2 \in ubil : c1 # c2 => c1 \cap c2 = {}
\* constant-level laws, evaluated once per cell (in the ghost "cell" states): the hkl box holds every reflection up to
\* the first Q that cannot join the last ring; Aut+; the near-cut classes lie on their sides of the cut
CellLaws == pc = "celldone" => /\ Len(tab.rt) = NRC
                               /\ BoxOK3(G0, cell.box, Horizon(cell, tab.rt[NRC].q0))
                               /\ \A r \in 1..NRC : tab.rings[r] # <<>> /\ tab.rt[r].qmax < Horizon(cell, tab.rt[r].q0)
                               /\ AutGroupFor(cell, tab.aut)
                               /\ tab.cut.pairs # {} /\ \A rp \in tab.cut.pairs : rp[1] <= rp[2] /\ rp[2] <= NRC
                               /\ BelowCut(tab.cut.lo) /\ ~BelowCut(tab.cut.hi)
\* the integer side of the scale law, per cell: on the metric m.G (ring tolerance times sqrt(m)) the ring Q values are
\* m times those of G, the rings are the same sets in the same enumeration, Aut+ is the same group, every N is m times
\* and every D m^2 times the value on G (same cosines: same order, same blocks) and the |cos| < 0.98 test gives the
\* same answer (pairs: the ring pairs of the first NR rings and the near-cut ring pairs)
ScaleLaw == pc = "celldone" => \A m \in ScaleMul : \E c2 \in {ScaledCell(cell, m)} : \E rt2 \in {RingTab(c2)} :
               /\ Len(rt2) = NRC
               /\ \A r \in 1..NRC : /\ rt2[r].q0 = m * tab.rt[r].q0 /\ rt2[r].qmax = m * tab.rt[r].qmax
                                      /\ rt2[r].qset = { m * q : q \in tab.rt[r].qset }
                                      /\ RingSeq(c2, rt2[r].qset) = tab.rings[r]
               /\ AutPK(c2.G, AutBox(G0)) = tab.aut
               /\ \A rp \in ((1..NR) \X (1..NR)) \cup tab.cut.pairs :
                     \A i \in DOMAIN tab.rings[rp[1]], k \in DOMAIN tab.rings[rp[2]] :
                       \E a \in {tab.rings[rp[1]][i]} : \E b \in {tab.rings[rp[2]][k]} :
                       \E n \in {QF(G0, a, b)} : \E d \in {tab.rq[rp[1]][i] * tab.rq[rp[2]][k]} :
                         /\ QF(c2.G, a, b) = m * n
                         /\ QF(c2.G, a, a) * QF(c2.G, b, b) = m * m * d
                         /\ SmallND(m * n, m * m * d) <=> SmallND(n, d)
\* the harness' crange values never put a kept pair exactly on the boundary |cos_k - cos_obs| = crange
\* (there the float comparison of the code would be decided by rounding), nor between the certified bounds
NoBoundaryTie == pc = "cand" => \A k \in DOMAIN kept : lmode = 0 \/ Decided(kept[k], BlockStart(obs), lmode)
TypeOK == /\ pc \in {"cache", "own", "celltab", "tab", "cell", "celldone", "sort", "cluster", "open", "test", "crash", "done", "cand", "out", "badtrace"}
          /\ pc \in {"open", "test"} => (p <= N /\ (bi <= Len(inds) => p <= I))

(* ---------------- emission --------------------------------------------------------------------------- *)
Seq2(S) == SetToSortSeq(S, <)
EmitCell == pc = "celldone" =>
   PrintT("@@" \o ToJson([kind |-> "cell", cell |-> cs.cell.id, G |-> cell.G, cen |-> cell.cen,
        tn |-> cell.tn, td |-> cell.td, qs |-> [r \in 1..NRC |-> tab.rt[r].q0],
        qsets |-> [r \in 1..NRC |-> SetToSortSeq(tab.rt[r].qset, <)], rings |-> tab.rings,
        cut |-> SetToSeq(tab.cut.pairs), cutlo |-> tab.cut.lo, cuthi |-> tab.cut.hi,
        aut |-> SetToSeq(tab.aut), scales |-> ScaleSeq,
        rots |-> SetToSeq({ [num |-> RotNum(t), den |-> RotDen(t)] : t \in Rots })]))
EmitDone == pc = "done" =>
   PrintT("@@" \o ToJson([kind |-> "kept", cell |-> cs.cell.id, r1 |-> cs.r1, r2 |-> cs.r2, tie |-> cs.tie,
        bug |-> cs.bug, t |-> cs.t, ks |-> cs.ks, n |-> N, q1 |-> tab.q01, q2 |-> tab.q02, inds |-> inds,
        kept |-> kept, keptpairs |-> [k \in DOMAIN kept |-> Ord(kept[k])],
        keptn |-> [k \in DOMAIN kept |-> KeptN(k)],
        nk |-> [x \in 1..N |-> NK(x - 1)], nn |-> [x \in 1..N |-> NN(x - 1)], dd |-> [x \in 1..N |-> DD(x - 1)],
        small |-> [x \in 1..N |-> IF Small(x - 1) THEN 1 ELSE 0],
        reps |-> [x \in 1..N |-> Seq2(RepsOf(x - 1))],
        complete |-> CompleteNow, irredundant |-> IrredundantNow]))
EmitOut == pc = "out" =>
   PrintT("@@" \o ToJson([kind |-> "lookup", cell |-> cs.cell.id, r1 |-> cs.r1, r2 |-> cs.r2, tie |-> cs.tie,
        bug |-> cs.bug, t |-> cs.t, ks |-> cs.ks, obs |-> obs, cr |-> lmode, cand |-> cand,
        classes |-> SetToSeq({ Seq2(cl) : cl \in ubil })]))
EmitCrash == pc = "crash" =>
   PrintT("@@" \o ToJson([kind |-> "crash", cell |-> cs.cell.id, r1 |-> cs.r1, r2 |-> cs.r2, tie |-> cs.tie,
        bug |-> cs.bug, t |-> cs.t, ks |-> cs.ks, kept |-> kept]))
EmitBad == pc = "badtrace" =>
   PrintT("@@" \o ToJson([kind |-> "badtrace", cell |-> cs.cell.id, r1 |-> cs.r1, r2 |-> cs.r2, t |-> cs.t, ks |-> cs.ks]))
=============================================================================

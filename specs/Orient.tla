------------------------------- MODULE Orient -------------------------------
(***************************************************************************)
(* C05 - two indexed reflections determine the orientation (Busing-Levy).  *)
(*                                                                         *)
(* MODELS   ImageD11/unitcell.py  (function : lines at the checked tree)   *)
(*   orient_BL      115-133   the same formula in python (bound: harness)  *)
(*   cosangles_many 136-149   cos of the angle of every hkl pair           *)
(*   getanglehkls   497-518   per ring pair cache of filter_pairs          *)
(*   orient         520-580   nearest / crange lookup, UBIlist             *)
(*   BTmat          640-650   (float triad: finished by the harness)       *)
(*   filter_pairs   658-724   sort, cut into blocks, keep one pair per     *)
(*                            class of "indexes the same"; block ends 678  *)
(*   ubi_equiv      727-746   de-duplication of the candidates             *)
(*          src/cdiffraction.c 240-275 quickorient (float triad, harness)  *)
(*          ImageD11/indexing.py 58-75 ubi_fit_2pks (re-fit of a UBI to    *)
(*          its two reflections; bound by the harness as a fixed point)    *)
(*                                                                         *)
(* ARITHMETIC  a cell is an integer symmetric positive definite reciprocal *)
(* metric G ( = gi * scale ); Q(h) = h.G.h .  A ring is the set of allowed *)
(* hkl with one value of Q (the harness scales the cell so that distinct Q *)
(* are further apart than makerings' tolerance and verifies the real ring  *)
(* table against the rings below).  Inside one ring pair Q1, Q2 are        *)
(* constant, so cos(ha,hb) = N/sqrt(Q1 Q2) with N = ha.G.hb : sorting by   *)
(* cosine is sorting by the integer N, blocks of equal angle are blocks of *)
(* equal N,  |cos| < 0.98  <=>  2500 N^2 < 2401 Q1 Q2,  and                *)
(* |cos_k - cos_obs| < cr/1000  <=>  10^6 (Nk-Nobs)^2 < cr^2 Q1 Q2.        *)
(*                                                                         *)
(* SCALE  The instance set is Cells x Scales: the cell (id, k) has the     *)
(* reciprocal metric gi = G * 0.01 * 4^-k, i.e. the lattice of `id` with   *)
(* every edge multiplied by the exact power of two 2^k (k = 0: edges of    *)
(* 2-10 A; k = -3: 0.25-1.25 A; k = 7: 260-1280 A; the long-axis forms     *)
(* tetL / hexL / ortL put a 2.5 : 1 ... 5 : 1 axis ratio on top of that).  *)
(* Every decision of the machine below is a comparison of quantities that  *)
(* are homogeneous of degree 0 in the metric (cosines, ratios of Q), so    *)
(* the rings, Aut+, the sorted order, the blocks, the kept list, the       *)
(* candidates and their classes of (id, k) are those of (id, 0) - which is *)
(* why the machine runs on the integer form G for all k at once (cs.ks =   *)
(* the scales a case stands for) - and the orientations obey               *)
(*   ScaleLaw:  orient(cell scaled by s, g / s) = s . orient(cell, g)      *)
(*              (same list, same order; likewise BT -> s.BT, cosines       *)
(*              unchanged, quickorient(g/s, s.BT) = s.quickorient(g, BT))  *)
(* For s = 2^k this holds in binary64 bit for bit (scaling by a power of   *)
(* two commutes with + - * / sqrt when nothing over/underflows): the       *)
(* harness builds the cell (id, k) from the k = 0 cell by exact scaling    *)
(* and compares bit for bit.  The integer side of the law is checked by    *)
(* TLC on the metrics m.G, m in ScaleMul (invariant ScaleLaw: rings, Q     *)
(* ratios, Aut+, sort keys and the 0.98 test do not move).                 *)
(*                                                                         *)
(* "Indexes the same" (filter_pairs: the orientation made from the block's *)
(* first pair with the BT matrix of pair x indexes the 15 probe vectors    *)
(* HKL0 of an already kept orientation, HKL0 containing the three basis    *)
(* vectors) is modelled by its meaning: pairs x, y are equivalent iff some *)
(* M in Aut+(G) = { M integer : M^T G M = G, det M = +1 } has M x1 = y1    *)
(* and M x2 = y2 (hkl are columns; g = B h, R B = B M).  Aut+(G) is        *)
(* computed by brute force: the columns of M are images of the basis       *)
(* vectors, searched in a box that provably contains every vector of the   *)
(* same length (AutBox / BoxOK); CellLaws re-checks the result against the *)
(* brute force over all matrices with entries -1..1 and the group axioms.  *)
(* ubi_equiv is the same relation on orientations: candidates from pairs   *)
(* x, y (any blocks) describe the same lattice iff some M in Aut+(G) maps  *)
(* the triad of x on the triad of y (M x1 = y1 and M x2 in the half plane  *)
(* of y1, y2) - UbiEquiv.                                                  *)
(*                                                                         *)
(* VARIABLES                                                               *)
(*   cs    : the case [cell (record), r1, r2, tie, bug, t, ks] (t = trace  *)
(*           line, ks = the scale exponents the case stands for)           *)
(*   tab   : tables of the case, computed once (Tables): [q1, q2, h1, h2,  *)
(*           aut] (ring Q values, ring hkl sequences, Aut+(G)); in the     *)
(*           ghost "cell" states [qs, rings, aut] of the whole cell        *)
(*   pc    : "celltab" / "cell" / "celldone" (ghost: the cell table) |     *)
(*           "tab" (tables to be made) | "sort" |                          *)
(*           "cluster" | "open" | "test" | "crash" | "done" | "cand" |     *)
(*           "out" | "badtrace" | "cache" (second machine, see below)      *)
(*   order : the sorted pairs, order[x+1] = <<N, f, ha, hb>> : c2as[x],    *)
(*           the flat index order[x], h1[hi[x]], h2[hj[x]]                 *)
(*   inds  : the block ends (`inds`, 0-based as in the code)               *)
(*   bi    : position in inds (the `for i in inds` loop), i = inds[bi]     *)
(*   p, j  : `p` (block start) and `j` (pair under test), 0-based          *)
(*   kept  : 0-based positions in `order` of the pairs appended to `pairs` *)
(*   first : position in kept where the current block's gtest list starts  *)
(*   obs, lmode, cand, ubil : orient(): N of the observed pair, lookup     *)
(*           mode (0 = nearest, else crange*1000), candidate positions in  *)
(*           kept (`best`), classes left by ubi_equiv                      *)
(*                                                                         *)
(* ACTIONS (one per branch of filter_pairs' loop body / stage of orient)   *)
(*   Tables | PrintCell | SortPairs | Cluster (dc, inds; validates the     *)
(*   order) |                                                              *)
(*   SkipBlock (|cos| >= 0.98) | KeepSingle (len(c) = 1) | KeepCrash       *)
(*   (len(c) = 0: c.max() raises) | KeepFirst | TestSame | TestNew |       *)
(*   CloseBlock | Finish | Lookup | Dedup                                  *)
(*   second machine (INIT InitCache, NEXT NextCache): CGet(key) | CRetol   *)
(*   - the getanglehkls cache protocol, invariant CacheFresh               *)
(*                                                                         *)
(* TIE ORDER  np.argsort is not stable and mathematically equal cosines    *)
(* differ in the last bits, so the order inside a block is not determined  *)
(* by the exact model.  MODE = "rule": TLC sorts with each tie rule of     *)
(* TieRules ("fwd" flat index ascending, "rev" descending) - the property  *)
(* is checked for both.  MODE = "trace": the sorted order recorded from    *)
(* the real code (ndjson file IOEnv.TRACE_FILE, one line per ring pair:    *)
(* {cell, r1, r2, ks, order:[[ha,hb],..]}, ks = the scales of the cell at  *)
(* which exactly this order was recorded) is validated (ValidOrder: it is  *)
(* a permutation of ring1 x ring2 and N never decreases) and the model is  *)
(* run on it; the harness compares the kept list, order included.  An      *)
(* order that is not valid ends in pc = "badtrace": the code handed its    *)
(* filter_pairs something that is not the cosine table of the ring pair -  *)
(* a conformance violation of the tree (the harness then judges the        *)
(* property without the machine).                                          *)
(*                                                                         *)
(* BUG  cs.bug = TRUE models the block ends as written at the pinned       *)
(* commit, `inds = [...] + [len(c2as) - 1]`: the last pair of the last     *)
(* block is never examined.  FALSE = `len(c2as)`.                          *)
(*                                                                         *)
(* PROPERTY (independent of the block machine)                             *)
(*   Complete    at "done": every pair of the two rings with |cos| < 0.98  *)
(*               is equivalent to a kept pair   (CompleteAsIs: the same    *)
(*               for bug = TRUE, FAILS for triclinic forms)                *)
(*   Irredundant no two kept pairs are equivalent                          *)
(*   NoCrash     the len(c) = 0 branch is unreachable (rings contain -h    *)
(*               with h, so blocks have even length: EvenBlocks)           *)
(*   BlocksExact kept pairs are in non-decreasing N; positions increase;   *)
(*               the first pair of every block with |cos| < 0.98 is kept   *)
(*   DedupAgrees inside one block UbiEquiv = Equiv                         *)
(*   TrueFound   at "out" (crange mode, bug = FALSE): every pair of the    *)
(*               observed block is equivalent to a member of exactly one   *)
(*               class; classes are disjoint and pairwise inequivalent     *)
(*   CellLaws    Aut+(G) is a group of the expected order, nothing missed  *)
(*               by the box; ring boxes complete                           *)
(*   ScaleLaw    rings, Aut+, sort keys, |cos| < 0.98 of m.G = those of G  *)
(*   CacheFresh  an entry handed out by getanglehkls was computed under    *)
(*               the ringtol in force                                      *)
(*                                                                         *)
(* BOUNDS  Cells (21 named lattices: cubic P/I/F, tetragonal P/I and a     *)
(* pseudo-symmetric one, hexagonal P/R, orthorhombic P/C/F and a pseudo-   *)
(* symmetric one, monoclinic P/C, rhombohedral acute/obtuse, two           *)
(* triclinic, long-axis tetragonal / hexagonal / orthorhombic) x Scales    *)
(* (exponents k, edges x 2^k), first NR rings, ordered ring pairs          *)
(* (PairSel), TieRules, BugEnds, CRanges, Rots; chosen in the .cfg files.  *)
(***************************************************************************)
EXTENDS ExactLA, Json, IOUtils, SequencesExt

CONSTANTS MODE,        \* "rule" | "trace"
          Cells,       \* set of cell records (see CellsAll)
          NR,          \* number of rings per cell
          PairSel,     \* "all" ordered ring pairs | "upper" (r1 <= r2) | "low" (r1 <= r2 <= 3)
          TieRules,    \* subset of {"fwd", "rev"}
          BugEnds,     \* subset of BOOLEAN
          CRanges,     \* crange values * 1000 (0 = nearest mode)
          Rots,        \* set of <<ax, ay, az>> angle triples: U = Rx.Ry.Rz
          Scales       \* set of integers k: the cell with every edge multiplied by 2^k (gi = G * 0.01 * 4^-k)

(* ---------------- named lattices -------------------------------------------------------- *)
Sym(a, b, c, d, e, f) == << <<a, f, e>>, <<f, b, d>>, <<e, d, c>> >>    \* 11 22 33 23 13 12
C(id, G, cen, box, order) == [id |-> id, G |-> G, cen |-> cen, box |-> box, naut |-> order]
CellsAll == {
   C("cubP",  Sym(1,1,1,0,0,0), "P", 3, 24),
   C("cubI",  Sym(1,1,1,0,0,0), "I", 3, 24),
   C("cubF",  Sym(1,1,1,0,0,0), "F", 3, 24),
   C("tetP",  Sym(2,2,3,0,0,0), "P", 2, 8),
   C("tetI",  Sym(2,2,3,0,0,0), "I", 2, 8),
   C("tetPs", Sym(1,1,2,0,0,0), "P", 2, 8),          \* pseudo-symmetric: Q(110) = Q(001)
   C("hexP",  Sym(2,2,3,0,0,1), "P", 2, 12),
   C("hexR",  Sym(2,2,5,0,0,1), "R", 3, 12),
   C("ortP",  Sym(2,3,5,0,0,0), "P", 2, 4),
   C("ortC",  Sym(2,3,5,0,0,0), "C", 2, 4),
   C("ortF",  Sym(2,3,5,0,0,0), "F", 3, 4),
   C("ortPs", Sym(3,4,7,0,0,0), "P", 2, 4),          \* pseudo-symmetric: Q(110) = Q(001)
   C("monP",  Sym(3,2,5,0,1,0), "P", 2, 2),
   C("monC",  Sym(3,2,5,0,1,0), "C", 3, 2),
   C("rhoP",  Sym(3,3,3,1,1,1), "P", 2, 6),
   C("rhoO",  Sym(4,4,4,-1,-1,-1), "P", 2, 6),
   C("triP",  Sym(4,5,7,2,1,1), "P", 2, 1),
   C("triQ",  Sym(3,4,5,1,-1,1), "P", 2, 1),
   \* long-axis forms (axis ratio 4, 4.9, 5): low order rings are the (00l) / (h00) row, one short reciprocal axis
   C("tetL",  Sym(16,16,1,0,0,0), "P", 4, 8),        \* c = 4 a ; Q(004) = Q(100)
   C("hexL",  Sym(8,8,1,0,0,4), "P", 3, 12),         \* c = 2.45 a ; Q(003) = Q(101)
   C("ortL",  Sym(1,9,25,0,0,0), "P", 3, 4) }        \* a = 3 b = 5 c ; Q(300) = Q(010)
Cells_q == { c \in CellsAll : c.id \in {"cubF", "hexP", "monP", "triP", "monC", "rhoP", "ortPs", "tetL"} }
Cells_t == CellsAll
Cells_tri == { c \in CellsAll : c.id \in {"triP", "triQ", "monP"} }
CellById(id) == CHOOSE c \in CellsAll : c.id = id

Rots_q == { <<AngZero, AngZero, AngZero>>, << <<4,3,5>>, <<5,-12,13>>, <<0,1,1>> >>,
            << <<0,-1,1>>, <<-7,24,25>>, <<3,-4,5>> >> }
Rots_t == Rots_q \cup { << <<0,1,1>>, AngZero, AngZero >>, << <<0,1,1>>, <<0,1,1>>, <<-1,0,1>> >>,
                        << <<12,5,13>>, <<4,3,5>>, <<24,7,25>> >>, << <<-7,24,25>>, <<0,-1,1>>, <<12,5,13>> >>,
                        << AngZero, AngZero, <<5,-12,13>> >>, << <<-1,0,1>>, <<5,-12,13>>, <<4,3,5>> >> }
RotNum(t) == M2T(MM(MM(Rx(t[1]), Ry(t[2])), Rz(t[3])))
RotDen(t) == t[1][3] * t[2][3] * t[3][3]
\* (det = +den^3 does not fit 32 bits for three Pythagorean angles: the harness checks it)
ASSUME \A t \in Rots_t : IsOrthoScaled(RotNum(t), RotDen(t))

(* ---------------- metric, rings, absences ------------------------------------------------- *)
QF(G, u, v) == Dot(u, MV(G, v))
PD(G) == G[1][1] > 0 /\ G[1][1]*G[2][2] - G[1][2]*G[1][2] > 0 /\ Det(G) > 0
AdjD(G) == LET A == Adj(G) IN <<A[1][1], A[2][2], A[3][3]>>
ASSUME \A c \in CellsAll : IsSym(c.G) /\ PD(c.G)
\* k = -3 : edges 0.25 - 1.25 A ... k = 7 : 260 - 1280 A (tetL: a = 320 A, c = 1280 A)
Scales_q == {-3, 0, 2, 3, 4, 5, 7}
Scales_t == {-3, -1, 0, 2, 3, 4, 5, 7}
ASSUME Scales \subseteq -8..12 /\ 0 \in Scales
ScaleSeq == SetToSortSeq(Scales, <)
\* integer multiples of the metric on which TLC checks the integer side of the scale law (m.G = the cell with
\* edges divided by sqrt(m); 4 and 16 are members of the harness' family, 3 is not a square: any m will do)
ScaleMul == {3, 4, 16}
ScaledCell(c, m) == [c EXCEPT !.G = M2T(MScale(m, c.G))]

Absent(cen, h) ==
  CASE cen = "P" -> FALSE
    [] cen = "B" -> (h[1] + h[3]) % 2 # 0
    [] cen = "C" -> (h[1] + h[2]) % 2 # 0
    [] cen = "I" -> (h[1] + h[2] + h[3]) % 2 # 0
    [] cen = "F" -> (h[1] + h[2]) % 2 # 0 \/ (h[1] + h[3]) % 2 # 0 \/ (h[2] + h[3]) % 2 # 0
    [] cen = "R" -> (-h[1] + h[2] + h[3]) % 3 # 0

Box(K) == { h \in (-K..K) \X (-K..K) \X (-K..K) : h # <<0,0,0>> }
\* no vector with a coordinate beyond K has Q <= q :  h_i^2 <= Q (G^-1)_ii = Q Adj_ii / det
BoxOK(G, K, q) == \A i \in Idx : (K + 1)*(K + 1)*Det(G) > q*AdjD(G)[i]

\* the n smallest members of a set of integers, ascending
FirstN(S, n) == SetToSortSeq({ x \in S : Cardinality({ y \in S : y < x }) < n }, <)

AllowedBox(c) == { h \in Box(c.box) : ~Absent(c.cen, h) }
RingQs(c) == FirstN({ QF(c.G, h, h) : h \in AllowedBox(c) }, NR)
\* the ring with Q = q, in TLC's (deterministic) enumeration order of the set
RingSeq(c, q) == SetToSeq({ h \in AllowedBox(c) : QF(c.G, h, h) = q })

(* ---------------- Aut+(G) by brute force ------------------------------------------------------- *)
AutBox(G) == LET q == Max2(G[1][1], Max2(G[2][2], G[3][3]))
             IN CHOOSE K \in 1..12 : BoxOK(G, K, q) /\ \A K2 \in 1..(K - 1) : ~BoxOK(G, K2, q)
AutP(G) == LET K == AutBox(G)
               V(i) == { v \in Box(K) : QF(G, v, v) = G[i][i] }
           IN { M2T(Transpose(<<c1, c2, c3>>)) : <<c1, c2, c3>> \in
                  { t \in V(1) \X V(2) \X V(3) :
                       /\ QF(G, t[1], t[2]) = G[1][2] /\ QF(G, t[1], t[3]) = G[1][3]
                       /\ QF(G, t[2], t[3]) = G[2][3]
                       /\ Det(<<t[1], t[2], t[3]>>) = 1 } }
\* independent statement of membership (entries of M, not columns): M^T G M = G, det = 1
IsAut(G, M) == M2T(MM(MM(Transpose(M), G), M)) = G /\ Det(M) = 1
AutGroupFor(c, A) ==
    /\ Cardinality(A) = c.naut
    /\ I3 \in A
    /\ \A M \in A : IsAut(c.G, M) /\ M2T(Adj(M)) \in A
    /\ \A M1, M2 \in A : M2T(MM(M1, M2)) \in A
    \* the brute force of DESIGN.md (all matrices with entries -1..1) finds nothing else
    /\ \A M \in [Idx -> [Idx -> {-1, 0, 1}]] : (Det(M) = 1 /\ IsAut(c.G, M)) => M2T(M) \in A

(* ---------------- cases ------------------------------------------------------------------------- *)
Traces == IF MODE = "trace" THEN ndJsonDeserialize(IOEnv.TRACE_FILE) ELSE <<>>
NT == Len(Traces)
\* a trace line stands for the scales of the cell at which exactly this order was recorded
ASSUME \A t \in 1..NT : Traces[t].ks # <<>> /\ \A i \in DOMAIN Traces[t].ks : Traces[t].ks[i] \in Scales

RingPairs == CASE PairSel = "all"   -> (1..NR) \X (1..NR)
               [] PairSel = "upper" -> { rp \in (1..NR) \X (1..NR) : rp[1] <= rp[2] }
               [] PairSel = "low"   -> { rp \in (1..NR) \X (1..NR) : rp[1] <= rp[2] /\ rp[2] <= 3 }

VARIABLES cs, tab, pc, order, inds, bi, p, j, kept, first, obs, lmode, cand, ubil
vars == <<cs, tab, pc, order, inds, bi, p, j, kept, first, obs, lmode, cand, ubil>>

\* The tables of a case are computed once, by the first action (Tables: TLC generates initial states in one thread,
\* successors in all workers), and carried in the state variable `tab` (TLC evaluates definitions lazily and would
\* recompute rings and group in every state):
\*   ghost "cell" states : [qs, rings, aut]      case states : [q1, q2, h1, h2, aut]
\* (`\E v \in {e}` binds v to the evaluated e.)
CellTab(c) == \E qs \in {RingQs(c)} : \E A \in {AutP(c.G)} :
                 tab' = [qs |-> qs, rings |-> [r \in 1..NR |-> RingSeq(c, qs[r])], aut |-> A]
CaseTab(c, r1, r2) == \E qs \in {RingQs(c)} : \E A \in {AutP(c.G)} :
                 tab' = [q1 |-> qs[r1], q2 |-> qs[r2], h1 |-> RingSeq(c, qs[r1]), h2 |-> RingSeq(c, qs[r2]), aut |-> A]

cell == cs.cell                             \* the cell record
G0 == cell.G
Q1 == tab.q1
Q2 == tab.q2
N == Len(order)
\* order[x+1] = <<N, f, ha, hb>> : c2as[x], order[x] (flat index), h1[hi[x]], h2[hj[x]]  (0-based x as in the code)
Ord(x) == <<order[x + 1][3], order[x + 1][4]>>
NK(x) == order[x + 1][1]                    \* the sort key N = ha.G.hb = cos * sqrt(Q1 Q2)
SmallN(n) == 2500*n*n < 2401*Q1*Q2          \* abs(cos) < 0.98
Small(x) == SmallN(NK(x))

Equiv(x, y) == \E M \in tab.aut : MV(M, x[1]) = y[1] /\ MV(M, x[2]) = y[2]
\* same orientation from the same observed g1, g2 (any angle): triad of x is mapped on triad of y
SameSense(u, v) == Cross(u, v) = <<0,0,0>> /\ Dot(u, v) > 0
UbiEquiv(x, y) == \E M \in tab.aut :
      /\ MV(M, x[1]) = y[1]
      /\ SameSense(Cross(y[1], MV(M, x[2])), Cross(y[1], y[2]))

\* the pairs in mgrid order (flat index f = i*len(h2) + j), tagged with their key and flat index
Tagged ==
    [f \in 1..(Len(tab.h1)*Len(tab.h2)) |->
        << QF(G0, tab.h1[((f - 1) \div Len(tab.h2)) + 1], tab.h2[((f - 1) % Len(tab.h2)) + 1]), f,
           tab.h1[((f - 1) \div Len(tab.h2)) + 1], tab.h2[((f - 1) % Len(tab.h2)) + 1] >>]
LessFwd(u, v) == u[1] < v[1] \/ (u[1] = v[1] /\ u[2] < v[2])
LessRev(u, v) == u[1] < v[1] \/ (u[1] = v[1] /\ u[2] > v[2])
RuleOrder(tie) == IF tie = "fwd" THEN SortSeq(Tagged, LessFwd) ELSE SortSeq(Tagged, LessRev)
TraceOrder(t) == [x \in DOMAIN Traces[t].order |->
                       << QF(G0, Traces[t].order[x][1], Traces[t].order[x][2]), x,
                          Traces[t].order[x][1], Traces[t].order[x][2] >>]

\* a (recorded) order is acceptable iff it is a permutation of ring1 x ring2 in non-decreasing N
ValidOrder == \E S1 \in {Range(tab.h1)} : \E S2 \in {Range(tab.h2)} :
    /\ Len(order) = Len(tab.h1) * Len(tab.h2)
    /\ \A x \in DOMAIN order : order[x][3] \in S1 /\ order[x][4] \in S2
    /\ Cardinality({ <<order[x][3], order[x][4]>> : x \in DOMAIN order }) = Len(order)
    /\ \A x \in 1..(Len(order) - 1) : order[x][1] <= order[x + 1][1]

\* inds = list(np.arange(1, len(dc)+1)[dc]) + [len(c2as) - 1]      (filter_pairs 677-678)
IndsNow(bug) ==
    SortSeq(SetToSeq({ i \in 1..(Len(order) - 1) : order[i + 1][1] > order[i][1] }), <)
       \o << IF bug THEN Len(order) - 1 ELSE Len(order) >>

Blank == /\ order = <<>> /\ inds = <<>> /\ bi = 0 /\ p = 0 /\ j = 0 /\ kept = <<>> /\ first = 0
         /\ obs = 0 /\ lmode = 0 /\ cand = <<>> /\ ubil = {}
Init == /\ Blank /\ tab = <<>>
        /\ \/ /\ pc = "celltab" /\ MODE = "rule"
              /\ cs \in [cell : Cells, r1 : {0}, r2 : {0}, tie : {"-"}, bug : {FALSE}, t : {0}, ks : {ScaleSeq}]
           \/ /\ pc = "tab" /\ MODE = "rule"
              /\ \E rp \in RingPairs :
                   cs \in [cell : Cells, r1 : {rp[1]}, r2 : {rp[2]}, tie : TieRules,
                           bug : BugEnds, t : {0}, ks : {ScaleSeq}]
           \/ /\ pc = "tab" /\ MODE = "trace"
              /\ \E t \in 1..NT :
                   cs \in [cell : {CellById(Traces[t].cell)}, r1 : {Traces[t].r1}, r2 : {Traces[t].r2}, tie : {"trace"},
                           bug : BugEnds, t : {t}, ks : {Traces[t].ks}]

keepLater == <<obs, lmode, cand, ubil>>

Tables == \/ /\ pc = "celltab" /\ CellTab(cs.cell) /\ pc' = "cell"
             /\ UNCHANGED <<cs, order, inds, bi, p, j, kept, first, keepLater>>
          \/ /\ pc = "tab" /\ CaseTab(cs.cell, cs.r1, cs.r2) /\ pc' = "sort"
             /\ UNCHANGED <<cs, order, inds, bi, p, j, kept, first, keepLater>>
PrintCell == /\ pc = "cell" /\ pc' = "celldone"
             /\ UNCHANGED <<cs, tab, order, inds, bi, p, j, kept, first, keepLater>>

\* order = np.argsort(c2a.ravel()); c2as = ...; hi, hj = ...      (filter_pairs 667-671)
SortPairs ==
    /\ pc = "sort"
    /\ order' = IF MODE = "trace" THEN TraceOrder(cs.t) ELSE RuleOrder(cs.tie)
    /\ pc' = "cluster"
    /\ UNCHANGED <<cs, tab, inds, bi, p, j, kept, first, keepLater>>
\* dc = ...; inds = ...; p = 0                                     (filter_pairs 677-679)
Cluster ==
    /\ pc = "cluster"
    /\ IF ValidOrder
       THEN inds' = IndsNow(cs.bug) /\ bi' = 1 /\ pc' = "open"
       ELSE pc' = "badtrace" /\ UNCHANGED <<inds, bi>>
    /\ UNCHANGED <<cs, tab, order, p, j, kept, first, keepLater>>

InLoop == pc = "open" /\ bi <= Len(inds)
I == inds[bi]
\* else: p = i; continue                                           (filter_pairs 689-691)
SkipBlock  == /\ InLoop /\ ~Small(p)
              /\ p' = I /\ bi' = bi + 1
              /\ UNCHANGED <<cs, tab, pc, order, inds, j, kept, first, keepLater>>
\* keep the first one; if len(c) == 1: p = i; continue             (filter_pairs 682-694)
KeepSingle == /\ InLoop /\ Small(p) /\ I - p = 1
              /\ kept' = Append(kept, p) /\ first' = Len(kept) + 1
              /\ p' = I /\ bi' = bi + 1
              /\ UNCHANGED <<cs, tab, pc, order, inds, j, keepLater>>
\* c = c2as[p:i] is empty: c.max() raises ValueError              (filter_pairs 695)
KeepCrash  == /\ InLoop /\ Small(p) /\ I - p = 0
              /\ kept' = Append(kept, p) /\ first' = Len(kept) + 1
              /\ pc' = "crash"
              /\ UNCHANGED <<cs, tab, order, inds, bi, p, j, keepLater>>
\* gtest = [orientation of the first pair]; for j in range(p+1, i) (filter_pairs 699-706)
KeepFirst  == /\ InLoop /\ Small(p) /\ I - p > 1
              /\ kept' = Append(kept, p) /\ first' = Len(kept) + 1
              /\ j' = p + 1 /\ pc' = "test"
              /\ UNCHANGED <<cs, tab, order, inds, bi, p, keepLater>>
KnownHere(x) == \E k \in first..Len(kept) : Equiv(Ord(kept[k]), Ord(x))
\* (M in Aut+ preserves the form, so equivalent pairs have equal N: the N test below only saves time)
\* npk == 15 for some gt: newpair = False                          (filter_pairs 711-717)
TestSame   == /\ pc = "test" /\ j < I /\ KnownHere(j)
              /\ j' = j + 1
              /\ UNCHANGED <<cs, tab, pc, order, inds, bi, p, kept, first, keepLater>>
\* if newpair: pairs.append(...)                                   (filter_pairs 718-722)
TestNew    == /\ pc = "test" /\ j < I /\ ~KnownHere(j)
              /\ kept' = Append(kept, j) /\ j' = j + 1
              /\ UNCHANGED <<cs, tab, pc, order, inds, bi, p, first, keepLater>>
\* p = i                                                           (filter_pairs 723)
CloseBlock == /\ pc = "test" /\ j = I
              /\ p' = I /\ bi' = bi + 1 /\ pc' = "open"
              /\ UNCHANGED <<cs, tab, order, inds, j, kept, first, keepLater>>
Finish     == /\ pc = "open" /\ bi > Len(inds)
              /\ pc' = "done"
              /\ UNCHANGED <<cs, tab, order, inds, bi, p, j, kept, first, keepLater>>

(* ---------------- orient(): lookup and de-duplication -------------------------------------------- *)
KeptN(k) == NK(kept[k])
BlockNs == { NK(x) : x \in 0..(N - 1) }
\* crange > 0 : best = arange(len(c2ab))[abs(c2ab - costheta) < crange]       (orient 534-535)
\* else       : the nearest entry (searchsorted + neighbour comparison, 539-544); entries of the
\*              observed block are at distance ~1e-16 of each other: any of them may be returned
InRange(k, n, cr) == 1000000*(KeptN(k) - n)*(KeptN(k) - n) < cr*cr*Q1*Q2
Nearest(n) == LET d(k) == Abs(KeptN(k) - n)
              IN { k \in DOMAIN kept : \A k2 \in DOMAIN kept : d(k) <= d(k2) }
Lookup == /\ pc = "done" /\ kept # <<>>
          /\ \E n \in { m \in BlockNs : SmallN(m) } : \E cr \in CRanges :
               /\ obs' = n /\ lmode' = cr
               /\ cand' = IF cr = 0 THEN SetToSortSeq(Nearest(n), <)
                          ELSE SetToSortSeq({ k \in DOMAIN kept : InRange(k, n, cr) }, <)
          /\ pc' = "cand"
          /\ UNCHANGED <<cs, tab, order, inds, bi, p, j, kept, first, ubil>>
\* ubi_equiv: one orientation per class (nearest mode: the single candidate, whichever it was)
ClassOf(k, S) == { k2 \in S : UbiEquiv(Ord(kept[k]), Ord(kept[k2])) }
Dedup  == /\ pc = "cand"
          /\ LET S == { cand[x] : x \in DOMAIN cand } IN
             ubil' = IF lmode = 0 THEN { {k} : k \in S } ELSE { ClassOf(k, S) : k \in S }
          /\ pc' = "out"
          /\ UNCHANGED <<cs, tab, order, inds, bi, p, j, kept, first, obs, lmode, cand>>

Next == Tables \/ PrintCell \/ SortPairs \/ Cluster \/ SkipBlock \/ KeepSingle \/ KeepCrash \/ KeepFirst
        \/ TestSame \/ TestNew \/ CloseBlock \/ Finish \/ Lookup \/ Dedup
Spec == Init /\ [][Next]_vars

(* ---------------- getanglehkls: the per ring pair cache (unitcell.py getanglehkls) ----------------- *)
\* A second, tiny machine on the same variables (INIT InitCache / NEXT NextCache, Orient_cache.cfg):
\* cs = [tol, ctol, cache, hist, ret]: current ringtol version, the version stored in the cache header,
\* the entries <<key, version they were computed under>>, the operation history (emitted for replay)
\* and the entry returned by the last get.  makerings(limit, tol') changes ringtol (and the ring table);
\* getanglehkls drops every entry when the header's ringtol differs, then computes on a miss.
CKeys == { <<1, 1>>, <<1, 2>>, <<2, 1>> }
CDEPTH == 5
InitCache == /\ pc = "cache" /\ tab = <<>> /\ Blank
             /\ cs = [tol |-> 1, ctol |-> 1, cache |-> {}, hist |-> <<>>, ret |-> <<>>]
CGet(k) == /\ pc = "cache" /\ Len(cs.hist) < CDEPTH
           /\ \E c0 \in { IF cs.tol # cs.ctol THEN {} ELSE cs.cache } :
              \E c1 \in { IF \E e \in c0 : e[1] = k THEN c0 ELSE c0 \cup { <<k, cs.tol>> } } :
                cs' = [cs EXCEPT !.ctol = cs.tol, !.cache = c1,
                                 !.hist = Append(@, <<"get", k[1], k[2], IF c1 = c0 THEN 1 ELSE 0>>),
                                 !.ret = CHOOSE e \in c1 : e[1] = k]
           /\ UNCHANGED <<tab, pc, order, inds, bi, p, j, kept, first, keepLater>>
CRetol  == /\ pc = "cache" /\ Len(cs.hist) < CDEPTH
           /\ cs' = [cs EXCEPT !.tol = 3 - cs.tol, !.hist = Append(@, <<"retol", 3 - cs.tol, 0, 0>>)]
           /\ UNCHANGED <<tab, pc, order, inds, bi, p, j, kept, first, keepLater>>
NextCache == CRetol \/ \E k \in CKeys : CGet(k)
\* what is handed out was computed from the ring table in force
CacheFresh == (pc = "cache" /\ cs.ret # <<>> /\ cs.hist[Len(cs.hist)][1] = "get") => cs.ret[2] = cs.tol
EmitCache == (pc = "cache" /\ Len(cs.hist) = CDEPTH) => PrintT("@@" \o ToJson([kind |-> "cache", hist |-> cs.hist]))

(* ---------------- the property ----------------------------------------------------------------------- *)
AtEnd == pc \in {"done", "cand", "out"}
KeptPairs == { Ord(kept[k]) : k \in DOMAIN kept }
RepsOf(x) == { k \in DOMAIN kept : KeptN(k) = NK(x) /\ Equiv(Ord(kept[k]), Ord(x)) }
CompleteNow == \A x \in 0..(N - 1) : Small(x) => RepsOf(x) # {}
IrredundantNow == \A k1, k2 \in DOMAIN kept : (k1 # k2 /\ KeptN(k1) = KeptN(k2)) => ~Equiv(Ord(kept[k1]), Ord(kept[k2]))
Complete    == (pc = "done" /\ ~cs.bug) => CompleteNow
CompleteAsIs == (pc = "done" /\ cs.bug) => CompleteNow           \* expected to FAIL (Orient_asis.cfg)
Irredundant == pc = "done" => IrredundantNow
NoCrash     == pc # "crash"
BlocksExact == pc = "done" =>
                 /\ \A k \in 1..(Len(kept) - 1) : kept[k] < kept[k + 1] /\ KeptN(k) <= KeptN(k + 1)
                 /\ \A k \in DOMAIN kept : Small(kept[k])
                 \* a block that may be kept has its first member kept
                 /\ \A x \in 0..(N - 1) : (Small(x) /\ (x = 0 \/ NK(x - 1) < NK(x))) =>
                        (\E k \in DOMAIN kept : kept[k] = x)
DedupAgrees == pc = "done" =>
                 \A x, y \in 0..(N - 1) : (NK(x) = NK(y) /\ Small(x)) =>
                        (UbiEquiv(Ord(x), Ord(y)) <=> Equiv(Ord(x), Ord(y)))
\* equal angle blocks are closed under Friedel inversion of both members: even length
EvenBlocks  == pc = "done" => \A n \in BlockNs : Cardinality({ x \in 0..(N - 1) : NK(x) = n }) % 2 = 0
TrueFound   == (pc = "out" /\ lmode > 0 /\ ~cs.bug) =>
                 /\ \A x \in 0..(N - 1) : NK(x) = obs =>
                      Cardinality({ cl \in ubil : \E k \in cl : Equiv(Ord(kept[k]), Ord(x)) }) = 1
                 /\ \A c1, c2 \in ubil : c1 # c2 =>
                      \A k1 \in c1, k2 \in c2 : ~UbiEquiv(Ord(kept[k1]), Ord(kept[k2]))
                 /\ \A c1, c2 \in ubil : c1 # c2 => c1 \cap c2 = {}
\* constant-level laws, evaluated once per cell (in the ghost "cell" states)
CellLaws == pc = "celldone" => /\ Len(tab.qs) = NR /\ BoxOK(G0, cell.box, tab.qs[NR])
                               /\ AutGroupFor(cell, tab.aut)
\* the integer side of the scale law, per cell: on the metric m.G the ring Q values are m times those of G, the
\* rings are the same sets in the same enumeration, Aut+ is the same group, every sort key is m times the key
\* (same order, same blocks) and the |cos| < 0.98 test gives the same answer
ScaleLaw == pc = "celldone" => \A m \in ScaleMul : \E c2 \in {ScaledCell(cell, m)} : \E qs2 \in {RingQs(c2)} :
               /\ qs2 = [r \in 1..NR |-> m * tab.qs[r]]
               /\ \A r \in 1..NR : RingSeq(c2, qs2[r]) = tab.rings[r]
               /\ AutP(c2.G) = tab.aut
               /\ \A r1, r2 \in 1..NR : \A a \in Range(tab.rings[r1]), b \in Range(tab.rings[r2]) :
                     \E n \in {QF(G0, a, b)} :
                       /\ QF(c2.G, a, b) = m * n
                       /\ (2500*(m*n)*(m*n) < 2401*qs2[r1]*qs2[r2]) <=> (2500*n*n < 2401*tab.qs[r1]*tab.qs[r2])
\* the harness' crange values never put a kept pair exactly on the boundary |cos_k - cos_obs| = crange
\* (there the float comparison of the code would be decided by rounding)
NoBoundaryTie == pc = "cand" => \A k \in DOMAIN kept :
                    lmode = 0 \/ 1000000*(KeptN(k) - obs)*(KeptN(k) - obs) # lmode*lmode*Q1*Q2
TypeOK == /\ pc \in {"cache", "celltab", "tab", "cell", "celldone", "sort", "cluster", "open", "test", "crash", "done", "cand", "out", "badtrace"}
          /\ pc \in {"open", "test"} => (p <= N /\ (bi <= Len(inds) => p <= I))

(* ---------------- emission --------------------------------------------------------------------------- *)
Seq2(S) == SetToSortSeq(S, <)
EmitCell == pc = "celldone" =>
   PrintT("@@" \o ToJson([kind |-> "cell", cell |-> cs.cell.id, G |-> cell.G, cen |-> cell.cen,
        qs |-> tab.qs, rings |-> tab.rings, aut |-> SetToSeq(tab.aut), scales |-> ScaleSeq,
        rots |-> SetToSeq({ [num |-> RotNum(t), den |-> RotDen(t)] : t \in Rots })]))
EmitDone == pc = "done" =>
   PrintT("@@" \o ToJson([kind |-> "kept", cell |-> cs.cell.id, r1 |-> cs.r1, r2 |-> cs.r2, tie |-> cs.tie,
        bug |-> cs.bug, t |-> cs.t, ks |-> cs.ks, n |-> N, q1 |-> Q1, q2 |-> Q2, inds |-> inds,
        kept |-> kept, keptpairs |-> [k \in DOMAIN kept |-> Ord(kept[k])],
        keptn |-> [k \in DOMAIN kept |-> KeptN(k)],
        nk |-> [x \in 1..N |-> NK(x - 1)],
        small |-> [x \in 1..N |-> IF Small(x - 1) THEN 1 ELSE 0],
        reps |-> [x \in 1..N |-> Seq2(RepsOf(x - 1))],
        complete |-> CompleteNow, irredundant |-> IrredundantNow]))
EmitOut == pc = "out" =>
   PrintT("@@" \o ToJson([kind |-> "lookup", cell |-> cs.cell.id, r1 |-> cs.r1, r2 |-> cs.r2, tie |-> cs.tie,
        bug |-> cs.bug, t |-> cs.t, ks |-> cs.ks, obs |-> obs, cr |-> lmode, cand |-> cand,
        classes |-> SetToSeq({ Seq2(cl) : cl \in ubil })]))
EmitCrash == pc = "crash" =>
   PrintT("@@" \o ToJson([kind |-> "crash", cell |-> cs.cell.id, r1 |-> cs.r1, r2 |-> cs.r2, tie |-> cs.tie,
        bug |-> cs.bug, t |-> cs.t, ks |-> cs.ks, kept |-> kept]))
EmitBad == pc = "badtrace" =>
   PrintT("@@" \o ToJson([kind |-> "badtrace", cell |-> cs.cell.id, r1 |-> cs.r1, r2 |-> cs.r2, t |-> cs.t, ks |-> cs.ks]))
=============================================================================

\* Strain.tla, machine HSpec, kind "map" only, thorough tier: EVERY history of 4 operations on a TensorMap
\* (per step 4 reads + 3 ways x 2 other versions + an explicit dzero_unitcell map handed over in 2 ways while no
\* strain map is cached; no reads of the other computed maps: MTOUCHES = {}), two phase dictionaries, with and
\* without an explicit dzero_unitcell map at construction; exhaustive, 56592 states
SPECIFICATION HSpec
CONSTANTS
  REFS <- RefsQ
  STRETCHES <- StretchQ
  ROTS <- RotsQ
  OBJROTS <- ObjRots
  OBJU0 <- ObjU0
  OBJU0R <- ObjU0R
  HKINDS <- HKindsMap
  HREFS <- HRefsQ
  HSTRETCHES <- HStretchQ
  HROTS <- HRotsQ
  HU0R <- HU0RAll
  HSCALES <- HScalesAll
  MTOUCHES <- MTouchNone
  MFAILS <- MFailNone
  GFAILS <- MFailNone
  HLEN = 2
  PHASEDICTS <- PhaseDictsMapT
  NVER = 3
  MLEN = 5
INVARIANT MapExpCurrent
INVARIANT MapRepairedCurrent
INVARIANT DzeroByKey
INVARIANT DzSourceOK
INVARIANT HEmit
CHECK_DEADLOCK FALSE

\* Strain.tla, machine HSpec, kind "map" only, thorough tier: EVERY history of 4 operations on a TensorMap
\* (4 reads + 3 ways x 2 other versions per step: 10^4 histories), two phase dictionaries; exhaustive, 22222 states
SPECIFICATION HSpec
CONSTANTS
  REFS <- RefsQ
  STRETCHES <- StretchQ
  ROTS <- RotsQ
  OBJROTS <- ObjRots
  OBJU0 <- ObjU0
  OBJU0R <- ObjU0R
  HKINDS <- HKindsMap
  HREFS <- HRefsQ
  HSTRETCHES <- HStretchQ
  HROTS <- HRotsQ
  HU0R <- HU0RAll
  HLEN = 2
  PHASEDICTS <- PhaseDictsMapT
  NVER = 3
  MLEN = 5
INVARIANT MapExpCurrent
INVARIANT MapRepairedCurrent
INVARIANT DzeroByKey
INVARIANT HEmit
CHECK_DEADLOCK FALSE

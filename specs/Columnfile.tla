----------------------------- MODULE Columnfile -----------------------------
(***************************************************************************)
(* Alias structure of ImageD11.columnfile.columnfile                       *)
(*   (ImageD11/columnfile.py:142-430, colfile_from_dict 542-551)           *)
(*                                                                         *)
(* The object keeps every column reachable three ways: the private list    *)
(* (or 2-D array) `__data`, an instance attribute named after the title,   *)
(* and `bigarray`.  The model's state IS that alias structure:             *)
(*                                                                         *)
(*   heap  : sequence of buffers (each a sequence of values); a buffer id  *)
(*           stands for one region of memory                               *)
(*   data  : sequence of buffer ids, aligned with `titles`  (`__data`)     *)
(*   attr  : title -> buffer id held by the instance attribute             *)
(*           (0 = no attribute, -1 = a python scalar)                      *)
(*   isarr : `__data` is a 2-D ndarray (rows are views of one block)       *)
(*   user  : a reference the user took earlier (x = cf.a / x = cf['a'])    *)
(*   cp    : the last copy / row-copy made (its own buffers)               *)
(*                                                                         *)
(* One action per public operation; each performs exactly the re-bindings  *)
(* and in-place writes the code performs.  The BUG_* constants select the  *)
(* behaviour of the pinned tree before the repairs (TRUE) or the repaired  *)
(* behaviour (FALSE); the checks bind the FALSE configuration to the code, *)
(* the TRUE configurations document how TLC finds each defect.             *)
(*                                                                         *)
(* Properties (C17): Rectangular, ViewsAgree, SameStorage, CopiesDisjoint, *)
(* CopyRectangular (state invariants) and RowOpsUniform (action property). *)
(* Buffers are garbage collected and renumbered canonically after every    *)
(* step so that the reachable state space is finite.                       *)
(*                                                                         *)
(* What the model leaves to the harness (it is covariant in these, the     *)
(* check varies them per replayed history and counts each family):         *)
(*   - the item view cf[t] and cf.getcolumn(t) ARE data[Idx(t)] by         *)
(*     definition; the harness reads them through the public methods and   *)
(*     compares their memory regions with `dids`; likewise the copy's      *)
(*     attribute / item views with `cpids`                                 *)
(*   - the container kind of an array argument (ndarray, python list) for  *)
(*     addcolumn / setcolumn / cf[new] = ..: the stored column is a fresh   *)
(*     ndarray either way (BUG_OVERLIST documents the pinned behaviour)     *)
(*   - mask and index call shapes (ndarray / list, int32 / int64), the      *)
(*     dtype (float64, int64, float32) and the strides of the start columns *)
(*   - the VALUES and dtypes behind the model's labels 0..2: start forms     *)
(*     with fractional floats next to an integer first column, a float32     *)
(*     first column next to float64 values that need more than 24 bits,      *)
(*     int64 ids beyond 2^53 next to a float first column; every row         *)
(*     operation / copy is judged on the exact values and dtypes             *)
(* REFUSED operations (the Refused* actions): every operation that validates *)
(* its input has failing variants (ragged / wrong-shape set_bigarray, wrong- *)
(* length column through addcolumn / setcolumn / cf[t] = / cf.t =, setcolumn *)
(* of a missing title, wrong-length mask for filter / copyrows, removerows / *)
(* sortby of a missing title, copyrows / reorder with an out-of-range index, *)
(* reorder with too few indices).  The call raises and the law is            *)
(* RefusedNoTrace: the state is the one before the call (so Rectangular,     *)
(* ViewsAgree, SameStorage hold and the history can go on).                  *)
(* The value returned by get_bigarray is part of every history entry       *)
(* (`ret` = the buffer ids of its rows; <<>> for every other operation).   *)
(***************************************************************************)
EXTENDS Integers, Sequences, FiniteSets, TLC, Json

CONSTANTS MaxDepth,            \* bound on the number of operations
          BUG_GETBIG,          \* get_bigarray leaves attributes on the old buffers            (F8)
          BUG_SCALAR,          \* cf.a = 5 binds the python scalar as attribute                 (F13)
          BUG_ARRATTR,         \* array mode: cf.a = arr copies into the row but binds arr      (F13b)
          BUG_ADDARR,          \* array mode: addcolumn(new title) -> ndarray has no append     (F15)
          BUG_SLICE,           \* copyrows(slice) returns views of the parent                   (F9)
          BUG_CPNCOLS,         \* copyrows leaves ncols of the row-copy at 0                    (audit D)
          BUG_OVERLIST,        \* list mode: addcolumn(python list, existing title) stores the list itself (audit D)
          BUG_REFUSED_NROWS,   \* set_bigarray assigns nrows BEFORE the rectangularity check: a refused ragged table
                               \* whose first column has another length leaves nrows changed (never the case on the
                               \* pinned tree; documents how TLC finds a refused call that leaves a trace)
          AllowAlias,          \* enable addcolumn(cf.s, t): two titles, one buffer
          EmitMode             \* 0 none, 1 every transition (ACTION_CONSTRAINT), 2 final states only,
                               \* 3 every transition of a history that contains addalias

VARIABLES s, hist
vars == <<s, hist>>

TitleSeq == <<"a", "b", "c">>
TitleSet == {"a", "b", "c"}
Vals == 0..2
Pattern(v, n) == [i \in 1..n |-> (v + i - 1) % 3]
Const(v, n) == [i \in 1..n |-> v]

Range(q) == {q[i] : i \in 1..Len(q)}
Pos(q, x) == CHOOSE j \in 1..Len(q) : q[j] = x
Has(q, x) == \E j \in 1..Len(q) : q[j] = x
Dedup(q) == LET F[i \in 0..Len(q)] ==
                  IF i = 0 THEN <<>>
                  ELSE IF Has(F[i-1], q[i]) THEN F[i-1] ELSE Append(F[i-1], q[i])
            IN F[Len(q)]
SelectPos(q, keep(_)) == LET F[i \in 0..Len(q)] ==
                  IF i = 0 THEN <<>> ELSE IF keep(i) THEN Append(F[i-1], q[i]) ELSE F[i-1]
            IN F[Len(q)]
Gather(col, sel) == [k \in 1..Len(sel) |-> col[sel[k]]]
Iota(n) == [i \in 1..n |-> i]

NoCopy == [on |-> FALSE, titles |-> <<>>, data |-> <<>>, nrows |-> 0, ncols |-> 0, shares |-> FALSE]

\* ---- canonical renumbering / garbage collection of buffers ----------------------
AttrRefs(R) == SelectSeq([i \in 1..3 |-> R.attr[TitleSeq[i]]], LAMBDA b : b > 0)
Refs(R) == R.data \o AttrRefs(R) \o (IF R.user > 0 THEN <<R.user>> ELSE <<>>) \o R.cp.data
Canon(R) ==
  LET order == Dedup(Refs(R))
      m(b) == IF b <= 0 THEN b ELSE Pos(order, b)
  IN [R EXCEPT !.heap = [j \in 1..Len(order) |-> R.heap[order[j]]],
               !.data = [i \in 1..Len(R.data) |-> m(R.data[i])],
               !.attr = [t \in TitleSet |-> m(R.attr[t])],
               !.user = m(R.user),
               !.cp   = [R.cp EXCEPT !.data = [i \in 1..Len(R.cp.data) |-> m(R.cp.data[i])]]]

Idx(R, t) == Pos(R.titles, t)
ColOf(R, t) == R.heap[R.data[Idx(R, t)]]

\* allocate fresh buffers holding `contents` (a sequence of sequences)
Alloc(R, contents) == [R EXCEPT !.heap = R.heap \o contents]
FreshIds(R, n) == [i \in 1..n |-> Len(R.heap) + i]

\* set_attributes(): every attribute re-pointed at its __data entry
SetAttributes(R) == [R EXCEPT !.attr = [t \in TitleSet |->
                        IF Has(R.titles, t) THEN R.data[Idx(R, t)] ELSE R.attr[t]]]

\* chkarray(): __data[i] = getattr(self, name)
\*   list  : re-binding            array : values copied into the row
ChkArray(R) ==
  IF \E i \in 1..Len(R.titles) : R.attr[R.titles[i]] <= 0
  THEN [R EXCEPT !.err = "chkarray: attribute is not an array"]
  ELSE IF R.isarr
       THEN [R EXCEPT !.heap = [b \in 1..Len(R.heap) |->
                 IF \E i \in 1..Len(R.data) : R.data[i] = b
                 THEN R.heap[R.attr[R.titles[CHOOSE i \in 1..Len(R.data) : R.data[i] = b]]]
                 ELSE R.heap[b]]]
       ELSE [R EXCEPT !.data = [i \in 1..Len(R.titles) |-> R.attr[R.titles[i]]]]

\* ---- initial state: two titles, three rows, list mode ----------------------------
InitState ==
  [titles |-> <<"a", "b">>, nrows |-> 3, ncols |-> 2,
   heap |-> << <<0, 1, 2>>, <<2, 0, 1>> >>, data |-> <<1, 2>>,
   attr |-> [t \in TitleSet |-> IF t = "a" THEN 1 ELSE IF t = "b" THEN 2 ELSE 0],
   isarr |-> FALSE, user |-> 0, cp |-> NoCopy, err |-> ""]

Init == s = InitState /\ hist = <<>>

\* projection of a state the harness compares with the real object after every step
Proj(R) == [titles |-> R.titles, nrows |-> R.nrows, ncols |-> R.ncols,
            dcols |-> [i \in 1..Len(R.data) |-> R.heap[R.data[i]]],
            dids  |-> R.data,
            aids  |-> [i \in 1..Len(R.titles) |-> R.attr[R.titles[i]]],
            acols |-> [i \in 1..Len(R.titles) |->
                         IF R.attr[R.titles[i]] > 0 THEN R.heap[R.attr[R.titles[i]]] ELSE <<>>],
            isarr |-> R.isarr, user |-> R.user,
            ucol  |-> IF R.user > 0 THEN R.heap[R.user] ELSE <<>>,
            cpon |-> R.cp.on, cptitles |-> R.cp.titles, cpnrows |-> R.cp.nrows, cpncols |-> R.cp.ncols,
            cpids |-> R.cp.data,
            cpcols |-> [i \in 1..Len(R.cp.data) |-> R.heap[R.cp.data[i]]],
            err |-> R.err]

\* `ret`: what the call returned when that is one of the observation points (get_bigarray: its rows)
Commit(R, o) == LET C == Canon(R)
                IN /\ s' = C
                   /\ hist' = Append(hist, [op |-> o, st |-> Proj(C),
                                            ret |-> IF o[1] = "getbig" THEN C.data ELSE <<>>])

Enabled0 == s.err = "" /\ Len(hist) < MaxDepth

\* ---- addcolumn / setcolumn / __setitem__ ------------------------------------------
\* new title, fresh array: cf.addcolumn(arr, t) ("addnew") or cf[t] = arr ("setitem_new":
\* __setitem__ of a title that is not there calls addcolumn)
AddNewVia(t, v, route) ==
  /\ Enabled0 /\ ~Has(s.titles, t)
  /\ LET R0 == IF s.isarr /\ ~BUG_ADDARR THEN [s EXCEPT !.isarr = FALSE] ELSE s   \* repaired: back to a list
         R1 == Alloc(R0, <<Pattern(v, s.nrows)>>)
         id == Len(R0.heap) + 1
     IN IF s.isarr /\ BUG_ADDARR
        THEN \* titles.append ; ncols += 1 ; ndarray.append -> AttributeError, object left inconsistent
             Commit([s EXCEPT !.titles = Append(s.titles, t), !.ncols = s.ncols + 1,
                              !.err = "addcolumn: ndarray has no append"], <<route, t, v>>)
        ELSE Commit([R1 EXCEPT !.titles = Append(s.titles, t), !.ncols = s.ncols + 1,
                               !.data = Append(s.data, id), !.attr[t] = id], <<route, t, v>>)
AddNew(t, v) == AddNewVia(t, v, "addnew")
SetItemNew(t, v) == AddNewVia(t, v, "setitem_new")

\* existing title, fresh array (addcolumn / setcolumn): list -> re-bind ; array -> copy into the row
AddOver(t, v) ==
  /\ Enabled0 /\ Has(s.titles, t)
  /\ IF s.isarr
     THEN Commit([s EXCEPT !.heap[s.data[Idx(s, t)]] = Pattern(v, s.nrows),
                           !.attr[t] = s.data[Idx(s, t)]], <<"addover", t, v>>)
     ELSE LET R1 == Alloc(s, <<Pattern(v, s.nrows)>>)  id == Len(s.heap) + 1
          IN Commit([R1 EXCEPT !.data[Idx(s, t)] = id, !.attr[t] = id], <<"addover", t, v>>)

\* pinned tree only: addcolumn(python list, existing title) in list mode stores the list object itself;
\* column and attribute are then a list (-2 = "not an array"): the next chkarray user fails
AddOverList(t, v) ==
  /\ BUG_OVERLIST /\ Enabled0 /\ Has(s.titles, t) /\ ~s.isarr
  /\ LET R1 == Alloc(s, <<Pattern(v, s.nrows)>>)  id == Len(s.heap) + 1
     IN Commit([R1 EXCEPT !.data[Idx(s, t)] = id, !.attr[t] = -2], <<"addover_list", t, v>>)

\* addcolumn(cf.src, t) : the user's array *is* another column's buffer (aliasing hazard)
AddAlias(t, src) ==
  /\ AllowAlias /\ Enabled0 /\ ~Has(s.titles, t) /\ Has(s.titles, src) /\ ~s.isarr
  /\ s.attr[src] > 0
  /\ Commit([s EXCEPT !.titles = Append(s.titles, t), !.ncols = s.ncols + 1,
                      !.data = Append(s.data, s.attr[src]), !.attr[t] = s.attr[src]],
            <<"addalias", t, src>>)

\* cf[t] = scalar   (getcolumn(t)[:] = value, in place through __data)
SetItemScalar(t, v) ==
  /\ Enabled0 /\ Has(s.titles, t)
  /\ Commit([s EXCEPT !.heap[s.data[Idx(s, t)]] = Const(v, s.nrows)], <<"setitem_scalar", t, v>>)
\* cf[t] = array
SetItemArray(t, v) ==
  /\ Enabled0 /\ Has(s.titles, t)
  /\ Commit([s EXCEPT !.heap[s.data[Idx(s, t)]] = Pattern(v, s.nrows)], <<"setitem_array", t, v>>)

\* cf.t = scalar : broadcast into __data ; attribute stays on the column (repaired) / becomes the scalar
SetAttrScalar(t, v) ==
  /\ Enabled0 /\ Has(s.titles, t)
  /\ Commit([s EXCEPT !.heap[s.data[Idx(s, t)]] = Const(v, s.nrows),
                      !.attr[t] = IF BUG_SCALAR THEN -1 ELSE s.data[Idx(s, t)]],
            <<"setattr_scalar", t, v>>)

\* cf.t = array : list -> re-bind both ; array mode -> copy into the row, attribute = row (repaired) / = arr
SetAttrArray(t, v) ==
  /\ Enabled0 /\ Has(s.titles, t)
  /\ LET R1 == Alloc(s, <<Pattern(v, s.nrows)>>)  id == Len(s.heap) + 1
     IN IF s.isarr
        THEN IF BUG_ARRATTR
             THEN Commit([R1 EXCEPT !.heap[s.data[Idx(s, t)]] = Pattern(v, s.nrows), !.attr[t] = id],
                         <<"setattr_array", t, v>>)
             ELSE Commit([s EXCEPT !.heap[s.data[Idx(s, t)]] = Pattern(v, s.nrows),
                                   !.attr[t] = s.data[Idx(s, t)]], <<"setattr_array", t, v>>)
        ELSE Commit([R1 EXCEPT !.data[Idx(s, t)] = id, !.attr[t] = id], <<"setattr_array", t, v>>)

\* ---- row operations -----------------------------------------------------------------
\* filter(mask): chkarray ; back to a list ; new buffers col[mask] ; set_attributes
FilterSel(sel, o) ==
  LET R0 == ChkArray(s)
  IN IF R0.err # "" THEN Commit(R0, o)
     ELSE LET cols == [i \in 1..Len(R0.data) |-> Gather(R0.heap[R0.data[i]], sel)]
              R1 == Alloc(R0, cols)
              R2 == [R1 EXCEPT !.data = FreshIds(R0, Len(R0.data)), !.isarr = FALSE, !.nrows = Len(sel)]
          IN Commit(SetAttributes(R2), o)

Masks(n) == [1..n -> BOOLEAN]
SelOfMask(mk, n) == SelectPos(Iota(n), LAMBDA i : mk[i])

Filter(mk) == /\ Enabled0 /\ Len(s.titles) > 0
              /\ FilterSel(SelOfMask(mk, s.nrows), <<"filter", [i \in 1..s.nrows |-> IF mk[i] THEN 1 ELSE 0]>>)

\* removerows(t, vals, tol) : tol <= 0: mask = OR_k (col.astype(int) == vals[k]) ;
\*                            tol  > 0: mask = OR_k (|col - vals[k]| < tol) ; filter(~mask)
\* tol2 = 2 * tol (0, 1/2, 3/2: never a boundary for the integer values of the model)
AbsD(a, b) == IF a < b THEN b - a ELSE a - b
Hit(c, val, tol2) == IF tol2 = 0 THEN c = val ELSE 2 * AbsD(c, val) < tol2
Kept(col, vals, tol2) == SelectPos(Iota(Len(col)), LAMBDA i : ~\E k \in 1..Len(vals) : Hit(col[i], vals[k], tol2))
RemoveRows(t, vals, tol2) ==
  /\ Enabled0 /\ Has(s.titles, t)
  /\ FilterSel(Kept(ColOf(s, t), vals, tol2), <<"removerows", t, vals, tol2>>)
\* one value (the three of them), two values in both orders of size, fuzzy with one and two values
RemoveAlphabet == {<< <<0>>, 0 >>, << <<1>>, 0 >>, << <<2>>, 0 >>, << <<0, 2>>, 0 >>, << <<2, 1>>, 0 >>,
                   << <<1>>, 1 >>, << <<0>>, 3 >>, << <<2, 0>>, 1 >>}

\* reorder(indices): for col in __data: col[:] = col[indices]   (in place, column after column:
\* a buffer that backs two titles is permuted twice) ; set_attributes
ReorderSel(sel, o) ==
  LET F[i \in 0..Len(s.data)] ==
        IF i = 0 THEN s.heap
        ELSE [F[i-1] EXCEPT ![s.data[i]] = Gather(F[i-1][s.data[i]], sel)]
  IN Commit(SetAttributes([s EXCEPT !.heap = F[Len(s.data)]]), o)

Perms(n) == {p \in [1..n -> 1..n] : \A i, j \in 1..n : i # j => p[i] # p[j]}
Reorder(p) == /\ Enabled0 /\ Len(s.titles) > 0 /\ s.nrows > 1
              /\ ReorderSel(p, <<"reorder", p>>)

\* sortby(t): np.argsort ; only taken when the column has distinct values (no tie ambiguity)
Distinct(col) == \A i, j \in 1..Len(col) : i # j => col[i] # col[j]
ArgSort(col) == CHOOSE p \in Perms(Len(col)) : \A i \in 1..(Len(col) - 1) : col[p[i]] < col[p[i+1]]
SortBy(t) == /\ Enabled0 /\ Has(s.titles, t) /\ s.nrows > 1 /\ Distinct(ColOf(s, t))
             /\ ReorderSel(ArgSort(ColOf(s, t)), <<"sortby", t>>)

\* ---- copies -------------------------------------------------------------------------
Copy ==
  /\ Enabled0 /\ Len(s.titles) > 0
  /\ LET R0 == ChkArray(s)
     IN IF R0.err # "" THEN Commit(R0, <<"copy">>)
        ELSE LET R1 == Alloc(R0, [i \in 1..Len(R0.data) |-> R0.heap[R0.data[i]]])
             IN Commit([R1 EXCEPT !.cp = [on |-> TRUE, titles |-> R0.titles, nrows |-> R0.nrows,
                                         ncols |-> R0.ncols,
                                         data |-> FreshIds(R0, Len(R0.data)), shares |-> FALSE]],
                       <<"copy">>)

\* copyrows(rows): rows is a boolean mask, an index list, or a slice lo:hi
CopyRowsSel(sel, isslice, o) ==
  LET R0 == ChkArray(s)
  IN IF R0.err # "" THEN Commit(R0, o)
     ELSE LET R1 == Alloc(R0, [i \in 1..Len(R0.data) |-> Gather(R0.heap[R0.data[i]], sel)])
          IN Commit([R1 EXCEPT !.cp = [on |-> TRUE, titles |-> R0.titles, nrows |-> Len(sel),
                                      ncols |-> IF BUG_CPNCOLS THEN 0 ELSE R0.ncols,
                                      data |-> FreshIds(R0, Len(R0.data)),
                                      shares |-> isslice /\ BUG_SLICE /\ Len(sel) > 0]], o)
CopyRowsMask(mk) == /\ Enabled0 /\ Len(s.titles) > 0 /\ s.nrows > 0
                    /\ CopyRowsSel(SelOfMask(mk, s.nrows), FALSE,
                                   <<"copyrows_mask", [i \in 1..s.nrows |-> IF mk[i] THEN 1 ELSE 0]>>)
CopyRowsIdx(ix) == /\ Enabled0 /\ Len(s.titles) > 0 /\ s.nrows > 0
                   /\ CopyRowsSel(ix, FALSE, <<"copyrows_idx", ix>>)
\* python slice lo:hi:st on n rows (NoneV = an omitted bound; st = -1 only as [::-1])
NoneV == 9
SliceSel(lo, hi, st, n) ==
  IF st = -1 THEN [k \in 1..n |-> n + 1 - k]
  ELSE LET l0 == IF lo = NoneV THEN 0 ELSE IF lo < 0 THEN (IF n + lo < 0 THEN 0 ELSE n + lo)
                 ELSE IF lo > n THEN n ELSE lo
           h0 == IF hi = NoneV \/ hi > n THEN n ELSE hi
           cnt == IF h0 <= l0 THEN 0 ELSE (h0 - l0 + st - 1) \div st
       IN [k \in 1..cnt |-> l0 + 1 + (k - 1) * st]
CopyRowsSlice(lo, hi, st) ==
  /\ Enabled0 /\ Len(s.titles) > 0 /\ s.nrows > 0
  /\ (hi # NoneV => (lo <= hi /\ hi <= s.nrows))
  /\ CopyRowsSel(SliceSel(lo, hi, st, s.nrows), TRUE, <<"copyrows_slice", lo, hi, st>>)
\* lo:hi as before ; every other row ; reversed ; the last two rows
SliceAlphabet == {<<lo, hi, 1>> : lo \in 0..1, hi \in 1..3} \cup {<<NoneV, NoneV, 2>>, <<NoneV, NoneV, -1>>, <<-2, NoneV, 1>>}

\* ---- bigarray -----------------------------------------------------------------------
\* get_bigarray: np.asarray(list) builds a fresh block (hasattr(self,"__bigarray") is never true);
\* np.asarray(ndarray) is the same object
GetBig ==
  /\ Enabled0 /\ Len(s.titles) > 0
  /\ IF s.isarr THEN Commit(IF BUG_GETBIG THEN s ELSE SetAttributes(s), <<"getbig">>)
     ELSE LET R1 == Alloc(s, [i \in 1..Len(s.data) |-> s.heap[s.data[i]]])
              R2 == [R1 EXCEPT !.data = FreshIds(s, Len(s.data)), !.isarr = TRUE]
          IN Commit(IF BUG_GETBIG THEN R2 ELSE SetAttributes(R2), <<"getbig">>)

\* set_bigarray(ar): ar a list of fresh arrays (kind 0) or a fresh 2-D array (kind 1), n rows
SetBig(kind, n, v) ==
  /\ Enabled0 /\ Len(s.titles) > 0
  /\ LET R1 == Alloc(s, [i \in 1..Len(s.titles) |-> Pattern(v + i, n)])
         R2 == [R1 EXCEPT !.data = FreshIds(s, Len(s.titles)), !.isarr = (kind = 1), !.nrows = n]
     IN Commit(SetAttributes(R2), <<"setbig", kind, n, v>>)

\* ---- the user keeps a reference and writes through it (issue 289 pattern) --------------
TakeAttr(t) == /\ Enabled0 /\ Has(s.titles, t) /\ s.attr[t] > 0 /\ s.user # s.attr[t]
               /\ Commit([s EXCEPT !.user = s.attr[t]], <<"take_attr", t>>)
TakeItem(t) == /\ Enabled0 /\ Has(s.titles, t) /\ s.user # s.data[Idx(s, t)]
               /\ Commit([s EXCEPT !.user = s.data[Idx(s, t)]], <<"take_item", t>>)
\* x[0] = v
MutateUser(v) == /\ Enabled0 /\ s.user > 0 /\ Len(s.heap[s.user]) > 0 /\ s.heap[s.user][1] # v
                 /\ Commit([s EXCEPT !.heap[s.user][1] = v], <<"mutate_user", v>>)
\* cf.t *= 2 ... in-place operator on the attribute: getattr, modify in place, setattr(same object)
InPlaceAttr(t, v) ==
  /\ Enabled0 /\ Has(s.titles, t) /\ s.attr[t] > 0 /\ s.nrows > 0
  /\ LET b == s.attr[t]
         newc == [i \in 1..Len(s.heap[b]) |-> (s.heap[b][i] + v) % 3]
         R1 == [s EXCEPT !.heap[b] = newc]
     IN \* then __setattr__(t, same array): list -> __data[idx] = value ; array -> row[:] = value
        IF s.isarr
        THEN Commit([R1 EXCEPT !.heap[s.data[Idx(s, t)]] = newc,
                               !.attr[t] = IF BUG_ARRATTR THEN b ELSE s.data[Idx(s, t)]], <<"inplace_attr", t, v>>)
        ELSE Commit([R1 EXCEPT !.data[Idx(s, t)] = b], <<"inplace_attr", t, v>>)

\* ---- refused operations ------------------------------------------------------------------
\* The call raises; the object must be as it was.  o = <<"refused", kind, ...>>
\*   setbig_ragged first other : list of Len(titles) columns, the first `first` long, the last `other` long
\*   setbig_ncols kind         : one column too many (kind 0 list / 1 2-D array), nrows long
\*   column_len route t        : array one longer than nrows through route (addcolumn, setcolumn, setitem, setattr)
\*   setcolumn_missing t       : setcolumn(right length, title that is not there)
\*   filter_len / copyrows_len : mask one longer than nrows
\*   missing route             : removerows / sortby on a title that never exists
\*   copyrows_oob / reorder_oob: an index = nrows ; reorder_short: nrows - 1 indices (nrows = 3)
RefusedOp(o) ==
  /\ Enabled0
  /\ LET trace == BUG_REFUSED_NROWS /\ o[2] = "setbig_ragged" /\ o[3] # s.nrows
     IN Commit(IF trace THEN [s EXCEPT !.nrows = o[3]] ELSE s, o)
RefusedAlphabet ==
  {<<"refused", "setbig_ragged", 2, 3>>, <<"refused", "setbig_ragged", 3, 2>>,
   <<"refused", "setbig_ncols", 0>>, <<"refused", "setbig_ncols", 1>>,
   <<"refused", "filter_len">>, <<"refused", "copyrows_len">>,
   <<"refused", "missing", "removerows">>, <<"refused", "missing", "sortby">>,
   <<"refused", "copyrows_oob">>, <<"refused", "reorder_oob">>}
  \cup {<<"refused", "column_len", r, t>> : r \in {"addcolumn", "setitem"}, t \in {"a", "c"}}
  \cup {<<"refused", "column_len", r, "a">> : r \in {"setcolumn", "setattr"}}
  \cup (IF Has(s.titles, "c") THEN {} ELSE {<<"refused", "setcolumn_missing", "c">>})
  \cup (IF s.nrows = 3 THEN {<<"refused", "reorder_short">>} ELSE {})

Next ==
  \/ \E o \in RefusedAlphabet : RefusedOp(o)
  \/ \E t \in TitleSet, v \in Vals : AddNew(t, v) \/ AddOver(t, v) \/ SetItemScalar(t, v) \/ SetAttrScalar(t, v)
  \/ \E t \in TitleSet, v \in Vals : SetItemNew(t, v) \/ AddOverList(t, v)
  \/ \E t \in TitleSet, v \in {0, 1} : SetItemArray(t, v) \/ SetAttrArray(t, v)
  \/ \E t, src \in TitleSet : AddAlias(t, src)
  \/ \E mk \in Masks(s.nrows) : Filter(mk) \/ CopyRowsMask(mk)
  \/ \E t \in TitleSet, r \in RemoveAlphabet : RemoveRows(t, r[1], r[2])
  \/ \E p \in Perms(s.nrows) : Reorder(p)
  \/ \E t \in TitleSet : SortBy(t) \/ TakeAttr(t) \/ TakeItem(t)
  \/ Copy \/ GetBig
  \/ \E ix \in {<<1>>, <<2, 1>>, <<1, 1>>, <<1, 2>>, <<2, 3>>, <<1, 2, 3>>} :
        (\A k \in 1..Len(ix) : ix[k] <= s.nrows) /\ CopyRowsIdx(ix)   \* single, descending, repeated, ascending runs
  \/ \E sl \in SliceAlphabet : CopyRowsSlice(sl[1], sl[2], sl[3])
  \/ \E kind \in {0, 1}, n \in {2, 3}, v \in {0, 1} : SetBig(kind, n, v)
  \/ \E v \in Vals : MutateUser(v)
  \/ \E t \in TitleSet, v \in {1} : InPlaceAttr(t, v)

Spec == Init /\ [][Next]_vars

\* ---- properties ---------------------------------------------------------------------------
NoError == s.err = ""
Rectangular ==
  s.err = "" =>
    /\ Len(s.data) = Len(s.titles)
    /\ \A i \in 1..Len(s.data) : Len(s.heap[s.data[i]]) = s.nrows
    /\ \A i \in 1..Len(s.titles) : s.attr[s.titles[i]] > 0 => Len(s.heap[s.attr[s.titles[i]]]) = s.nrows
    /\ \A i, j \in 1..Len(s.titles) : i # j => s.titles[i] # s.titles[j]
    /\ s.ncols = Len(s.titles)
ViewsAgree ==
  s.err = "" => \A i \in 1..Len(s.titles) :
        /\ s.attr[s.titles[i]] > 0
        /\ s.heap[s.attr[s.titles[i]]] = s.heap[s.data[i]]
\* "the same data": a write through one view is seen through the others
SameStorage == s.err = "" => \A i \in 1..Len(s.titles) : s.attr[s.titles[i]] = s.data[i]
CopiesDisjoint ==
  s.cp.on => /\ ~s.cp.shares
             /\ Range(s.cp.data) \cap (Range(s.data) \cup {s.attr[t] : t \in TitleSet}) = {}
CopyRectangular == s.cp.on => /\ \A i \in 1..Len(s.cp.data) : Len(s.heap[s.cp.data[i]]) = s.cp.nrows
                              /\ Len(s.cp.data) = Len(s.cp.titles)
                              /\ s.cp.ncols = Len(s.cp.titles)

\* every row operation applies ONE index map to every column (checked on the step itself)
LastOp == hist'[Len(hist')].op
IsRowOp(o) == o[1] \in {"filter", "removerows", "reorder", "sortby"}
RowMap(o) ==
  IF o[1] = "filter" THEN SelectPos(Iota(s.nrows), LAMBDA i : o[2][i] = 1)
  ELSE IF o[1] = "removerows" THEN Kept(ColOf(s, o[2]), o[3], o[4])
  ELSE IF o[1] = "reorder" THEN o[2]
  ELSE ArgSort(ColOf(s, o[2]))
RowOpsUniformStep ==
  (hist' # hist /\ IsRowOp(LastOp) /\ s'.err = "") =>
      /\ s'.titles = s.titles
      /\ s'.nrows = Len(RowMap(LastOp))
      /\ \A i \in 1..Len(s.titles) :
            s'.heap[s'.data[i]] = Gather(s.heap[s.attr[s.titles[i]]], RowMap(LastOp))
RowOpsUniform == [][RowOpsUniformStep]_vars

\* an operation that raises leaves the object unchanged
RefusedNoTraceStep == (hist' # hist /\ LastOp[1] = "refused") => s' = s
RefusedNoTrace == [][RefusedNoTraceStep]_vars

\* ---- emission for the replay harness -------------------------------------------------------
Compact(h) == [i \in 1..Len(h) |-> IF i = Len(h) THEN h[i] ELSE [op |-> h[i].op]]
EmitTransition == \/ EmitMode \notin {1, 3}
                  \/ (EmitMode = 3 /\ ~\E i \in 1..Len(hist') : hist'[i].op[1] = "addalias")
                  \/ PrintT("@@" \o ToJson(Compact(hist')))
EmitFinal == EmitMode # 2 \/ Len(hist) < MaxDepth \/ PrintT("@@" \o ToJson(hist))
\* VIEW: the history is not part of the state identity (one representative path per state)
View == s
=============================================================================

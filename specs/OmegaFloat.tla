----------------------------- MODULE OmegaFloat -----------------------------
(***************************************************************************)
(* The omega-float rule of ImageD11.refinegrains.refinegrains.compute_gv    *)
(* (refinegrains.py:386-434), C09 "omega used as observed or floated", over *)
(* the OMEGA RANGE OF THE SCAN.                                             *)
(*                                                                         *)
(* Angles are integers in ticks, TURN ticks = 360 degrees.  A peak of a     *)
(* grain diffracts at the computed angle `ideal` (uncompute_g_vectors       *)
(* returns it in (-TURN/2, TURN/2]).  The diffractometer turned by          *)
(* sign * obs when the peak was seen, obs being the angle written in the    *)
(* peak file: any representative, the scan covers [lo, lo + TURN) -         *)
(* 0..360, -180..180, 0..-360 (lo = -TURN), 360..720, ranges crossing       *)
(* +-180 and 0/360 - and sign = omegasign = +-1.  delta = what the          *)
(* observation is off by (ticks, |delta| < TURN/2): sign*obs = ideal +      *)
(* delta modulo a turn.                                                     *)
(*                                                                         *)
(* variables  pc ("obs" -> "done"), sign, lo, slop, ideal, delta, obs,      *)
(*            used (the angle the g-vector is rotated back with)            *)
(* action     Float = the code:  omerr = obs*sign - ideal ;                 *)
(*                 omerr = omerr - TURN * round(omerr / TURN)   (numpy      *)
(*                 round: half to even) ;  used = obs*sign - clip(omerr,    *)
(*                 -slop, slop).   WRAP = "fmod" is a seeded defect (C      *)
(*                 fmod(omerr + TURN/2, TURN) - TURN/2: truncation, wrong   *)
(*                 for omerr < -TURN/2) that FloatedRight must catch.       *)
(* checked    FloatedRight, stated without the wrap, by brute force over    *)
(*            the turns: with d the circular distance between the observed  *)
(*            and the computed angle, the angle used is min(d, slop) from   *)
(*            the observed one and max(d - slop, 0) from the computed one   *)
(*            (circular distances) and was not moved by a turn:             *)
(*            |used - obs*sign| <= slop.  ObsInRange (the case generator).  *)
(* emitted    every case, with `used` as the exact expected value; the      *)
(*            harness replays each into the real compute_gv (one-peak grain *)
(*            whose computed angle is `ideal`; OmFloat on: grain.omega_calc *)
(*            and the g-vector; OmFloat off: the g-vector of the observed   *)
(*            angle, independent of the range).                             *)
(* bounds     _q / _t: TURN 14400 (tick 0.025 degree), slops 2 and 10       *)
(*            ticks, 8 / 13 range starts, 8 / 14 computed angles, 10 / 15   *)
(*            offsets, both signs ; _bug: WRAP = "fmod"                     *)
(***************************************************************************)
EXTENDS Integers, Sequences, FiniteSets, TLC, Json

CONSTANTS TURN, SLOPS, LOS, IDEALS, DELTAS, WRAP
VARIABLES pc, sign, lo, slop, ideal, delta, obs, used
vars == <<pc, sign, lo, slop, ideal, delta, obs, used>>

\* constant sets of the static configurations (a .cfg file cannot hold negative numbers)
LOS_Q == {-14400, -10800, -7200, -3600, 0, 3600, 7200, 14400}
IDEALS_Q == {-7199, -5400, -1, 0, 1, 3000, 7199, 7200}
DELTAS_Q == {-40, -11, -3, -2, -1, 0, 1, 2, 10, 12}
LOS_T == {-18000, -14400, -14399, -10800, -7200, -3600, -1, 0, 1, 3600, 7200, 14400, 21600}
IDEALS_T == {-7199, -7100, -5400, -3600, -1800, -1, 0, 1, 1800, 3000, 3600, 5400, 7199, 7200}
DELTAS_T == {-400, -40, -12, -11, -10, -3, -2, -1, 0, 1, 2, 3, 10, 12, 400}

ASSUME TURN % 2 = 0 /\ \A x \in IDEALS : -TURN < 2 * x /\ 2 * x <= TURN
ASSUME \A d \in DELTAS : -TURN < 2 * d /\ 2 * d < TURN

Abs(x) == IF x < 0 THEN -x ELSE x
Min(a, b) == IF a < b THEN a ELSE b
Max(a, b) == IF a < b THEN b ELSE a
Turns == -5..5
\* the representative of x (modulo a turn) inside the scan range that starts at l
InRange(x, l) == CHOOSE y \in {x + n * TURN : n \in Turns} : l <= y /\ y < l + TURN
CircDist(a, b) == LET ds == {Abs(a - b - n * TURN) : n \in Turns} IN CHOOSE m \in ds : \A v \in ds : m <= v

Init == /\ pc = "obs" /\ sign \in {1, -1} /\ lo \in LOS /\ slop \in SLOPS /\ ideal \in IDEALS /\ delta \in DELTAS
        /\ obs = InRange(sign * (ideal + delta), lo) /\ used = 0

\* ---- the code ---------------------------------------------------------------------------------------
\* numpy.round(x / t): nearest integer, halves to even
RoundDiv(x, t) == LET f == (2 * x + t) \div (2 * t) IN IF (2 * x + t) % (2 * t) = 0 /\ f % 2 # 0 THEN f - 1 ELSE f
\* C fmod: the quotient is truncated towards zero, the result has the sign of the dividend
Fmod(a, t) == IF a >= 0 THEN a % t ELSE -((-a) % t)
Wrap(x) == IF WRAP = "fmod" THEN Fmod(x + TURN \div 2, TURN) - TURN \div 2 ELSE x - TURN * RoundDiv(x, TURN)
Clip(x, s) == IF x < -s THEN -s ELSE IF x > s THEN s ELSE x
Float == /\ pc = "obs" /\ pc' = "done"
         /\ used' = obs * sign - Clip(Wrap(obs * sign - ideal), slop)
         /\ UNCHANGED <<sign, lo, slop, ideal, delta, obs>>
Next == Float
Spec == Init /\ [][Next]_vars

\* ---- the property -----------------------------------------------------------------------------------
ObsInRange == lo <= obs /\ obs < lo + TURN /\ CircDist(obs * sign, ideal + delta) = 0
FloatedRight == pc = "done" =>
                  LET d == CircDist(obs * sign, ideal)
                  IN /\ d = Abs(delta)
                     /\ CircDist(used, obs * sign) = Min(d, slop)
                     /\ CircDist(used, ideal) = Max(d - slop, 0)
                     /\ Abs(used - obs * sign) <= slop
Emit == pc = "done" => PrintT("@@" \o ToJson([sign |-> sign, lo |-> lo, slop |-> slop, ideal |-> ideal, delta |-> delta,
                                               obs |-> obs, used |-> used, turn |-> TURN]))
=============================================================================

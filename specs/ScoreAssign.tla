----------------------------- MODULE ScoreAssign -----------------------------
(***************************************************************************)
(* Competing peak-to-grain assignment: cImageD11.score_and_assign          *)
(* (src/closest.c:367-395) driven by indexing.indexer.fight_over_peaks /   *)
(* getind / refinegrains.assignlabels.                                     *)
(*                                                                         *)
(* constants  G (number of grains), K (number of peaks), E: the error of   *)
(*            grain g on peak k is err[g][k] in 0..E, where E stands for   *)
(*            "not within tolerance" (only the order and the cut matter)   *)
(* variables  err, order (the sequence in which grains are presented),     *)
(*            labels[k] (-1 = unassigned), drlv2[k] (E = the initial       *)
(*            "tol^2 or worse" value), call (position in order), pend (the *)
(*            chunks of the running call not yet executed - the OpenMP     *)
(*            schedule(static,4096) may run them in any order), nret (the  *)
(*            count accumulated by the running call), rets (returned n)    *)
(* actions    Call (open the next call), Chunk(c) (loop body on the peaks  *)
(*            of chunk c: take / release / leave), Return                  *)
(* checked    at the end: labels[k] = the grain with the smallest error    *)
(*            among those < E (the first presented one on exact ties),     *)
(*            -1 if none; drlv2[k] = that minimum; returned n of each call *)
(*            = number of peaks it took; histogram of labels = per-grain   *)
(*            counts; OrderIndependent: tables without ties give the same  *)
(*            final labels for every order (checked as: final labels are a *)
(*            function of err only).  Represent (optional) models calling  *)
(*            a label again with its own table: peaks it still wins stay.  *)
(***************************************************************************)
EXTENDS Integers, Sequences, FiniteSets, TLC, Json

CONSTANTS G, K, E, NCHUNK, EmitOn
Grains == 1..G
Peaks == 1..K
ChunkOf(k) == ((k - 1) % NCHUNK) + 1

VARIABLES err, order, labels, drlv2, call, pend, nret, rets
vars == <<err, order, labels, drlv2, call, pend, nret, rets>>

Perms == {p \in [1..G -> Grains] : \A i, j \in 1..G : i # j => p[i] # p[j]}

Init == /\ err \in [Grains -> [Peaks -> 0..E]]
        /\ order \in Perms
        /\ labels = [k \in Peaks |-> -1]
        /\ drlv2 = [k \in Peaks |-> E]
        /\ call = 0 /\ pend = {} /\ nret = 0 /\ rets = <<>>

Cur == order[call]

Call == /\ pend = {} /\ call < G /\ (call = 0 \/ Len(rets) = call)
        /\ call' = call + 1 /\ pend' = 1..NCHUNK /\ nret' = 0
        /\ UNCHANGED <<err, order, labels, drlv2, rets>>

\* if ((sumsq < tolsq) && (sumsq < drlv2[k])) take ; else if (labels[k] == label) release
Take(k) == err[Cur][k] < E /\ err[Cur][k] < drlv2[k]
Chunk(c) == /\ c \in pend
            /\ labels' = [k \in Peaks |-> IF ChunkOf(k) # c THEN labels[k]
                                          ELSE IF Take(k) THEN Cur
                                          ELSE IF labels[k] = Cur THEN -1 ELSE labels[k]]
            /\ drlv2' = [k \in Peaks |-> IF ChunkOf(k) = c /\ Take(k) THEN err[Cur][k] ELSE drlv2[k]]
            /\ nret' = nret + Cardinality({k \in Peaks : ChunkOf(k) = c /\ Take(k)})
            /\ pend' = pend \ {c}
            /\ UNCHANGED <<err, order, call, rets>>

Return == /\ call > 0 /\ pend = {} /\ Len(rets) = call - 1
          /\ rets' = Append(rets, nret)
          /\ UNCHANGED <<err, order, labels, drlv2, call, pend, nret>>

Next == Call \/ (\E c \in 1..NCHUNK : Chunk(c)) \/ Return
Spec == Init /\ [][Next]_vars

\* ---- the property ----------------------------------------------------------------------------
Finished == call = G /\ Len(rets) = G
MinErr(k) == LET vals == {err[g][k] : g \in Grains} IN CHOOSE m \in vals : \A v \in vals : m <= v
PosOf(g) == CHOOSE i \in 1..G : order[i] = g
\* the first presented grain among those attaining the minimum
Winner(k) == IF MinErr(k) >= E THEN -1
             ELSE LET c == {g \in Grains : err[g][k] = MinErr(k)}
                  IN CHOOSE g \in c : \A h \in c : PosOf(g) <= PosOf(h)
BestGrain == Finished => \A k \in Peaks : labels[k] = Winner(k)
StoredError == Finished => \A k \in Peaks : drlv2[k] = (IF MinErr(k) < E THEN MinErr(k) ELSE E)
\* returned counts: call i took exactly the peaks on which its grain strictly improves on all earlier ones
ReturnedCounts == Finished => \A i \in 1..G :
     rets[i] = Cardinality({k \in Peaks : /\ err[order[i]][k] < E
                                          /\ \A j \in 1..(i - 1) : err[order[i]][k] < err[order[j]][k]})
Histogram == Finished => \A g \in Grains :
     Cardinality({k \in Peaks : labels[k] = g}) = Cardinality({k \in Peaks : Winner(k) = g})
\* labels only ever name grains already presented; a held label's stored error is that grain's error
Sane == \A k \in Peaks : \/ labels[k] = -1
                         \/ (\E i \in 1..call : order[i] = labels[k]) /\ drlv2[k] = err[labels[k]][k]
NoTies == \A k \in Peaks : \A g, h \in Grains : (g # h /\ err[g][k] < E) => err[g][k] # err[h][k]
\* for tie-free tables the winner does not depend on the order: it is the argmin
OrderIndependent == (Finished /\ NoTies) =>
     \A k \in Peaks : labels[k] = (IF MinErr(k) >= E THEN -1 ELSE CHOOSE g \in Grains : err[g][k] = MinErr(k))

Emit == (Finished /\ EmitOn) =>
   PrintT("@@" \o ToJson([err |-> err, order |-> order, labels |-> labels, drlv2 |-> drlv2, rets |-> rets,
                          noties |-> IF NoTies THEN 1 ELSE 0]))
=============================================================================

----------------------------- MODULE ScoreAssign -----------------------------
(***************************************************************************)
(* Competing peak-to-grain assignment: cImageD11.score_and_assign          *)
(* (src/closest.c:367-395) as driven by every caller in the code base:     *)
(*   indexing.indexer.fight_over_peaks  (labels -1, drlv2 2, labels 0..)   *)
(*   indexing.indexer.getind            (labels 0, drlv2 1, label 1)       *)
(*   refinegrains.assignlabels          (labels -1, drlv2 1, labels 0..,   *)
(*                                       g-vectors recomputed per grain:   *)
(*                                       only changes where err comes from)*)
(*   nbGui.nb_utils.assign_peaks_to_grains (labels 0 (!), drlv2 1, labels  *)
(*                                       0..: the first grain's label is   *)
(*                                       what the buffer is filled with)   *)
(*   sinograms.sinogram.GrainSinogram.prepare_peaks_from_2d (labels 0,     *)
(*                                       drlv2 1, one grain, any label)    *)
(* and a caller that keeps its buffers between passes (stale labels and    *)
(* stale drlv2, the same label presented again after its UBI changed).     *)
(*                                                                         *)
(* constants  G   labels are 1..G (the model numbers them from 1; -1 is    *)
(*                "unassigned"; 0 stands for any value that is no          *)
(*                presented label)                                         *)
(*            R   rows (UBIs).  Row r carries label RowLabel(r): rows      *)
(*                1..G are the grains, rows G+1..R are later versions of   *)
(*                grains 1..R-G (the grain moved / was refined)            *)
(*            K   peaks, E: the error of row r on peak k is err[r][k] in   *)
(*                0..E where E stands for "not within tolerance" (only     *)
(*                the order and the cut matter)                            *)
(*            N   0: every row is presented exactly once, in any order;    *)
(*                n > 0: every sequence of 1..n rows (histories)           *)
(*            LInitU, LInitNN, DInit  what a cell of the labels / drlv2    *)
(*                buffer may hold when the first call is made: -1 if       *)
(*                LInitU, the values in LInitNN (0 = no presented label,   *)
(*                g = label g); drlv2 values in DInit (a .cfg file cannot  *)
(*                hold a negative number, hence the two constants)         *)
(* variables  err, order (the sequence of rows presented), lab0, dr0 (the  *)
(*            initial buffers), labels[k], drlv2[k], call (position in     *)
(*            order), pend (peaks of the running call whose loop body has  *)
(*            not run yet: the OpenMP schedule(static,4096) may run them   *)
(*            in any order; one peak at a time is finer than any chunking),*)
(*            nret (count accumulated by the running call), rets (returned *)
(*            n per call), snaps (buffers after every call, emitted)       *)
(* actions    Call (open the next call); the three branches of the loop    *)
(*            body for one pending peak: TakeP(k) (err < E and err <       *)
(*            drlv2[k]: label and error stored, n++), ReleaseP(k) (not     *)
(*            taken and labels[k] = the presented label: labels[k] := -1), *)
(*            LeaveP(k) (neither); Return                                  *)
(* checked    ClosedForm / Counts: between calls, for ANY history and ANY  *)
(*            initial buffers, labels / drlv2 / returned n are what the    *)
(*            brute-force definition over the history gives (last strict   *)
(*            improvement owns the peak unless its label was presented     *)
(*            again later; drlv2 = running minimum).                       *)
(*            The property proper, for a fresh single pass (every label    *)
(*            once, drlv2 initially "not below tol^2"): BestGrain:         *)
(*            labels[k] = the grain with the smallest error among those    *)
(*            < E (the first presented one on exact ties); a peak indexed  *)
(*            by no grain is -1 when the buffer held -1 OR ANY PRESENTED   *)
(*            LABEL (zero filled buffers with grain 0: the release branch) *)
(*            and keeps a value that is no presented label (getind);       *)
(*            StoredError: drlv2[k] = that minimum; ReturnedCounts;        *)
(*            Histogram of labels = per-grain counts; OrderIndependent:    *)
(*            tables without ties give the same final labels for every     *)
(*            order.  Represent: a second presentation of a label whose    *)
(*            row does not improve releases the peak and leaves drlv2      *)
(*            stale (documents what the code does; follows from ClosedForm)*)
(* bounds     _q      G=R=3 K=2 N=0, buffers -1 / E: all 4^6 tables x 6    *)
(*                    orders x peak schedules (the property invariants;    *)
(*                    the release branch cannot fire here)                 *)
(*            _hist   G=2 R=3 K=1 N=3, labels buffer -1 / 0 / 1 / 2,       *)
(*                    stored errors 1..E: every history of 1..3 calls      *)
(*                    (_hist_t: N=4, stored errors 0..E)                   *)
(*            _dirty_t G=R=3 K=2 N=0, labels buffer -1 / 0 / 1, fresh      *)
(*            every finished behaviour is emitted (Emit) and replayed into *)
(*            the real kernel and its callers by harness/props/c07.py      *)
(***************************************************************************)
EXTENDS Integers, Sequences, FiniteSets, TLC, Json

CONSTANTS G, R, K, E, N, LInitU, LInitNN, DInit, EmitOn
ASSUME G >= 1 /\ R >= G /\ R <= 2 * G /\ K >= 1 /\ E >= 1 /\ N >= 0
ASSUME LInitU \in BOOLEAN /\ LInitNN \subseteq 0..G /\ DInit \subseteq 0..E
LInit == LInitNN \cup (IF LInitU THEN {-1} ELSE {})
Labels == 1..G
Rows == 1..R
Peaks == 1..K
RowLabel(r) == IF r <= G THEN r ELSE r - G

VARIABLES err, order, lab0, dr0, labels, drlv2, call, pend, nret, rets, snaps
vars == <<err, order, lab0, dr0, labels, drlv2, call, pend, nret, rets, snaps>>

Perms == {p \in [1..R -> Rows] : \A i, j \in 1..R : i # j => p[i] # p[j]}
Orders == IF N = 0 THEN Perms ELSE UNION {[1..n -> Rows] : n \in 1..N}

Init == /\ err \in [Rows -> [Peaks -> 0..E]]
        /\ order \in Orders
        /\ lab0 \in [Peaks -> LInit]
        /\ dr0 \in [Peaks -> DInit]
        /\ labels = lab0 /\ drlv2 = dr0
        /\ call = 0 /\ pend = {} /\ nret = 0 /\ rets = <<>> /\ snaps = <<>>

Cur == order[call]
CurLabel == RowLabel(Cur)

Call == /\ pend = {} /\ call < Len(order) /\ Len(rets) = call
        /\ call' = call + 1 /\ pend' = Peaks /\ nret' = 0
        /\ UNCHANGED <<err, order, lab0, dr0, labels, drlv2, rets, snaps>>

\* if ((sumsq < tolsq) && (sumsq < drlv2[k])) take ; else if (labels[k] == label) release
Take(k) == err[Cur][k] < E /\ err[Cur][k] < drlv2[k]
TakeP(k) == /\ k \in pend /\ Take(k)
            /\ labels' = [labels EXCEPT ![k] = CurLabel]
            /\ drlv2' = [drlv2 EXCEPT ![k] = err[Cur][k]]
            /\ nret' = nret + 1
            /\ pend' = pend \ {k}
            /\ UNCHANGED <<err, order, lab0, dr0, call, rets, snaps>>
ReleaseP(k) == /\ k \in pend /\ ~Take(k) /\ labels[k] = CurLabel
               /\ labels' = [labels EXCEPT ![k] = -1]
               /\ pend' = pend \ {k}
               /\ UNCHANGED <<err, order, lab0, dr0, drlv2, call, nret, rets, snaps>>
LeaveP(k) == /\ k \in pend /\ ~Take(k) /\ labels[k] # CurLabel
             /\ pend' = pend \ {k}
             /\ UNCHANGED <<err, order, lab0, dr0, labels, drlv2, call, nret, rets, snaps>>

Return == /\ call > 0 /\ pend = {} /\ Len(rets) = call - 1
          /\ rets' = Append(rets, nret)
          /\ snaps' = Append(snaps, [labels |-> labels, drlv2 |-> drlv2])
          /\ UNCHANGED <<err, order, lab0, dr0, labels, drlv2, call, pend, nret>>

Next == Call \/ (\E k \in Peaks : TakeP(k) \/ ReleaseP(k) \/ LeaveP(k)) \/ Return
Spec == Init /\ [][Next]_vars

\* ---- what the loop does, stated over the whole history (no reference to the stepwise state) ----
Quiescent == pend = {} /\ Len(rets) = call
Finished == Quiescent /\ call = Len(order)
Min(S) == CHOOSE m \in S : \A v \in S : m <= v
Max(S) == CHOOSE m \in S : \A v \in S : m >= v
InTol(i, k) == err[order[i]][k] < E
RunMin(i, k) == Min({dr0[k]} \cup {err[order[j]][k] : j \in {jj \in 1..i : InTol(jj, k)}})
Takes(i, k) == InTol(i, k) /\ err[order[i]][k] < RunMin(i - 1, k)
LastTake(n, k) == Max({0} \cup {i \in 1..n : Takes(i, k)})
Owner(n, k) == IF LastTake(n, k) = 0 THEN lab0[k] ELSE RowLabel(order[LastTake(n, k)])
ExpLabel(n, k) == IF \E j \in (LastTake(n, k) + 1)..n : RowLabel(order[j]) = Owner(n, k) THEN -1 ELSE Owner(n, k)
ClosedForm == Quiescent => \A k \in Peaks : labels[k] = ExpLabel(call, k) /\ drlv2[k] = RunMin(call, k)
Counts == Quiescent => \A i \in 1..call : rets[i] = Cardinality({k \in Peaks : Takes(i, k)})
\* the same label again with a row that does not improve: the peak is released, the stored error stays
Represent == (Quiescent /\ call >= 2) => \A k \in Peaks :
     (/\ LastTake(call - 1, k) >= 1
      /\ RowLabel(order[call]) = RowLabel(order[LastTake(call - 1, k)])
      /\ ~Takes(call, k))
     => labels[k] = -1 /\ drlv2[k] = RunMin(call - 1, k)

\* ---- the property: a fresh single pass ---------------------------------------------------------
SinglePass == /\ Finished /\ Len(order) = G
              /\ \A g \in Labels : Cardinality({i \in 1..Len(order) : RowLabel(order[i]) = g}) = 1
Fresh == \A k \in Peaks : dr0[k] = E
RowOf(g) == order[CHOOSE i \in 1..Len(order) : RowLabel(order[i]) = g]
PosOf(g) == CHOOSE i \in 1..Len(order) : RowLabel(order[i]) = g
MinErr(k) == Min({err[RowOf(g)][k] : g \in Labels})
\* the first presented grain among those attaining the minimum ; nobody: -1, or the untouched foreign value
Nobody(k) == IF lab0[k] \in Labels \cup {-1} THEN -1 ELSE lab0[k]
Winner(k) == IF MinErr(k) >= E THEN Nobody(k)
             ELSE LET c == {g \in Labels : err[RowOf(g)][k] = MinErr(k)}
                  IN CHOOSE g \in c : \A h \in c : PosOf(g) <= PosOf(h)
BestGrain == (SinglePass /\ Fresh) => \A k \in Peaks : labels[k] = Winner(k)
Unassigned == (SinglePass /\ Fresh) => \A k \in Peaks : (MinErr(k) >= E /\ lab0[k] # 0) => labels[k] = -1
StoredError == (SinglePass /\ Fresh) => \A k \in Peaks : drlv2[k] = (IF MinErr(k) < E THEN MinErr(k) ELSE E)
\* returned counts: call i took exactly the peaks on which its grain strictly improves on all earlier ones
ReturnedCounts == (SinglePass /\ Fresh) => \A i \in 1..G :
     rets[i] = Cardinality({k \in Peaks : /\ err[order[i]][k] < E
                                          /\ \A j \in 1..(i - 1) : err[order[i]][k] < err[order[j]][k]})
Histogram == (SinglePass /\ Fresh) => \A g \in Labels :
     Cardinality({k \in Peaks : labels[k] = g}) = Cardinality({k \in Peaks : Winner(k) = g})
\* a held label's stored error is the error of a presented row with that label, or the buffer is untouched
Sane == \A k \in Peaks : /\ drlv2[k] <= dr0[k]
                         /\ \/ labels[k] = -1
                            \/ labels[k] = lab0[k] /\ drlv2[k] = dr0[k]
                            \/ \E i \in 1..call : RowLabel(order[i]) = labels[k] /\ drlv2[k] = err[order[i]][k]
NoTies == \A k \in Peaks : \A g, h \in Rows : (g # h /\ err[g][k] < E) => err[g][k] # err[h][k]
\* for tie-free tables the winner does not depend on the order: it is the argmin
OrderIndependent == (SinglePass /\ Fresh /\ NoTies) =>
     \A k \in Peaks : labels[k] = (IF MinErr(k) >= E THEN Nobody(k)
                                   ELSE CHOOSE g \in Labels : err[RowOf(g)][k] = MinErr(k))

Emit == (Finished /\ EmitOn) =>
   PrintT("@@" \o ToJson([err |-> err, order |-> order, lab0 |-> lab0, dr0 |-> dr0, labels |-> labels, drlv2 |-> drlv2,
                          rets |-> rets, snaps |-> snaps, noties |-> IF NoTies THEN 1 ELSE 0,
                          pass |-> IF SinglePass /\ Fresh THEN 1 ELSE 0]))
=============================================================================

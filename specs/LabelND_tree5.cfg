\* two threads, dynamic grab; all 125 spanning trees on 5 nodes (chains needing several sweeps, stars); emits them
SPECIFICATION Spec
CONSTANTS
  NSet = {5}
  ESet = {4}
  Threads = {t1, t2}
  Static = FALSE
  OrdSet = {0}
  History = TRUE
  DoEmit = TRUE
  Bug = "none"
  Hist = 0
  DsHist = 0
  DsOps = {}
  NMon = 0
  Neg = TRUE
  Shape = "tree"
SYMMETRY Sym
INVARIANT TypeOK
INVARIANT InComp
INVARIANT MinFixed
INVARIANT LocalsOK
INVARIANT ZeroAgree
INVARIANT Fixpoint
INVARIANT FixReadsRoot
INVARIANT CleanOK
INVARIANT MergeOK
INVARIANT SweepLegal
INVARIANT SeqExact
INVARIANT EmitInv
CHECK_DEADLOCK FALSE

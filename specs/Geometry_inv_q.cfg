SPECIFICATION SpecInv
CONSTANTS
  SWITCHSETS <- SW_none
  FLIPS = {1}
  SIGNS <- SIGNS_pos
  SIZES <- SIZES_pos
  PEAKS = {1}
  OMEGAS = {1}
  INVANG <- INVANG_q
  RAWANG <- NONE
  QUADS = {1,3,5,7,10,12,14,16,19}
  SCALES <- NONE
  AXQUADS = {}
INVARIANT TypeOK
INVARIANT StackOrtho
INVARIANT NormLaw
INVARIANT OmegaLaw
INVARIANT OriginLaw
INVARIANT Roundtrip
INVARIANT EwaldBound
INVARIANT BraggLaw
INVARIANT AxisLaw
INVARIANT UnitLaw
INVARIANT Emit
CHECK_DEADLOCK FALSE

SPECIFICATION Spec
CONSTANTS
  K = 10
  BOX = 6
  Cases <- Cases_t2k
  FIXED = FALSE
INVARIANT NoStaleErrors
INVARIANT RankOK
INVARIANT Textbook
INVARIANT NonDegenerate
INVARIANT EvalCount
INVARIANT ExitOK
INVARIANT IterMeaning
INVARIANT ReturnIsBestOnEps
INVARIANT ReturnIsOldBest
INVARIANT Emit
PROPERTY BestNeverIncreases
PROPERTY OnlyWorstMoves
CHECK_DEADLOCK FALSE

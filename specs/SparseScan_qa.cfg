SPECIFICATION Spec
CONSTANTS
  NS = 2
  NF = 3
  Vals = {1, 2}
  MaxFrames = 2
  Cap1 = 6
  Cap2 = 2
  Cap3 = 2
  Thr = 1
  Stages = {1, 2, 6}
  BlobStages = {1, 6}
  SubRanges = FALSE
  MotorCfgs = {18}
  FIXED = TRUE
INVARIANT InBounds
INVARIANT PtrOK
INVARIANT LoadOK
INVARIANT GetOK
INVARIANT CpLabelsOK
INVARIANT SmoothOK
INVARIANT LmLabelsOK
INVARIANT CountsOK
INVARIANT MomentsTotal
INVARIANT MomentsOK
INVARIANT BlobOK
INVARIANT Emit
CHECK_DEADLOCK FALSE

#!/venv/bin/python
"""Re-run a property's check against a stored seeded change (after the check was strengthened) and record it.

usage: seed_recheck.py <seed name under seeded/> [--tier quick|thorough] [--history "first run missed because ... / strengthened: ..."]
                       [--check CID]...

The patch is applied in a scratch worktree of /repo HEAD which is handed to the check through VERIF_REPO; evidence and
replay output of the run go to a scratch directory (VERIF_OUT_DIR), never to /verif/evidence.
"""
import sys, os, subprocess, json, shutil, time, argparse

V = os.path.dirname(os.path.dirname(os.path.abspath(__file__)))


def main():
    ap = argparse.ArgumentParser()
    ap.add_argument("seed")
    ap.add_argument("--tier", default="quick")
    ap.add_argument("--history", default=None)
    ap.add_argument("--check", action="append", default=[])
    a = ap.parse_args()
    dest = os.path.join(V, "seeded", a.seed)
    meta = json.load(open(os.path.join(dest, "meta.json")))
    checks = a.check or [meta["property"]]
    wt = "/var/tmp/seedre_%d" % os.getpid()
    outdir = wt + "_out"
    subprocess.run(["git", "-C", "/repo", "worktree", "add", "--detach", wt, "HEAD"], stdout=subprocess.DEVNULL, stderr=subprocess.DEVNULL)
    rc = 0
    try:
        p = subprocess.run(["git", "apply", os.path.join(dest, "patch.diff")], cwd=wt)
        if p.returncode != 0:
            print("PATCH DOES NOT APPLY")
            return 2
        env = dict(os.environ, VERIF_REPO=wt, VERIF_OUT_DIR=outdir)
        for cid in checks:
            t0 = time.time()
            p = subprocess.run(["./check", cid, "--tier", a.tier], cwd=V, env=env, stdout=subprocess.PIPE, stderr=subprocess.STDOUT, text=True, timeout=14400)
            viol = [l for l in p.stdout.splitlines() if l.startswith("VIOLATION") or "violation:" in l or l.startswith("MACHINERY")][:3]
            key = "%s/%s" % (cid, a.tier)
            old = meta["checks"].get(key)
            if old is not None and old.get("exit") != p.returncode:
                meta.setdefault("first_run", {})[key] = old
            meta["checks"][key] = {"exit": p.returncode, "wall_s": round(time.time() - t0, 1), "first_lines": [v[:300] for v in viol]}
            print("check", cid, a.tier, "exit", p.returncode, viol[:1])
            if p.returncode != 1:
                rc = 1
    finally:
        subprocess.run(["git", "-C", "/repo", "worktree", "remove", "--force", wt], stdout=subprocess.DEVNULL, stderr=subprocess.DEVNULL)
        shutil.rmtree(wt, True)
        shutil.rmtree(outdir, True)
    if a.history:
        h = meta.setdefault("history", [])
        if a.history not in h:
            h.append(a.history)
    json.dump(meta, open(os.path.join(dest, "meta.json"), "w"), indent=1)
    return rc


if __name__ == "__main__":
    sys.exit(main())

#!/venv/bin/python
"""replace the table of DESIGN.md 10.5 by the current output of seed_table.py"""
import subprocess, os, re
V = os.path.dirname(os.path.dirname(os.path.abspath(__file__)))
tab = subprocess.run([os.path.join(V, "tools", "seed_table.py")], stdout=subprocess.PIPE, text=True).stdout
p = os.path.join(V, "DESIGN.md")
s = open(p).read()
a = s.index("| seed | needs in order to manifest |")
b = s.index("\n\n", a)
s = s[:a] + tab.rstrip("\n") + s[b:]
open(p, "w").write(s)
print("rows:", tab.count("\n") - 2)

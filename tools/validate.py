#!/usr/bin/env python3-vt
"""validate MANIFEST.json and every evidence file against the schemas in /root/.vp"""
import json, sys, glob, os
import jsonschema
V = os.path.dirname(os.path.dirname(os.path.abspath(__file__)))
ok = True
def val(doc, schema, name):
    global ok
    try:
        jsonschema.validate(json.load(open(doc)), json.load(open(schema)))
        print("ok   ", name)
    except Exception as e:
        ok = False
        print("FAIL ", name, str(e)[:400])
val(V + "/MANIFEST.json", "/root/.vp/MANIFEST.schema.json", "MANIFEST.json")
for f in sorted(glob.glob(V + "/evidence/*.json")):
    val(f, "/root/.vp/EVIDENCE.schema.json", os.path.basename(f))
m = json.load(open(V + "/MANIFEST.json"))
props = [json.loads(l)["id"] for l in open(V + "/properties.jsonl")]
claimed = [c["property_id"] for c in m["checks"]]
na = [n["property_id"] for n in m.get("not_applicable", [])]
for p in props:
    if (p in claimed) == (p in na):
        ok = False; print("FAIL  property", p, "must be exactly one of claimed / not_applicable")
for c in claimed:
    if not os.path.exists(V + "/evidence/%s.json" % c):
        print("warn  no evidence file for", c)
sys.exit(0 if ok else 1)

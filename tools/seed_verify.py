#!/venv/bin/python
"""Confirm an independently written breaking change and run the checks against it.

usage: seed_verify.py <src_dir with patch.diff demo.py [notes.md]> <PROP> <name> [extra check ids ...] [--tier quick|thorough]

1. scratch worktree of /repo HEAD: demo passes; apply patch (+ rebuild the extension): demo fails; the repository's
   test-suite still has the 179 baseline passes.
2. keep it as /verif/seeded/<PROP>-<name>/ (patch.diff, demo.py, notes.md, meta.json)
3. apply to /repo, run ./check <PROP> (and extra ids) --tier quick, undo (git checkout -- .), record exit codes.
"""
import sys, os, subprocess, json, shutil, time, re

V = os.path.dirname(os.path.dirname(os.path.abspath(__file__)))
PY = "/venv/bin/python"


def sh(cmd, cwd=None, timeout=3600, env=None):
    p = subprocess.run(cmd, cwd=cwd, shell=isinstance(cmd, str), stdout=subprocess.PIPE, stderr=subprocess.STDOUT, text=True,
                       timeout=timeout, env=env)
    return p.returncode, p.stdout


def main():
    args = [a for a in sys.argv[1:] if not a.startswith("--")]
    tier = "quick"
    if "--tier" in sys.argv:
        tier = sys.argv[sys.argv.index("--tier") + 1]
        args = [a for a in args if a != tier]
    skip_confirm = "--skip-confirm" in sys.argv
    src, prop, name = args[0], args[1], args[2]
    extra = args[3:]
    dest = os.path.join(V, "seeded", "%s-%s" % (prop, name))
    os.makedirs(dest, exist_ok=True)
    for f in ("patch.diff", "demo.py", "notes.md"):
        if os.path.exists(os.path.join(src, f)) and os.path.abspath(src) != os.path.abspath(dest):
            shutil.copy(os.path.join(src, f), dest)
    patch = os.path.join(dest, "patch.diff")
    meta = {"property": prop, "name": name, "confirmed": {}, "checks": {}}
    if os.path.exists(os.path.join(dest, "meta.json")):
        meta.update(json.load(open(os.path.join(dest, "meta.json"))))
    touches_c = bool(re.search(r"^\+\+\+ b/src/", open(patch).read(), re.M))
    if not skip_confirm:
        wt = "/var/tmp/seedverify_%d" % os.getpid()
        sh(["git", "-C", "/repo", "worktree", "add", "--detach", wt, "HEAD"])
        try:
            rc, out = sh([PY, "setup.py", "build_ext", "--inplace"], cwd=wt)
            shutil.copy(os.path.join(dest, "demo.py"), os.path.join(wt, "demo_seed.py"))
            env = dict(os.environ, PYTHONPATH=wt, NUMBA_CACHE_DIR=os.path.join(wt, ".numba"), OMP_WAIT_POLICY="passive")
            rc0, out0 = sh([PY, "demo_seed.py"], cwd=wt, env=env)
            rca, outa = sh(["git", "apply", patch], cwd=wt)
            if rca != 0:
                print("PATCH DOES NOT APPLY", outa)
                meta["confirmed"] = {"applies": False}
                json.dump(meta, open(os.path.join(dest, "meta.json"), "w"), indent=1)
                return 2
            if touches_c:
                sh([PY, "setup.py", "build_ext", "--inplace"], cwd=wt)
            rc1, out1 = sh([PY, "demo_seed.py"], cwd=wt, env=env)
            rct, outt = sh([PY, "-m", "pytest", "-q", "-p", "no:cacheprovider", "--timeout=900", "--continue-on-collection-errors", "test"],
                           cwd=wt, env=env)
            m = re.search(r"(\d+) failed, (\d+) passed", outt) or re.search(r"(\d+) passed", outt)
            summ = m.group(0) if m else outt[-300:]
            failed = sorted(set(re.findall(r"^FAILED (\S+)", outt, re.M)))
            unexpected = [f for f in failed if "pandas" not in f and "fetch_data" not in f]
            meta["confirmed"] = {"applies": True, "demo_without": rc0, "demo_with": rc1, "suite_with": summ,
                                 "unexpected_test_failures": unexpected,
                                 "ok": rc0 == 0 and rc1 != 0 and "179 passed" in summ and not unexpected}
            print("confirm:", meta["confirmed"])
            if rc0 != 0:
                print(out0[-1500:])
        finally:
            sh(["git", "-C", "/repo", "worktree", "remove", "--force", wt])
            shutil.rmtree(wt, True)
    # --- run the checks against it: a scratch worktree with the change applied is handed to the checks through
    # VERIF_REPO (equivalent to `git -C /repo apply` + undo, but does not disturb anything else using /repo);
    # evidence/replay output of these runs goes to a scratch directory, never to /verif/evidence
    wt = "/var/tmp/seedrun_%d" % os.getpid()
    outdir = "/var/tmp/seedrun_%d_out" % os.getpid()
    sh(["git", "-C", "/repo", "worktree", "add", "--detach", wt, "HEAD"])
    try:
        rca, outa = sh(["git", "apply", patch], cwd=wt)
        if rca != 0:
            print("PATCH DOES NOT APPLY", outa)
            return 2
        env = dict(os.environ, VERIF_REPO=wt, VERIF_OUT_DIR=outdir)
        for cid in [prop] + extra:
            t0 = time.time()
            rcc, outc = sh(["./check", cid, "--tier", tier], cwd=V, timeout=7200, env=env)
            viol = [l for l in outc.splitlines() if l.startswith("VIOLATION") or "violation:" in l or l.startswith("MACHINERY")][:3]
            meta["checks"]["%s/%s" % (cid, tier)] = {"exit": rcc, "wall_s": round(time.time() - t0, 1), "first_lines": [v[:300] for v in viol]}
            print("check", cid, tier, "exit", rcc, viol[:1])
    finally:
        sh(["git", "-C", "/repo", "worktree", "remove", "--force", wt])
        shutil.rmtree(wt, True)
        shutil.rmtree(outdir, True)
    json.dump(meta, open(os.path.join(dest, "meta.json"), "w"), indent=1)
    return 0


if __name__ == "__main__":
    sys.exit(main())

HOOKS = {
    "guard": "IMAGED11_VERIF",
    "enable": "no source hooks are installed: checks build /repo/src out of tree (harness/common.py build_shadow) and observe the library through its public API and by wrapping module-level callables from the harness process; IMAGED11_VERIF is reserved and unused",
    "baseline_off_cmd": "cd /repo && /venv/bin/python -m pytest -ra -q -p no:cacheprovider --timeout=900 --continue-on-collection-errors",
    "source_commits": [],
    "add_only": True,
}
ENGINES = [
    {"name": "tlc+replay", "path": "/verif/check", "serves_properties": [],
     "kind_free_text": "TLA+ specifications in /verif/specs model-checked by TLC 1.8 (exhaustive on small scopes, -simulate beyond); bound to the implementation by replaying TLC-generated cases/behaviours into the real code (modes A/B) or validating ndjson traces recorded from the real code against a Trace spec (mode C); out-of-tree build of /repo's working tree, incl. an ASan/UBSan flavour"},
]
NOTES = "See DESIGN.md. ./check <ID> --tier quick|thorough ; exit 0 held / 1 VIOLATION / 2 machinery failure. known_findings.json lists genuine defects recorded rather than repaired."
NOT_APPLICABLE = {}
CHECKS = {}

HOOKS = {
    "guard": "IMAGED11_VERIF",
    "enable": "no source hooks are installed: checks build /repo/src out of tree (harness/common.py build_shadow) and observe the library through its public API and by wrapping module-level callables from the harness process; IMAGED11_VERIF is reserved and unused",
    "baseline_off_cmd": "cd /repo && /venv/bin/python -m pytest -ra -q -p no:cacheprovider --timeout=900 --continue-on-collection-errors",
    "source_commits": [],
    "add_only": True,
}
ENGINES = [
    {"name": "tlc+replay", "path": "/verif/check", "serves_properties": [],
     "kind_free_text": "TLA+ specifications in /verif/specs model-checked by TLC 1.8 (exhaustive on small scopes, -simulate beyond); bound to the implementation by replaying TLC-generated cases/behaviours into the real code (modes A/B) or validating ndjson traces recorded from the real code against a Trace spec (mode C); out-of-tree build of /repo's working tree, incl. an ASan/UBSan flavour"},
]
NOTES = "See DESIGN.md. ./check <ID> --tier quick|thorough ; exit 0 held / 1 VIOLATION / 2 machinery failure. known_findings.json lists genuine defects recorded rather than repaired."
NOT_APPLICABLE = {}
CHECKS = {}

CHECKS["C17"] = dict(
    technique="TLA+ alias-structure model of columnfile (specs/Columnfile.tla) model-checked by TLC; every explored transition replayed on the real object (behaviour replay, spec -> code)",
    text="TLC explores every sequence of the 20 modelled columnfile operations (addcolumn/setcolumn/__setitem__/__setattr__ scalar+array/in-place/filter/removerows/sortby/reorder/copy/copyrows mask+index+slice/get_bigarray/set_bigarray list+ndarray/user writes through a kept reference) to depth 3 (quick) / 4 with replay and 5 invariants-only (thorough), checking Rectangular, ViewsAgree, SameStorage, CopiesDisjoint and the action property RowOpsUniform on a model whose state is the alias structure (buffers, __data, attributes, list/array mode). Every transition TLC generates (representative path of each distinct state + one operation) and thousands of simulated behaviours of depth 9-13 are executed on a real columnfile started four ways; contents of all views, nrows/ncols/titles, list/array mode and the canonical memory-region numbering of every array must equal the model state, and the property clauses are also judged directly on the real object. BUG_* configurations show TLC finding each of the four repaired defects; the AllowAlias configuration finds the recorded aliasing finding, which is replayed and matched structurally.",
    note="Trusted: the projection in harness/props/c17.py (memory regions via __array_interface__/np.shares_memory), numpy, TLC. Bounds: 3 titles, <=3 rows, values 0..2 as float64; PandasColumnfile not covered (pandas absent). Beyond the depth bound behaviours are sampled (-simulate), not enumerated.",
)

CHECKS["C11"] = dict(
    technique="statement-level TLA+ transcription of connectedpixels / sparse_connectedpixels / splat + disjoint set (ConnPix, SparseCP, Dset) model-checked on every small image; exact labels replayed into the real kernels (normal + ASan build); certificates of large images validated by TLC (TraceCC)",
    text="TLC runs the transcribed kernels on every binary image of 2x2..3x4/4x3 (quick) and 4x4 (thorough), both connectivities, and on every absent/listed/above ternary image for the sparse and splat kernels, checking in every state index bounds and the disjoint-set invariant, and at the end that labels are 0 exactly off the above-threshold pixels, that the label partition equals the connected components under an independent closure-of-adjacency definition, and that labels are 1..n in raster order. Every enumerated image is then executed through cImageD11.connectedpixels, labelimage.labelpeaks, sparse_connectedpixels, sparse_connectedpixels_splat and sparseframe.sparse_connected_pixels with poisoned output buffers and must reproduce the model's label array element for element, on the normal and the sanitizer build. Images beyond TLC's scope (to 512x512, checkerboards/combs/spirals, >16384 provisional labels forcing realloc) are labelled by the real kernels and a spanning-forest certificate is validated by TLC against the local conditions of TraceCC.tla; dense, sparse and splat outputs must coincide.",
    note="Trusted: TLC, the recorder's BFS forest (a wrong forest can only cause rejection), numpy. Model capacity CAP=4 stands for 16384 (same growth rule). SparseScan.cplabel not driven. Float threshold comparison exercised only at below/equal/above values.",
)

#!/bin/sh
# offline setup: verify toolchain, parse every specification with SANY. Builds nothing persistent.
set -e
cd "$(dirname "$0")/.."
command -v java >/dev/null
command -v gcc >/dev/null
test -x /venv/bin/python
test -f /opt/veriftools/tla/tla2tools.jar
fail=0
for f in specs/*.tla; do
  m=$(basename "$f" .tla)
  if ! (cd specs && java -cp /opt/veriftools/tla/tla2tools.jar:/opt/veriftools/tla/CommunityModules-deps.jar tla2sany.SANY "$m.tla" >/var/tmp/sany.$$.out 2>&1); then
    echo "SANY failed for $m"; cat /var/tmp/sany.$$.out; fail=1
  fi
done
rm -f /var/tmp/sany.$$.out
exit $fail

#!/bin/sh
# offline setup: verify the toolchain and parse every specification with SANY (report only: a check whose
# specification does not parse fails on its own as a machinery error). Builds nothing persistent.
cd "$(dirname "$0")/.."
for t in java gcc; do command -v $t >/dev/null || { echo "missing tool: $t"; exit 1; }; done
test -x /venv/bin/python || { echo "missing /venv/bin/python"; exit 1; }
test -f /opt/veriftools/tla/tla2tools.jar || { echo "missing tla2tools.jar"; exit 1; }
bad=0
for f in specs/*.tla; do
  m=$(basename "$f" .tla)
  case "$m" in *_TTrace_*) continue;; esac
  if ! (cd specs && java -cp /opt/veriftools/tla/tla2tools.jar:/opt/veriftools/tla/CommunityModules-deps.jar tla2sany.SANY "$m.tla" >/var/tmp/sany.$$.out 2>&1) || grep -q "Parse Error\|Semantic errors\|Fatal errors" /var/tmp/sany.$$.out; then
    echo "WARNING: SANY reports problems for $m"; bad=$((bad+1))
  fi
done
rm -f /var/tmp/sany.$$.out
echo "setup: toolchain ok, $bad specification(s) with SANY warnings"
exit 0

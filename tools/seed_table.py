#!/venv/bin/python
"""print the markdown table of seeded changes (DESIGN.md 10.5) from seeded/*/meta.json"""
import json, glob, os
V = os.path.dirname(os.path.dirname(os.path.abspath(__file__)))
print("| seed | needs in order to manifest | confirmed (demo fails with / passes without, 179 tests pass) | checks run against it | history |")
print("|---|---|---|---|---|")
for d in sorted(glob.glob(os.path.join(V, "seeded", "*", "meta.json"))):
    m = json.load(open(d))
    name = os.path.basename(os.path.dirname(d))
    conf = m.get("confirmed", {})
    c = "yes" if conf.get("ok") else ("NOT CONFIRMED: %s" % json.dumps(conf)[:120])
    ch = "; ".join("%s exit %s" % (k, v["exit"]) for k, v in m.get("checks", {}).items())
    hist = " / ".join(m.get("history", [])) or "caught at first run" if all(v["exit"] == 1 for v in m.get("checks", {}).values()) and m.get("checks") else " / ".join(m.get("history", []))
    print("| %s | %s | %s | %s | %s |" % (name, m.get("needs", "(see notes.md)"), c, ch, hist))

#!/venv/bin/python
"""Regenerate MANIFEST.json from tools/manifest_src.py (single source of truth for the per-check text)."""
import json, os, sys
HERE = os.path.dirname(os.path.abspath(__file__))
sys.path.insert(0, HERE)
import manifest_src as S

props = [json.loads(l)["id"] for l in open(os.path.join(HERE, "..", "properties.jsonl"))]
checks = []
for pid in props:
    if pid in S.CHECKS:
        c = S.CHECKS[pid]
        checks.append({
            "property_id": pid,
            "quick_cmd": "./check %s --tier quick" % pid,
            "thorough_cmd": "./check %s --tier thorough" % pid,
            "evidence_file": "/verif/evidence/%s.json" % pid,
            "replay_cmd_template": "./check %s --replay {path}" % pid,
            "engine": "tlc+replay",
            "level_claimed": {"category": c.get("category", "model_checking"), "text": c["text"],
                              "design_ref": c.get("design_ref", "DESIGN.md section 5, " + pid)},
            "level_note": c["note"],
            "technique": c["technique"],
        })
na = [{"property_id": p, "reason": S.NOT_APPLICABLE.get(p, "check not built yet in this tree (see DESIGN.md section 5 for the planned specification)")}
      for p in props if p not in S.CHECKS]
m = {
    "version": 1,
    "setup_cmd": "./tools/setup.sh",
    "hooks": S.HOOKS,
    "engines": S.ENGINES,
    "checks": checks,
    "notes": S.NOTES,
    "not_applicable": na,
}
json.dump(m, open(os.path.join(HERE, "..", "MANIFEST.json"), "w"), indent=1)
print("checks:", [c["property_id"] for c in checks]); print("not_applicable:", [n["property_id"] for n in na])
